"""Seeded generator of small StepUp projects and edit/build histories for `simdirector`.

    model = gen_model(rng)                       # abstract project: sources, steps, plans
    project = render(model)                      # simdirector.Project (plain data, JSON-able)
    history = gen_history(rng, model, nphase=4)  # History: events + the final project
    results = run_history(project, history.events, seed=1)

Everything is a deterministic function of the `random.Random` that is passed in.
Projects are mostly valid; `gen_model(rng, invalid="conflict" | "cycle" | "missing")` makes one
of three classic mistakes, and `fail_prob` adds steps whose command exits with 1.
"""

from __future__ import annotations

import copy
import hashlib
import json
import random
from dataclasses import dataclass, field

from simdirector import A, BuildResult, Project, SimDirector, plan_file

__all__ = (
    "History",
    "Model",
    "StepSpec",
    "fresh_build",
    "gen_history",
    "gen_model",
    "gen_project",
    "mutate",
    "render",
    "run_history",
)

ENV_NAMES = ("SIM_A", "SIM_B")
MAIN = "main"
SUB = "sub"
SUB_CMD = "./sub_plan.py"
SUB_FILE = "sub_plan.py"


@dataclass
class StepSpec:
    name: str
    inp: list[str] = field(default_factory=list)
    out: list[str] = field(default_factory=list)
    vol: list[str] = field(default_factory=list)
    env: list[str] = field(default_factory=list)
    optional: bool = False
    resources: dict[str, int] = field(default_factory=dict)
    amend_inp: list[str] = field(default_factory=list)
    amend_out: list[str] = field(default_factory=list)
    fail: bool = False
    plan: str = MAIN

    def script(self):
        """The explicit script of the step, or None when the default script does the job."""
        if not (self.amend_inp or self.amend_out or self.fail):
            return None
        actions = [A.read_declared()]
        if self.amend_inp:
            actions.append(A.amend(inp=self.amend_inp))
            actions.extend(A.read(path) for path in self.amend_inp)
        if self.fail:
            actions.append(A.exit(1))
        if self.amend_out:
            actions.append(A.amend(out=self.amend_out))
        actions.append(A.write_declared())
        return actions

    @property
    def cmd(self) -> str:
        """The command = label. It carries a tag of the explicit script, so that a change of
        behaviour is always a change of the step's identity (a well-behaved project)."""
        script = self.script()
        if script is None:
            return f"run {self.name}"
        tag = hashlib.sha256(repr(script).encode()).hexdigest()[:6]
        return f"run {self.name} -s {tag}"

    def action(self):
        return A.step(
            self.cmd,
            inp=self.inp,
            out=self.out,
            vol=self.vol,
            env=self.env,
            optional=self.optional,
            resources=self.resources,
        )

    def all_inputs(self) -> list[str]:
        return self.inp + self.amend_inp

    def all_outputs(self) -> list[str]:
        return self.out + self.amend_out


@dataclass
class Model:
    """An abstract project. `render` turns it into scripts and files."""

    static: dict[str, str] = field(default_factory=dict)
    """Individually declared static sources, path -> content."""
    tree: dict[str, str] = field(default_factory=dict)
    """Files under the static tree `data/`."""
    globbed: dict[str, str] = field(default_factory=dict)
    """Files `g/<n>.in` matched by the pattern of the glob-driven part of the plan."""
    steps: list[StepSpec] = field(default_factory=list)
    dropped: list[StepSpec] = field(default_factory=list)
    """Steps removed by a history, available for re-adding."""
    env: dict[str, str] = field(default_factory=dict)
    has_sub: bool = False
    glob_out_ext: str = "o"
    order_salt: int = 0
    """Changes the order in which a plan declares its steps."""
    resources: str | None = None
    """What to pass as `--resources` so that every step can run."""
    counter: int = 0
    plan_note: int = 0
    """Changes the text of `plan.py` without changing what it declares."""

    def sources(self) -> dict[str, str]:
        return {**self.static, **self.tree, **self.globbed}

    def glob_steps(self) -> list[tuple[str, str]]:
        """`(name, output)` of the steps that the glob-driven part of the plan defines."""
        result = []
        for path in sorted(self.globbed):
            name = path.split("/")[-1].rsplit(".", 1)[0]
            result.append((name, f"out/g_{name}.{self.glob_out_ext}"))
        return result

    def available_outputs(self) -> list[str]:
        return [o for _, o in self.glob_steps()] + [o for s in self.steps for o in s.all_outputs()]


# ---------------------------------------------------------------------------------------------
# Rendering
# ---------------------------------------------------------------------------------------------


def _ordered(steps: list[StepSpec], salt: int) -> list[StepSpec]:
    if salt == 0:
        return list(steps)
    return sorted(
        steps, key=lambda s: hashlib.sha256(f"{salt}:{s.name}".encode()).hexdigest()
    )


def render(model: Model) -> Project:
    """The `simdirector.Project` of a model: plain tuples/lists/dicts/strings only."""
    scripts: dict[str, list] = {}
    main: list = []
    if model.static:
        main.append(A.static(*sorted(model.static)))
    if model.tree:
        main.append(A.static("data/"))
    if model.globbed or True:
        # The pattern is registered even when nothing matches, as a real plan would do.
        main.append(
            A.foreach(
                "g/${*n}.in",
                [A.step("conv ${n}", inp=["${path}"], out=["out/g_${n}." + model.glob_out_ext])],
            )
        )
    for step in _ordered([s for s in model.steps if s.plan == MAIN], model.order_salt):
        main.append(step.action())
    sub_steps = [s for s in model.steps if s.plan == SUB]
    if model.has_sub:
        main.append(A.static(SUB_FILE))
        main.append(A.step(SUB_CMD, inp=[SUB_FILE], plan=True))
        scripts[SUB_CMD] = [s.action() for s in _ordered(sub_steps, model.order_salt)]
    scripts["./plan.py"] = main
    for step in model.steps:
        script = step.script()
        if script is not None:
            scripts[step.cmd] = script
    files: dict[str, str | bytes] = dict(model.sources())
    files["plan.py"] = plan_file(main, note=f"note {model.plan_note}")
    if model.has_sub:
        files[SUB_FILE] = plan_file(scripts[SUB_CMD])
    return Project(scripts=scripts, files=files, env=dict(model.env))


def _edits_between(old: Project, new: Project) -> list[tuple]:
    """Edits that turn the scratch tree and scripts of `old` into those of `new`."""
    edits: list[tuple] = []
    for label in sorted(set(old.scripts) | set(new.scripts)):
        if label in new.scripts and old.scripts.get(label) != new.scripts[label]:
            # The plan files are ordinary files below, hence no file argument here.
            edits.append(("script", label, new.scripts[label], ""))
    for path in sorted(set(old.files) | set(new.files)):
        if path not in new.files:
            edits.append(("remove", path))
        elif old.files.get(path) != new.files[path]:
            edits.append(("write", path, new.files[path]))
    for name in sorted(set(old.env) | set(new.env)):
        if old.env.get(name) != new.env.get(name):
            edits.append(("setenv", name, new.env.get(name)))
    return edits


# ---------------------------------------------------------------------------------------------
# Model generation
# ---------------------------------------------------------------------------------------------


def _fresh_name(model: Model, prefix: str = "s") -> str:
    model.counter += 1
    return f"{prefix}{model.counter}"


def _pick_inputs(rng: random.Random, model: Model, upto: int, allow_outputs: bool = True):
    pool = sorted(model.static) + sorted(model.tree)
    if allow_outputs:
        pool += model.available_outputs()
    if not pool:
        return []
    k = min(len(pool), rng.randint(1, upto))
    return sorted(rng.sample(pool, k))


def gen_model(
    rng: random.Random,
    *,
    nstep: int | None = None,
    invalid: str | None = None,
    fail_prob: float = 0.0,
    features: bool = True,
) -> Model:
    """A random small project: 2-8 steps in total (glob-driven, regular and sub-plan steps)."""
    model = Model()
    for i in range(rng.randint(1, 3)):
        model.static[f"src/s{i}.txt"] = f"static {i} v0\n"
    if features and rng.random() < 0.6:
        model.tree["data/d0.dat"] = "tree 0 v0\n"
        if rng.random() < 0.5:
            model.tree["data/sub/d1.dat"] = "tree 1 v0\n"
    if features and rng.random() < 0.6:
        for i in range(rng.randint(1, 2)):
            model.globbed[f"g/x{i}.in"] = f"glob {i} v0\n"
    # Always defined, so that a history never has to introduce a variable (a running watch-mode
    # director would not see it). A separate draw keeps the random stream independent of this.
    rng.random()
    model.env = {name: "0" for name in ENV_NAMES}
    total = nstep if nstep is not None else rng.randint(2, 8)
    nregular = max(1, total - len(model.globbed))
    model.has_sub = features and nregular >= 2 and rng.random() < 0.45
    cpu_max = 0
    for _ in range(nregular):
        name = _fresh_name(model)
        step = StepSpec(name=name)
        step.inp = _pick_inputs(rng, model, 2)
        step.out = [f"out/{name}.txt"]
        if rng.random() < 0.15:
            step.out.append(f"out/{name}.aux")
        if features and rng.random() < 0.15:
            step.vol = [f"out/{name}.log"]
        if features and model.env and rng.random() < 0.35:
            step.env = sorted(rng.sample(ENV_NAMES, rng.randint(1, 2)))
        if features and rng.random() < 0.2:
            step.resources = {"cpu": rng.randint(1, 2)}
            cpu_max = max(cpu_max, step.resources["cpu"])
        if features and rng.random() < 0.2:
            step.optional = True
        if features and rng.random() < 0.3:
            candidates = [p for p in _pick_inputs(rng, model, 2) if p not in step.inp]
            step.amend_inp = candidates[:1]
        if features and rng.random() < 0.15:
            step.amend_out = [f"out/{name}.extra"]
        if rng.random() < fail_prob:
            step.fail = True
        if model.has_sub and rng.random() < 0.5:
            step.plan = SUB
        model.steps.append(step)
    if model.has_sub and not any(s.plan == SUB for s in model.steps):
        model.steps[-1].plan = SUB
    if cpu_max:
        model.resources = f"cpu:{max(2, cpu_max)}"
    if invalid == "conflict":
        # Two steps claim the same output.
        a = model.steps[0]
        name = _fresh_name(model)
        model.steps.append(StepSpec(name=name, inp=list(a.inp), out=[a.out[0]], plan=a.plan))
    elif invalid == "cycle":
        n1, n2 = _fresh_name(model), _fresh_name(model)
        model.steps.append(StepSpec(name=n1, inp=[f"out/{n2}.txt"], out=[f"out/{n1}.txt"]))
        model.steps.append(StepSpec(name=n2, inp=[f"out/{n1}.txt"], out=[f"out/{n2}.txt"]))
    elif invalid == "missing":
        name = _fresh_name(model)
        model.steps.append(
            StepSpec(name=name, inp=["src/does_not_exist.txt"], out=[f"out/{name}.txt"])
        )
    elif invalid is not None:
        raise ValueError(f"unknown invalid kind {invalid!r}")
    return model


def gen_project(seed: int, **kwargs) -> tuple[Model, Project]:
    model = gen_model(random.Random(seed), **kwargs)
    return model, render(model)


# ---------------------------------------------------------------------------------------------
# Mutations (one edit of the sources, the plan or the environment)
# ---------------------------------------------------------------------------------------------

MUTATIONS = (
    "change_source",
    "change_source",
    "add_glob_source",
    "del_glob_source",
    "add_tree_source",
    "drop_step",
    "readd_step",
    "redefine_inputs",
    "redefine_env",
    "rename_output",
    "change_need",
    "change_env",
    "reorder_plan",
    "move_step",
    "noop_rewrite",
)


def _consumers(model: Model, path: str) -> list[StepSpec]:
    return [s for s in model.steps if path in s.all_inputs()]


def _bump(content: str) -> str:
    head, _, version = content.rstrip("\n").rpartition(" v")
    return f"{head} v{int(version) + 1}\n" if version.isdigit() else content + "+\n"


def mutate(rng: random.Random, model: Model, kind: str | None = None) -> tuple[Model, str]:
    """Return a mutated deep copy of `model` and the name of the mutation that was applied
    (`"none"` when the chosen mutation does not apply to this model)."""
    new = copy.deepcopy(model)
    kind = kind or rng.choice(MUTATIONS)
    if kind == "change_source":
        group = rng.choice([g for g in (new.static, new.tree, new.globbed) if g])
        path = rng.choice(sorted(group))
        group[path] = _bump(group[path])
    elif kind == "add_glob_source":
        index = 0
        while f"g/x{index}.in" in new.globbed:
            index += 1
        new.globbed[f"g/x{index}.in"] = f"glob {index} v0\n"
    elif kind == "del_glob_source":
        removable = [
            p for p in sorted(new.globbed)
            if not _consumers(new, f"out/g_{p.split('/')[-1][:-3]}.{new.glob_out_ext}")
        ]
        if not removable:
            return new, "none"
        del new.globbed[rng.choice(removable)]
    elif kind == "add_tree_source":
        if not new.tree:
            return new, "none"
        index = len(new.tree)
        new.tree[f"data/n{index}.dat"] = f"tree n{index} v0\n"
    elif kind == "drop_step":
        droppable = [
            s for s in new.steps if not any(_consumers(new, o) for o in s.all_outputs())
        ]
        if len(new.steps) < 2 or not droppable:
            return new, "none"
        step = rng.choice(droppable)
        new.steps.remove(step)
        new.dropped.append(step)
    elif kind == "readd_step":
        available = set(new.sources()) | set(new.available_outputs())
        taken = set(new.available_outputs())
        candidates = [
            s for s in new.dropped
            if all(p in available for p in s.all_inputs())
            and not any(o in taken for o in s.all_outputs())
            and (s.plan == MAIN or new.has_sub)
        ]
        if not candidates:
            return new, "none"
        step = rng.choice(candidates)
        new.dropped.remove(step)
        new.steps.append(step)
    elif kind == "redefine_inputs":
        step = rng.choice(new.steps)
        own = set(step.all_outputs())
        downstream = _downstream(new, step)
        pool = [
            p for p in sorted(new.static) + sorted(new.tree) + new.available_outputs()
            if p not in own and p not in downstream and p not in step.amend_inp
        ]
        if step.inp and rng.random() < 0.5:
            step.inp.remove(rng.choice(step.inp))
        else:
            extra = [p for p in pool if p not in step.inp]
            if not extra:
                return new, "none"
            step.inp = sorted([*step.inp, rng.choice(extra)])
    elif kind == "redefine_env":
        step = rng.choice(new.steps)
        if not new.env:
            new.env = {name: "0" for name in ENV_NAMES}
        name = rng.choice(ENV_NAMES)
        if name in step.env:
            step.env.remove(name)
        else:
            step.env = sorted([*step.env, name])
    elif kind == "rename_output":
        step = rng.choice(new.steps)
        old = step.out[0]
        new_path = f"out/{step.name}_r{new.counter}.txt"
        new.counter += 1
        step.out[0] = new_path
        for consumer in new.steps:
            consumer.inp = sorted(new_path if p == old else p for p in consumer.inp)
            consumer.amend_inp = [new_path if p == old else p for p in consumer.amend_inp]
    elif kind == "change_need":
        step = rng.choice(new.steps)
        step.optional = not step.optional
    elif kind == "change_env":
        if not new.env:
            return new, "none"
        name = rng.choice(sorted(new.env))
        new.env[name] = str(int(new.env[name]) + 1)
    elif kind == "reorder_plan":
        new.order_salt += 1
    elif kind == "move_step":
        if not new.has_sub:
            return new, "none"
        step = rng.choice(new.steps)
        step.plan = SUB if step.plan == MAIN else MAIN
    elif kind == "noop_rewrite":
        # The plan file changes (comment), the declarations do not.
        new.plan_note += 1
    else:
        raise ValueError(f"unknown mutation {kind!r}")
    return new, kind


def _downstream(model: Model, step: StepSpec) -> set[str]:
    """Outputs that (transitively) depend on the outputs of `step`."""
    frontier = set(step.all_outputs())
    seen: set[str] = set()
    changed = True
    while changed:
        changed = False
        for other in model.steps:
            if other is step:
                continue
            if any(p in frontier for p in other.all_inputs()):
                for out in other.all_outputs():
                    if out not in frontier:
                        frontier.add(out)
                        seen.add(out)
                        changed = True
    return seen


# ---------------------------------------------------------------------------------------------
# Histories
# ---------------------------------------------------------------------------------------------


@dataclass
class History:
    """`events` is plain data:

    ("build", kwargs)        `SimDirector.build(**kwargs)`; in watch mode when kwargs["watch"]
    ("edits", [edit, ...])   applied between builds, or through `watch_rebuild` while a
                              director is watching
    ("shutdown",)            end of a watch session
    """

    events: list[tuple]
    models: list[Model]
    """The model after each "edits" event (index 0: the initial model)."""
    mutations: list[str]

    @property
    def final_model(self) -> Model:
        return self.models[-1]

    @property
    def final_project(self) -> Project:
        """The project as a user would have written it from scratch after the last edit."""
        return render(self.final_model)

    def to_json(self) -> str:
        return json.dumps(self.events, default=_json_default)


def _json_default(obj):
    if isinstance(obj, bytes):
        return obj.decode("utf-8", "surrogateescape")
    raise TypeError(type(obj).__name__)


def gen_history(
    rng: random.Random,
    model: Model,
    *,
    nphase: int | None = None,
    crash_prob: float = 0.0,
    watch_prob: float = 0.0,
    njob_max: int = 3,
    nmut_max: int = 2,
    kinds: tuple[str, ...] | None = None,
) -> History:
    """A history: build, then `nphase-1` times (1..nmut_max edits, build).

    crash_prob
        Probability that a build is killed after a random commit (followed by a restart).
    watch_prob
        Probability that the history is run by one watch-mode director instead of restarts.
    """
    nphase = nphase or rng.randint(2, 5)
    watching = rng.random() < watch_prob
    events: list[tuple] = []
    models = [model]
    mutations: list[str] = []

    def build_kwargs():
        kwargs: dict = {"njob": rng.randint(1, njob_max)}
        if models[-1].resources:
            kwargs["resources"] = models[-1].resources
        return kwargs

    first = build_kwargs()
    if watching:
        first["watch"] = True
    events.append(("build", first))
    current = model
    for _ in range(nphase - 1):
        old_project = render(current)
        applied = []
        for _ in range(rng.randint(1, nmut_max)):
            kind = rng.choice(kinds) if kinds else rng.choice(MUTATIONS)
            if watching and kind == "change_env":
                kind = "change_source"  # a running director keeps its environment
            current, kind = mutate(rng, current, kind)
            applied.append(kind)
        mutations.append("+".join(applied))
        models.append(current)
        events.append(("edits", _edits_between(old_project, render(current))))
        if watching:
            continue
        if rng.random() < crash_prob:
            kwargs = build_kwargs()
            kwargs["crash_after_commit"] = rng.randint(1, 60)
            events.append(("build", kwargs))
        events.append(("build", build_kwargs()))
    if watching:
        events.append(("shutdown",))
    return History(events=events, models=models, mutations=mutations)


def run_history(
    project: Project,
    events: list[tuple],
    *,
    seed: int = 0,
    sim: SimDirector | None = None,
    **build_defaults,
) -> list[BuildResult]:
    """Run the events on a fresh `SimDirector` (or on `sim`); one result per build phase.

    In a watch session an "edits" event becomes `watch_rebuild(edits)`; environment and script
    edits are applied first (a running director does not see a changed environment, exactly
    like a real process).
    """
    own = sim is None
    if own:
        sim = SimDirector(copy.deepcopy(project), seed=seed)
    results: list[BuildResult] = []
    try:
        for event in events:
            kind = event[0]
            watching = sim.session is not None and sim.session.watching
            if kind == "build":
                kwargs = {**build_defaults, **event[1]}
                results.append(sim.build(**kwargs))
            elif kind == "edits":
                if watching:
                    results.append(sim.watch_rebuild(event[1]))
                else:
                    sim.apply(event[1])
            elif kind == "shutdown":
                result = sim.shutdown()
                if result is not None:
                    results.append(result)
            else:
                raise ValueError(f"unknown history event {event!r}")
    finally:
        if own:
            sim.close()
    return results


def fresh_build(project: Project, *, seed: int = 0, **kwargs) -> BuildResult:
    """Build `project` from an empty database in a new scratch directory."""
    with SimDirector(copy.deepcopy(project), seed=seed) as sim:
        return sim.build(**kwargs)
