"""F20: stale `_implied_need` after a step that amended an input runs again without amending it.

The optional step `gen` is needed only because `use` amended its output as an input.  When `use`
has to run again, `reset_for_rerun` drops the dynamic edge; nothing flags `gen` (the dependency
trigger flags only the endpoints of the deleted edge and the propagation of
`_update_meta_after` follows edges that no longer exist), so `gen` keeps `_implied_need = DEFAULT`
and is dispatched although it is optional and nothing needs it.
Exit 0 when the cached value agrees with its definition (the fixed code), 1 otherwise.
"""
import asyncio
import sys

sys.path.insert(0, "/verif/harness")
import implkit
import kdump
from implkit import *  # noqa: F403
from stepup.core.enums import HashUpdateCause, Need


async def main():
    async with implkit.workflow(with_scheduler=True) as (wf, sched):
        async with wf.db:
            wf.define_step(wf.root, "./plan.py", need=Need.PLAN, _safe=True)
        plan = (await sched.pop_next_job()).step
        async with wf.db:
            wf.declare_static_files(plan, ["src.txt"])
            wf.update_file_hashes({"src.txt": kdump.file_token(1)}, cause=HashUpdateCause.CONFIRMED)
            wf.define_step(plan, "gen", inp_paths=["src.txt"], out_paths=["f.txt"], need=Need.OPTIONAL)
            wf.define_step(plan, "use", out_paths=["r.txt"])
            plan.mark_completed(kdump.step_token(2), False)
        use = (await sched.pop_next_job()).step
        assert use.label == "use"
        async with wf.db:
            wf.amend_step(use, inp_paths=["f.txt"], ran_concurrently=lambda p, c: False)          # f.txt is not built yet: use is deferred
            use.mark_completed(None, True)
        gen = (await sched.pop_next_job()).step
        assert gen.label == "gen", gen.label                 # gen is needed now
        async with wf.db:
            wf.update_file_hashes({"f.txt": kdump.file_token(3)}, cause=HashUpdateCause.SUCCEEDED)
            gen.mark_completed(kdump.step_token(4), False)
        job = await sched.pop_next_job()
        assert job.step.label == "use"
        async with wf.db:
            job.step.reset_for_rerun()                        # runs again, this time without amending
            wf.update_file_hashes({"r.txt": kdump.file_token(5)}, cause=HashUpdateCause.SUCCEEDED)
            job.step.mark_completed(kdump.step_token(6), False)
            wf.update_file_hashes({"src.txt": kdump.file_token(7)}, cause=HashUpdateCause.EXTERNAL)
        job = await sched.pop_next_job()
        async with wf.db:
            cached = wf.db.execute("SELECT _implied_need FROM step WHERE node = ?", (gen.i,)).fetchone()[0]
        print("dispatched after the rerun of use:", None if job is None else job.step.label,
              "| cached _implied_need of gen:", Need(cached).name, "(definition: OPTIONAL)")
        return 0 if job is None and cached == Need.OPTIONAL.value else 1


sys.exit(asyncio.run(main()))
