"""The real `stepup.core.api` in the process state of a step, with a captured RPC client.

Used by the oracles that sit above the kernel: what a plan writes must be what the director is asked to record.
"""

import contextlib
import os
import shutil
import tempfile

KEYS = ("STEPUP_ROOT", "HERE", "ROOT", "STEPUP_JOB_I", "STEPUP_DIRECTOR_SOCKET", "STEPUP_STEP_I")


def make_client(answers=None):
    import attrs
    from stepup.core.rpc import DummySyncRPCClient

    @attrs.define
    class Capture(DummySyncRPCClient):
        calls: list = attrs.field(factory=list)

        def __call__(self, name, /, *args, _rpc_timeout=None, **kwargs):
            self.calls.append((name, args, kwargs))
            return (answers or {}).get(name)

        def last(self, name):
            hits = [c for c in self.calls if c[0] == name]
            return hits[-1] if hits else None

    return Capture()


@contextlib.contextmanager
def project(files=("tool.py", "src.txt", "tmpl.txt", "vars.json"), dirs=("dst", "sub")):
    """A real project directory with a few files; yields its path."""
    base = os.path.realpath(tempfile.mkdtemp(prefix="verif-api-"))
    try:
        for d in dirs:
            os.makedirs(os.path.join(base, d), exist_ok=True)
        for f in files:
            with open(os.path.join(base, f), "w") as fh:
                fh.write("{}" if f.endswith(".json") else "#!/usr/bin/env python3\n")
            os.chmod(os.path.join(base, f), 0o755)
        yield base
    finally:
        shutil.rmtree(base, ignore_errors=True)


@contextlib.contextmanager
def step_process(base, cwd_rel="", client=None):
    """cwd, STEPUP_ROOT, HERE, job id of a step running in `cwd_rel`; yields `(api, client)`."""
    from stepup.core import api

    client = client if client is not None else make_client()
    old_cwd = os.getcwd()
    old_env = {k: os.environ.get(k) for k in KEYS}
    old_client = api._get_cached_rpc_client
    try:
        os.chdir(os.path.join(base, cwd_rel))
        for k in KEYS:
            os.environ.pop(k, None)
        os.environ["STEPUP_JOB_I"] = "0"
        os.environ["STEPUP_ROOT"] = base
        os.environ["HERE"] = cwd_rel or "."
        api._get_cached_rpc_client = lambda: client
        yield api, client
    finally:
        api._get_cached_rpc_client = old_client
        api._HOLD_STATE.holding = 0
        for hist in api._AMEND_HISTORY.values():
            hist.clear()
        os.chdir(old_cwd)
        for k, v in old_env.items():
            if v is None:
                os.environ.pop(k, None)
            else:
                os.environ[k] = v
