"""Run the repository's pinned baseline (guard off) and compare with /root/.vp/BASELINE.json.

usage: python3 harness/baseline_check.py [repo_dir]   -> exit 0 iff every stable_pass test passes
"""
import json
import os
import subprocess
import sys
import tempfile
import xml.etree.ElementTree as ET

repo = sys.argv[1] if len(sys.argv) > 1 else "/repo"
base = json.load(open("/root/.vp/BASELINE.json"))
stable = set(base["stable_pass"])
with tempfile.TemporaryDirectory() as tmp:
    xml = os.path.join(tmp, "junit.xml")
    env = dict(os.environ)
    env.pop("STEPUP_CORE_VERIF", None)
    env["PYTHONPATH"] = repo
    subprocess.run(["/venv/bin/python", "-m", "pytest", "-ra", "-q", "-p", "no:cacheprovider", "--timeout=900",
                    "--continue-on-collection-errors", f"--junitxml={xml}"], cwd=repo, env=env,
                   stdout=subprocess.DEVNULL, stderr=subprocess.DEVNULL)
    passed = set()
    for tc in ET.parse(xml).getroot().iter("testcase"):
        ok = not any(ch.tag in ("failure", "error", "skipped") for ch in tc)
        if ok:
            passed.add(f"{tc.get('classname')}::{tc.get('name')}")
missing = sorted(stable - passed)
# the sandbox is shared with other jobs: re-run what did not pass once, serially, before reporting
still = []
for m in missing:
    cls, name = m.split("::", 1)
    nodeid = cls.replace(".", "/") + ".py::" + name
    env = dict(os.environ)
    env.pop("STEPUP_CORE_VERIF", None)
    env["PYTHONPATH"] = repo
    rc = subprocess.run(["/venv/bin/python", "-m", "pytest", "-q", "-p", "no:cacheprovider", "-n", "0",
                         "--timeout=900", nodeid], cwd=repo, env=env,
                        stdout=subprocess.DEVNULL, stderr=subprocess.DEVNULL).returncode
    if rc != 0:
        still.append(m)
print(f"first pass missing={len(missing)}; after serial re-run missing={len(still)}")
missing = still
print(f"stable_pass={len(stable)} passed_now={len(passed)} missing={len(missing)}")
for m in missing[:40]:
    print("  NOT PASSING:", m)
sys.exit(1 if missing else 0)
