"""Simulated director: deterministic in-process simulation of whole StepUp builds.

See `/verif/notes/simdirector.md` for the API, what is real and what is simulated.

In one sentence: the REAL `stepup.core.director.serve()` (startup, build loop, finalize,
watcher, handler coroutines, scheduler, executor, workflow, SQLite file database) runs on a
virtual-time event loop inside this process; only the things that touch the outside world
are replaced for the duration of a call: `executor.launch_command` (an interpreter of step
scripts), `executor.ThreadWorker` (hashing runs inline, gated), `director.SocketRPCServer`
(no socket), `watcher.Inotify` (events computed from harness edits), `scheduler.time`
(logical clock) and the reporter (recording, silent).
"""

from __future__ import annotations

import implkit  # noqa: F401  (must be first: puts /repo first on sys.path)

import asyncio
import atexit
import contextlib
import hashlib
import logging
import os
import random
import re
import selectors
import shutil
import sqlite3
import stat
import string
import tempfile
import time
import traceback
from dataclasses import dataclass, field
from typing import Any, Callable

import stepup.core.builder as builder_mod
import stepup.core.director as director_mod
import stepup.core.executor as executor_mod
import stepup.core.job as job_mod
import stepup.core.scheduler as scheduler_mod
import stepup.core.sqlite3 as sqlite3_mod
import stepup.core.watcher as watcher_mod
from path import Path
from stepup.core.constants import GRAPH_DB, STEPUP_DIR
from stepup.core.director import ServeConfig
from stepup.core.enums import Need, ReturnCode
from stepup.core.exceptions import HashCancelledError
from stepup.core.nglob import NamedGlob, has_any_wildcards, has_trailing_recursive_wildcard
from stepup.core.outcome import ChildOutcome
from stepup.core.reporter import ReporterClient

try:  # linux only; the watcher is not available elsewhere
    from asyncinotify import Mask
except ImportError:  # pragma: no cover
    Mask = None

__all__ = (
    "A",
    "BuildResult",
    "DEFAULT_SCRIPT",
    "FifoSchedule",
    "JobRecord",
    "LifoSchedule",
    "ListSchedule",
    "PrioritySchedule",
    "Project",
    "RandomSchedule",
    "RunRecord",
    "Schedule",
    "SimDirector",
    "canon_graph",
    "plan_file",
)


# ---------------------------------------------------------------------------------------------
# Limits (watchdogs). Virtual seconds cost nothing; the wall clock limit is a last resort.
# ---------------------------------------------------------------------------------------------

VIRTUAL_TIMEOUT = 1000.0
"""Virtual seconds after which one call (build, watch_rebuild, shutdown) is declared hung.

Virtual time only advances when no task is runnable and no gate is waiting, so this fires
exactly when the real code is deadlocked (or waits for a timer beyond this horizon)."""

MAX_ITERATIONS = 2_000_000
"""Event loop iterations allowed per call (livelock guard)."""

WALL_TIMEOUT = 120.0
"""Real seconds allowed per call."""

SQL_VM_STEPS = 50_000_000
"""SQLite VM steps allowed per statement burst (see implkit.install_watchdog, F11)."""

FILE_EPOCH = 1_600_000_000
"""Base of the logical file clock: every harness write gets mtime FILE_EPOCH + n seconds."""


class SimAbort(SystemExit):
    """Stops the event loop at once (asyncio lets SystemExit through tasks and handles)."""


class SimCrash(SimAbort):
    """The simulated SIGKILL."""


class SimHang(SimAbort):
    """A watchdog tripped."""


class _StepExit(Exception):
    """Ends the interpretation of a step script with a return code."""

    def __init__(self, code: int, stderr: str = ""):
        super().__init__(code)
        self.code = code
        self.stderr = stderr


# ---------------------------------------------------------------------------------------------
# Actions
# ---------------------------------------------------------------------------------------------


class A:
    """Constructors of script actions (plain tuples, so projects can be dumped as JSON).

    All paths are relative to the project root (the simulation replaces `stepup.core.api`,
    including its path translation; C20 covers that glue separately).
    """

    @staticmethod
    def static(*paths: str):
        """`static(...)`: literal files, directories (become static trees) and glob patterns,
        classified by what is on disk exactly as `stepup.core.api.static` does."""
        return ("static", list(paths))

    @staticmethod
    def static_tree(path: str):
        """Register one directory as a static tree (it must exist)."""
        return ("static_tree", path)

    @staticmethod
    def glob(pattern: str, **subs: str):
        """`glob(pattern, **subs)`: scan, then the real `register_glob` request.
        A generator script receives the list of `(path, mapping)` matches."""
        return ("glob", pattern, dict(subs))

    @staticmethod
    def step(
        cmd: str,
        inp=(),
        out=(),
        vol=(),
        env=(),
        workdir: str = ".",
        optional: bool = False,
        plan: bool = False,
        resources: dict | None = None,
        shell: bool = False,
        env_overrides: dict | None = None,
        duration: float | None = None,
    ):
        """`step(...)`: the real `define_step` request with this step as creator."""
        return (
            "step",
            {
                "cmd": cmd,
                "inp": list(inp),
                "out": list(out),
                "vol": list(vol),
                "env": list(env),
                "workdir": workdir,
                "need": "PLAN" if plan else ("OPTIONAL" if optional else "DEFAULT"),
                "resources": dict(resources or {}),
                "shell": shell,
                "env_overrides": env_overrides,
                "duration": duration,
            },
        )

    @staticmethod
    def amend(inp=(), out=(), vol=(), env=()):
        """`amend(...)`: the real `amend_step` request. When the director answers
        `carry_on=False` the script ends with exit code 1, like `InputNotFoundError`."""
        return ("amend", {"inp": list(inp), "out": list(out), "vol": list(vol), "env": list(env)})

    @staticmethod
    def hold():
        return ("hold",)

    @staticmethod
    def release():
        return ("release",)

    @staticmethod
    def read(path: str, required: bool = True):
        """Read a file, recording `(path, sha256 hex | None)`. A missing required file ends the
        script with exit code 1."""
        return ("read", path, required)

    @staticmethod
    def getenv(name: str):
        """Read an environment variable of the step's environment into the input record."""
        return ("getenv", name)

    @staticmethod
    def write(path: str, content: bytes | str | None = None, mkdir: bool = False):
        """Write a file. `content=None` derives the content from everything this run has read
        so far (see `derive_content`), so staleness is visible in the bytes."""
        return ("write", path, content, mkdir)

    @staticmethod
    def remove(path: str):
        return ("remove", path)

    @staticmethod
    def exit(code: int):
        return ("exit", code)

    @staticmethod
    def nop():
        """A pure scheduling point."""
        return ("nop",)

    @staticmethod
    def read_declared():
        """Read every declared (initial) input and environment variable of this step
        (uses the real `get_step_info` request)."""
        return ("read_declared",)

    @staticmethod
    def write_declared():
        """Write every declared output and volatile output of this step, plus outputs amended
        earlier in this run that were not written yet."""
        return ("write_declared",)

    @staticmethod
    def foreach(pattern: str, actions: list, static: bool = True, **subs: str):
        """Glob-driven planning. `static=True`: `static(pattern)` (declares the matches and
        registers the pattern); `static=False`: `glob(pattern, **subs)` (query only).
        Then, for each matched path, the template `actions` with `${path}`, `${name}` (basename),
        `${stem}` and the named wildcards substituted in every string."""
        return ("foreach", pattern, dict(subs), list(actions), static)


DEFAULT_SCRIPT = [A.read_declared(), A.write_declared()]
"""Script of a step that has none: read all declared inputs, write all declared outputs."""


def _fingerprint(obj) -> str:
    if callable(obj):
        version = getattr(obj, "version", None)
        text = f"callable:{getattr(obj, '__qualname__', repr(obj))}:{version}"
    else:
        text = repr(obj)
    return hashlib.sha256(text.encode("utf-8", "surrogatepass")).hexdigest()


def plan_file(script, note: str = "") -> bytes:
    """Content for the file of a plan-like script (`plan.py`, a sub-plan script): the shebang
    the director insists on, and a fingerprint of the script, so that rewriting the script
    changes the file that the plan step has as input. Callables: set `fn.version`."""
    return f"#!/usr/bin/env python3\n# sim script {_fingerprint(script)} {note}\n".encode()


@dataclass
class Project:
    """What the simulated steps do.

    scripts
        step label -> script. A label is the command, plus `"  # wd=<dir>"` when the step has a
        working directory (see `Step.adjust_label`). A script is a list of `A.*` actions or a
        generator function `fn(ctx)` that yields actions and receives their results.
        The boot step has label `./plan.py`.
    rules
        `(regex, script)` pairs tried (with `re.fullmatch`) for labels not in `scripts`.
    files
        Initial source files, path -> bytes/str. `plan.py` is generated from the boot script
        when it is not listed.
    env
        Environment variables set in the director process during builds (`None` = unset).
    default
        Script of every other step (`DEFAULT_SCRIPT`).
    """

    scripts: dict[str, Any] = field(default_factory=dict)
    files: dict[str, bytes | str] = field(default_factory=dict)
    env: dict[str, str | None] = field(default_factory=dict)
    rules: list[tuple[str, Any]] = field(default_factory=list)
    default: Any = field(default_factory=lambda: list(DEFAULT_SCRIPT))

    def script_for(self, label: str):
        if label in self.scripts:
            return self.scripts[label]
        for pattern, script in self.rules:
            if re.fullmatch(pattern, label):
                return script
        return self.default

    def initial_files(self) -> dict[str, bytes]:
        files = {p: _to_bytes(c) for p, c in self.files.items()}
        if "plan.py" not in files:
            files["plan.py"] = plan_file(self.scripts.get("./plan.py", []))
        return files


def _to_bytes(content) -> bytes:
    return content if isinstance(content, bytes) else str(content).encode("utf-8")


def derive_content(label: str, path: str, reads, env_reads) -> bytes:
    """The default content of an output: a deterministic function of what the run has read."""
    lines = [f"step: {label}", f"out: {path}"]
    lines.extend(f"inp: {p} {d}" for p, d in reads)
    lines.extend(f"env: {n}={v}" for n, v in env_reads)
    return ("\n".join(lines) + "\n").encode("utf-8", "surrogatepass")


# ---------------------------------------------------------------------------------------------
# Schedules
# ---------------------------------------------------------------------------------------------
#
# A gate key is a tuple `(kind, label, attempt, index)`:
#   ("step", step label, attempt, i)   the step is about to perform action i of its script
#   ("exit", step label, attempt, n)   the step's process is about to end
#   ("hash", path, 0, n)               a single-file hash job (static/confirm/rescan/watch) finishes
#   ("shash", step label, job_i, n)    a step-hash computation (inputs / outputs) finishes
# Whenever the event loop has nothing else to run, the schedule picks one waiting gate.


class Schedule:
    """Chooses which waiting gate is released next. `choose` gets the sorted list of keys."""

    def choose(self, keys: list[tuple]) -> int:
        raise NotImplementedError


class RandomSchedule(Schedule):
    def __init__(self, seed: int = 0):
        self.rng = random.Random(seed)

    def choose(self, keys):
        return self.rng.randrange(len(keys))


class FifoSchedule(Schedule):
    """Oldest waiter first (arrival order): the closest to an unperturbed real run."""

    fifo = True

    def choose(self, keys):
        return 0


class LifoSchedule(Schedule):
    """Newest waiter first."""

    fifo = True

    def choose(self, keys):
        return len(keys) - 1


class PrioritySchedule(Schedule):
    """Prefer gates whose label comes first in `order` (then sorted key order).
    Useful to enumerate completion orders: `PrioritySchedule(permutation_of_labels)`."""

    def __init__(self, order: list[str]):
        self.rank = {label: i for i, label in enumerate(order)}

    def choose(self, keys):
        best = min(range(len(keys)), key=lambda i: (self.rank.get(keys[i][1], len(self.rank)), i))
        return best


class ListSchedule(Schedule):
    """Replay: entries are gate keys (released when waiting) or ints (index modulo the number of
    waiting gates). When the list is exhausted or an entry is not waiting, `fallback` decides.
    `BuildResult.trace` fed back through this class reproduces a run exactly."""

    def __init__(self, choices: list, fallback: Schedule | None = None):
        self.choices = list(choices)
        self.pos = 0
        self.fallback = fallback or FifoSchedule()
        self.misses = 0

    def choose(self, keys):
        if self.pos < len(self.choices):
            entry = self.choices[self.pos]
            self.pos += 1
            if isinstance(entry, int):
                return entry % len(keys)
            entry = tuple(entry)
            if entry in keys:
                return keys.index(entry)
            self.misses += 1
        return self.fallback.choose(keys)


# ---------------------------------------------------------------------------------------------
# Records
# ---------------------------------------------------------------------------------------------


@dataclass
class RunRecord:
    """One execution of a step's command (one call of the replaced `launch_command`)."""

    label: str
    command: str
    workdir: str
    job_i: int
    attempt: int
    creator: str | None
    """Key of the declaring node (`step:<label>` or `root:`)."""
    resources: dict[str, int]
    start: int
    """Logical time at which the command started."""
    end: int | None = None
    """Logical time at which the command ended (None: still running at a crash/hang)."""
    returncode: int | None = None
    reads: list[tuple[str, str | None]] = field(default_factory=list)
    """`(path, sha256 hex at read time | None when missing)` in read order."""
    env_reads: list[tuple[str, str | None]] = field(default_factory=list)
    writes: list[tuple[str, str]] = field(default_factory=list)
    """`(path, sha256 hex of what was written)`."""
    removes: list[str] = field(default_factory=list)
    actions: list[tuple[int, int, str, Any]] = field(default_factory=list)
    """`(index, logical time, action name, result summary)` of every performed action."""
    rpc_errors: list[tuple[int, str, str, str]] = field(default_factory=list)
    """`(action index, request, exception class, message)` of rejected requests."""
    stderr: str = ""
    killed: int | None = None


@dataclass
class JobRecord:
    """One job of the real scheduler (RUN, SKIP or VALIDATE_DYNAMIC)."""

    job_i: int
    label: str
    kind: str
    dispatched: int
    """Logical time right after the dispatch transaction (step RUNNING/CHECKING from here)."""
    completed: int | None = None
    """Logical time at which the builder retired the job."""


@dataclass
class BuildResult:
    status: str
    """"done": the phase ended; "crashed": crash injection fired; "hang": a watchdog tripped;
    "error": the director raised (the real process would exit with a traceback)."""
    returncode: ReturnCode | None
    """The real `ReturnCode` of the build phase (None unless status is "done")."""
    graph: str | None
    """`Workflow.format_str()` of the final (or crashed) database, in node id order."""
    graph_canon: str | None
    """`canon_graph(graph)`: independent of node ids."""
    runs: list[RunRecord]
    jobs: list[JobRecord]
    events: list[tuple[str, str, list]]
    """Reporter events `(tag, description, pages)` in order."""
    ncommit: int
    """Committed transactions of the director's database session during this call."""
    files: dict[str, bytes]
    """Files on disk afterwards (`.stepup/` excluded)."""
    file_meta: dict[str, tuple[int, int]]
    """path -> (mtime_ns, inode)."""
    trace: list[tuple]
    """The released gate keys in order (feed to `ListSchedule` to replay)."""
    error: str | None = None
    """Traceback text for status "error", description for "hang"/"crashed"."""
    log: list[str] = field(default_factory=list)
    """WARNING+ log records of `stepup.*` and asyncio loop errors (nothing is printed)."""
    clock: int = 0
    watching: bool = False
    """True when the director is still alive in its watch phase."""
    watched_dirs: list[str] = field(default_factory=list)
    post_crash_commits: int = 0

    @property
    def commands(self) -> list[str]:
        """Labels of the executed commands in start order."""
        return [r.label for r in self.runs]

    @property
    def ok(self) -> bool:
        return self.status == "done" and self.returncode == ReturnCode(0)

    def reads_of(self, label: str) -> list[list[tuple[str, str | None]]]:
        return [r.reads for r in self.runs if r.label == label]

    def tags(self, *tags: str) -> list[tuple[str, str]]:
        return [(t, d) for t, d, _ in self.events if not tags or t in tags]


def canon_graph(text: str | None) -> str | None:
    """Canonical form of `Workflow.format_str()`: blocks sorted by node key, lines inside a
    block sorted (continuation lines of multi-valued properties get their name back)."""
    if text is None:
        return None
    blocks = []
    for block in text.split("\n\n"):
        lines = [line for line in block.split("\n") if line.strip() != ""]
        if not lines:
            continue
        head, rest = lines[0], lines[1:]
        fixed = []
        last = ""
        for line in rest:
            name = line[:20].strip()
            if line[20:23] == " = ":
                if name == "":
                    name = last
                else:
                    last = name
                fixed.append(f"{name:>20s} = {line[23:]}")
            else:
                fixed.append(line)
        blocks.append("\n".join([head, *sorted(fixed)]))
    return "\n\n".join(sorted(blocks)) + "\n"


# ---------------------------------------------------------------------------------------------
# Recording reporter, fake RPC server, fake inotify
# ---------------------------------------------------------------------------------------------


class RecordingReporter(ReporterClient):
    """A `ReporterClient` that records events and never prints or schedules timers."""

    def __init__(self, events: list):
        super().__init__()
        self.events = events
        self.job_signals: list[tuple] = []

    async def __call__(self, tag, description, pages=None):
        self.events.append((str(tag), str(description), list(pages or [])))

    async def set_njob(self, njob):
        pass

    def job_started(self, job_i, letter, description):
        self.job_signals.append(("start", job_i, letter, description))

    def job_stopped(self, job_i):
        self.job_signals.append(("stop", job_i))

    async def update_progress(self, ndone, ntotal):
        pass

    async def warn_about_logs(self):
        pass

    async def stop_reporting(self):
        pass

    async def close(self):
        pass


class _FakeRPCServer:
    """Stands in for `SocketRPCServer`: script actions call the handler coroutines directly."""

    def __init__(self, handler, path):
        self.handler = handler

    async def serve(self, exit_event: asyncio.Event):
        await exit_event.wait()


class _FakeWatch:
    def __init__(self, path: str):
        self.path = path  # as registered (what events are reported with)
        self.cur = path  # where the directory is now (inotify follows the inode)
        self.alive = True


class _FakeEvent:
    def __init__(self, path: str, mask):
        self.path = Path(path)
        self.mask = mask


class FakeInotify:
    """Stands in for `asyncinotify.Inotify`; the real `AsyncInotifyWrapper` runs on top of it.

    Raw events are computed from harness edits with the sequences measured on this kernel
    (see notes/simdirector.md): create = CREATE, MODIFY, CLOSE_WRITE; rewrite = MODIFY,
    CLOSE_WRITE; unlink = DELETE; mkdir = CREATE|ISDIR; rmdir of a watched directory =
    DELETE_SELF (without ISDIR), IGNORED, then DELETE|ISDIR from the parent's watch; rename =
    MOVED_FROM, MOVED_TO (|ISDIR), then MOVE_SELF on a watched directory, whose watch keeps
    reporting under the path it was registered with.
    """

    def __init__(self):
        self.queue: asyncio.Queue = asyncio.Queue()
        self.watches: list[_FakeWatch] = []
        self.closed = False

    # -- the part of the asyncinotify API that stepup uses

    def add_watch(self, path, mask):
        path = _norm(str(path))
        if not os.path.isdir(path):
            raise FileNotFoundError(path)
        for watch in self.watches:
            if watch.alive and watch.cur == path:
                watch.path = path
                return watch
        watch = _FakeWatch(path)
        self.watches.append(watch)
        return watch

    def rm_watch(self, watch):
        if watch.alive:
            watch.alive = False
            self._emit(watch.path, Mask.IGNORED)

    async def get(self):
        return await self.queue.get()

    def close(self):
        self.closed = True

    # -- event generation

    def watched_dirs(self) -> list[str]:
        return sorted(w.cur for w in self.watches if w.alive)

    def _emit(self, path: str, mask):
        if not self.closed:
            self.queue.put_nowait(_FakeEvent(path, mask))

    def _watch_of(self, directory: str) -> _FakeWatch | None:
        directory = _norm(directory)
        for watch in self.watches:
            if watch.alive and watch.cur == directory:
                return watch
        return None

    def _child(self, path: str, *masks):
        """Events about entry `path` delivered through the watch on its parent directory."""
        parent, name = os.path.split(_norm(path))
        watch = self._watch_of(parent or ".")
        if watch is not None:
            reported = name if watch.path == "." else os.path.join(watch.path, name)
            for mask in masks:
                self._emit(reported, mask)

    def file_written(self, path: str, created: bool, nonempty: bool = True):
        masks = [Mask.CREATE] if created else []
        if nonempty or not created:
            masks.append(Mask.MODIFY)
        masks.append(Mask.CLOSE_WRITE)
        self._child(path, *masks)

    def file_attrib(self, path: str):
        self._child(path, Mask.ATTRIB)

    def file_removed(self, path: str):
        self._child(path, Mask.DELETE)

    def dir_created(self, path: str):
        self._child(path, Mask.CREATE | Mask.ISDIR)

    def dir_removed(self, path: str):
        watch = self._watch_of(path)
        if watch is not None:
            self._emit(watch.path, Mask.DELETE_SELF)
            watch.alive = False
            self._emit(watch.path, Mask.IGNORED)
        self._child(path, Mask.DELETE | Mask.ISDIR)

    def moved(self, src: str, dst: str, is_dir: bool):
        flag = Mask.ISDIR if is_dir else Mask(0)
        self._child(src, Mask.MOVED_FROM | flag)
        self._child(dst, Mask.MOVED_TO | flag)
        if is_dir:
            src, dst = _norm(src), _norm(dst)
            for watch in self.watches:
                if not watch.alive:
                    continue
                if watch.cur == src:
                    self._emit(watch.path, Mask.MOVE_SELF)
                    watch.cur = dst
                elif watch.cur.startswith(src + "/"):
                    watch.cur = dst + watch.cur[len(src) :]


def _norm(path: str) -> str:
    return os.path.normpath(path)


# ---------------------------------------------------------------------------------------------
# Event loop with virtual time
# ---------------------------------------------------------------------------------------------


class _SimSelector(selectors.DefaultSelector):
    """Never blocks: being asked to wait is the signal that the loop is idle."""

    session: "_Session"

    def select(self, timeout=None):
        return self.session._idle(timeout)


class SimLoop(asyncio.SelectorEventLoop):
    def __init__(self, session: "_Session"):
        selector = _SimSelector()
        selector.session = session
        super().__init__(selector)
        self.vtime = 0.0

    def time(self):
        return self.vtime


class _Clock:
    """The logical clock: strictly increasing integers; stands in for `time` in scheduler.py."""

    def __init__(self):
        self.t = 0

    def now(self) -> int:
        self.t += 1
        return self.t

    def monotonic_ns(self) -> int:
        return self.now()


class _Waiter:
    __slots__ = ("key", "fut", "seq")

    def __init__(self, key, fut, seq):
        self.key = key
        self.fut = fut
        self.seq = seq


class SimThreadWorker:
    """Stands in for `run.ThreadWorker`: the work runs inline when the schedule releases it."""

    def __init__(self, *, work, job_i):
        self.work = work
        self.job_i = job_i
        self._cancelled = False
        self._waiter: _Waiter | None = None
        import threading

        self._cancel_event = threading.Event()

    async def run_in_thread(self):
        session = _CURRENT
        key = session._work_key(self.work, self.job_i)
        if self._cancelled:
            raise HashCancelledError("cancelled")
        await session.gate(key, owner=self)
        if self._cancelled:
            raise HashCancelledError("cancelled")
        return self.work(self._cancel_event)

    def interrupt(self, sig):
        self._cancelled = True
        self._cancel_event.set()
        if self._waiter is not None and not self._waiter.fut.done():
            self._waiter.fut.set_result("interrupt")

    def suspend(self):
        pass

    def resume(self):
        pass


class SimStepWorker:
    """`Run.worker` of a simulated step: `Executor.interrupt(sig)` kills the script."""

    def __init__(self, record: RunRecord, job_i: int):
        self.record = record
        self.job_i = job_i
        self._waiter: _Waiter | None = None

    def interrupt(self, sig):
        if self.record.killed is None:
            self.record.killed = int(sig)
        if self._waiter is not None and not self._waiter.fut.done():
            self._waiter.fut.set_result("interrupt")

    def suspend(self):
        pass

    def resume(self):
        pass


class StepContext:
    """What a generator script gets as argument."""

    def __init__(self, session, run, record: RunRecord, env: dict):
        self.session = session
        self.run = run
        self.record = record
        self.env = env
        self.label = record.label
        self.job_i = record.job_i
        self.attempt = record.attempt
        self.info = None
        self.amended_out: list[str] = []
        self.written: set[str] = set()

    @property
    def reads(self):
        return self.record.reads


_CURRENT: "_Session | None" = None


async def _sim_launch_command(command, *, shell, env, cwd, mp_ctx, run):
    return await _CURRENT.run_step(command, shell, env, cwd, run)


# ---------------------------------------------------------------------------------------------
# Session: one director process (one build, or one watch-mode lifetime)
# ---------------------------------------------------------------------------------------------


class _Session:
    def __init__(self, sim: "SimDirector", opts: dict):
        self.sim = sim
        self.opts = opts
        self.clock = _Clock()
        self.loop = SimLoop(self)
        self.loop.set_exception_handler(self._loop_exception)
        self.schedule: Schedule = opts["schedule"]
        self.waiting: list[_Waiter] = []
        self.seq = 0
        self.trace: list[tuple] = []
        self.npump = 0
        self.external = sorted(opts.get("external") or [], key=lambda e: e[0])
        self.iterations = 0
        self.wall_deadline = 0.0
        self.abort: SimAbort | None = None
        self.abort_text: str | None = None
        self.handler = None
        self.db = None
        self.db_cm = None
        self.inspect: sqlite3.Connection | None = None
        self.serve_task: asyncio.Task | None = None
        self.serve_done = False
        self.ncommit = 0
        self.counting = True
        self.post_crash_commits = 0
        self.crash_after_commit = opts.get("crash_after_commit")
        self.crash_in_step = opts.get("crash_in_step")
        self.on_commit = opts.get("on_commit")
        self.snapshot: dict[str, bytes | None] | None = None
        self.runs: list[RunRecord] = []
        self.jobs: list[JobRecord] = []
        self.jobs_by_i: dict[int, JobRecord] = {}
        self.events: list = []
        self.log: list[str] = []
        self.attempts: dict[str, int] = {}
        self.work_counts: dict[tuple, int] = {}
        self.reporter = RecordingReporter(self.events)
        self.inotify: FakeInotify | None = None
        self.watchdog_handle = None
        self.closed = False
        self.watching = False
        self.job_actions: dict[int, int] = {}
        self.sql_watchdog = {"n": 0, "tripped": False}
        self.dead_tasks: list = []

    # -- idle hook of the event loop ----------------------------------------------------------

    def _idle(self, timeout):
        self.iterations += 1
        if self.abort is not None:
            raise type(self.abort)(self.abort_text)
        if self.iterations > MAX_ITERATIONS:
            self._raise_hang(f"more than {MAX_ITERATIONS} event loop iterations (livelock)")
        if (self.iterations & 0xFF) == 0 and time.perf_counter() > self.wall_deadline:
            self._raise_hang(f"wall clock limit of {WALL_TIMEOUT} s exceeded")
        if timeout is not None and timeout <= 0:
            return []
        # Nothing is runnable: the schedule decides what happens next.
        if self._pump():
            return []
        if timeout is None:
            self._raise_hang("deadlock: no runnable task, no timer, no waiting gate")
        self.loop.vtime += timeout + 1e-9
        return []

    def _raise_hang(self, text: str):
        self.abort_text = "hang: " + text + self._describe_waiters()
        self.abort = SimHang(self.abort_text)
        raise self.abort

    def _describe_waiters(self) -> str:
        tasks = []
        with contextlib.suppress(Exception):
            for task in asyncio.all_tasks(self.loop):
                if not task.done():
                    tasks.append(task.get_name())
        return f"; pending tasks: {sorted(tasks)}"

    def _watchdog_fired(self):
        self._raise_hang(f"no progress for {VIRTUAL_TIMEOUT} virtual seconds")

    def _loop_exception(self, loop, context):
        msg = context.get("message", "")
        exc = context.get("exception")
        self.log.append(f"asyncio: {msg} {exc!r}" if exc is not None else f"asyncio: {msg}")

    # -- gates --------------------------------------------------------------------------------

    async def gate(self, key: tuple, owner=None):
        if self.abort is not None:
            raise type(self.abort)(self.abort_text)
        self.seq += 1
        waiter = _Waiter(key, self.loop.create_future(), self.seq)
        self.waiting.append(waiter)
        if owner is not None:
            owner._waiter = waiter
        try:
            return await waiter.fut
        finally:
            if owner is not None:
                owner._waiter = None
            with contextlib.suppress(ValueError):
                self.waiting.remove(waiter)

    def _pump(self) -> bool:
        waiting = [w for w in self.waiting if not w.fut.done()]
        if not waiting:
            return False
        while self.external and self.external[0][0] <= self.npump:
            _, edits = self.external.pop(0)
            self.sim._apply_edits(edits, self)
        self.npump += 1
        if getattr(self.schedule, "fifo", False):
            waiting.sort(key=lambda w: w.seq)
        else:
            waiting.sort(key=lambda w: (w.key, w.seq))
        index = self.schedule.choose([w.key for w in waiting])
        waiter = waiting[index]
        self.waiting.remove(waiter)
        self.trace.append(waiter.key)
        self.clock.now()
        waiter.fut.set_result(None)
        return True

    def _work_key(self, work, job_i) -> tuple:
        func = getattr(work, "func", work)
        name = getattr(func, "__name__", "work")
        args = getattr(work, "args", ())
        if name == "refreshed" and len(args) >= 2:
            base = ("hash", str(args[1]), 0)
        else:
            run = self.handler.executor.running.get(job_i) if self.handler is not None else None
            label = run.step.label if run is not None and hasattr(run, "step") else f"job{job_i}"
            base = ("shash", label, int(job_i))
        n = self.work_counts.get(base, 0)
        self.work_counts[base] = n + 1
        return (*base, n)

    # -- crash --------------------------------------------------------------------------------

    def trigger_crash(self, text: str):
        self.snapshot = {}
        for suffix in ("", "-wal"):
            path = str(GRAPH_DB) + suffix
            try:
                with open(path, "rb") as fh:
                    self.snapshot[suffix] = fh.read()
            except FileNotFoundError:
                self.snapshot[suffix] = None
        self.abort_text = "crashed: " + text
        self.abort = SimCrash(self.abort_text)
        with contextlib.suppress(RuntimeError):
            self.dead_tasks.append(asyncio.current_task())
        raise self.abort

    # -- the replaced launch_command ----------------------------------------------------------

    def _inspect_step(self, node_i: int):
        creator, resources = None, {}
        if self.inspect is not None:
            with contextlib.suppress(sqlite3.Error):
                row = self.inspect.execute(
                    "SELECT c.kind, c.label FROM node JOIN node AS c ON node.creator = c.i "
                    "WHERE node.i = ?",
                    (node_i,),
                ).fetchone()
                if row is not None:
                    creator = f"{row[0]}:{row[1]}"
                resources = dict(
                    self.inspect.execute(
                        "SELECT name, units FROM step_resource WHERE node = ?", (node_i,)
                    ).fetchall()
                )
        return creator, resources

    async def run_step(self, command, shell, env, cwd, run) -> ChildOutcome:
        label = run.step.label
        attempt = self.attempts.get(label, 0) + 1
        self.attempts[label] = attempt
        creator, resources = self._inspect_step(run.step.i)
        record = RunRecord(
            label=label,
            command=command,
            workdir=str(cwd),
            job_i=run.job_i,
            attempt=attempt,
            creator=creator,
            resources=resources,
            start=self.clock.now(),
        )
        self.runs.append(record)
        worker = SimStepWorker(record, run.job_i)
        run.worker = worker
        ctx = StepContext(self, run, record, env)
        try:
            code = await self._interpret(ctx, worker)
        finally:
            run.worker = None
        record.returncode = code
        record.end = self.clock.now()
        self.job_actions[run.job_i] = len(record.actions)
        return ChildOutcome(code, "", record.stderr)

    async def _interpret(self, ctx: StepContext, worker: SimStepWorker) -> int:
        record = ctx.record
        script = self.sim.project.script_for(ctx.label)
        queue: list = []
        gen = None
        if callable(script):
            produced = script(ctx)
            if hasattr(produced, "send"):
                gen = produced
            else:
                queue = list(produced or [])
        else:
            queue = list(script)
        index = 0
        send = None
        code = 0
        try:
            while True:
                if queue:
                    action = queue.pop(0)
                elif gen is not None:
                    try:
                        action = gen.send(send)
                    except StopIteration:
                        break
                else:
                    break
                send = None
                await self.gate(("step", ctx.label, ctx.attempt, index), owner=worker)
                if record.killed is not None:
                    return -record.killed
                self._maybe_crash_in_step(ctx, index)
                name = action[0]
                result = await self._do_action(ctx, index, action, queue)
                record.actions.append((index, self.clock.t, name, _summary(result)))
                send = result
                index += 1
        except _StepExit as exc:
            code = exc.code
            if exc.stderr:
                record.stderr += exc.stderr + "\n"
        finally:
            if gen is not None:
                gen.close()
        await self.gate(("exit", ctx.label, ctx.attempt, index), owner=worker)
        if record.killed is not None:
            return -record.killed
        self._maybe_crash_in_step(ctx, index)
        return code

    def _maybe_crash_in_step(self, ctx: StepContext, index: int):
        spec = self.crash_in_step
        if spec is None:
            return
        label, action_index = spec[0], spec[1]
        attempt = spec[2] if len(spec) > 2 else 1
        if label == ctx.label and action_index == index and attempt == ctx.attempt:
            self.crash_in_step = None
            self.trigger_crash(f"in step {label!r} before action {index} (attempt {attempt})")

    async def _rpc(self, ctx: StepContext, index: int, name: str, *args):
        try:
            return await getattr(self.handler, name)(ctx.job_i, *args)
        except Exception as exc:  # noqa: BLE001  (the real RPC server sends any failure back)
            ctx.record.rpc_errors.append((index, name, type(exc).__name__, str(exc)))
            raise _StepExit(1, f"{type(exc).__name__}: {exc}") from exc

    async def _step_info(self, ctx: StepContext, index: int):
        if ctx.info is None:
            ctx.info = await self._rpc(ctx, index, "get_step_info")
        return ctx.info

    async def _do_action(self, ctx: StepContext, index: int, action: tuple, queue: list):
        name = action[0]
        record = ctx.record
        if name == "nop":
            return None
        if name == "exit":
            raise _StepExit(int(action[1]))
        if name == "read":
            path, required = action[1], action[2] if len(action) > 2 else True
            try:
                with open(path, "rb") as fh:
                    data = fh.read()
            except OSError:
                data = None
            digest = None if data is None else hashlib.sha256(data).hexdigest()
            record.reads.append((path, digest))
            if data is None and required:
                raise _StepExit(1, f"cannot read {path}")
            return data
        if name == "getenv":
            value = ctx.env.get(action[1])
            record.env_reads.append((action[1], value))
            return value
        if name == "write":
            path, content = action[1], action[2]
            mkdir = action[3] if len(action) > 3 else False
            if callable(content):
                content = content(ctx)
            if content is None:
                content = derive_content(ctx.label, path, record.reads, record.env_reads)
            content = _to_bytes(content)
            parent = os.path.dirname(path)
            if parent and not os.path.isdir(parent):
                if not mkdir:
                    raise _StepExit(1, f"cannot write {path}: no such directory")
                os.makedirs(parent, exist_ok=True)
            try:
                self.sim._write_file(path, content, self)
            except OSError as exc:
                raise _StepExit(1, f"cannot write {path}: {exc}") from exc
            record.writes.append((path, hashlib.sha256(content).hexdigest()))
            ctx.written.add(path)
            return None
        if name == "remove":
            self.sim._remove_file(action[1], self)
            record.removes.append(action[1])
            return None
        if name == "hold":
            return await self._rpc(ctx, index, "hold_dispatch")
        if name == "release":
            return await self._rpc(ctx, index, "release_dispatch")
        if name == "static":
            return await self._do_static(ctx, index, action[1])
        if name == "static_tree":
            path = _norm(action[1])
            if not os.path.isdir(path):
                raise _StepExit(1, f"PathError: not a directory: {action[1]}")
            return await self._rpc(ctx, index, "declare_static", [path], [], [])
        if name == "glob":
            return await self._do_glob(ctx, index, action[1], action[2])
        if name == "step":
            spec = action[1]
            return await self._rpc(
                ctx,
                index,
                "define_step",
                spec["cmd"],
                [_norm(p) for p in spec.get("inp", ())],
                list(spec.get("env", ())),
                [_norm(p) for p in spec.get("out", ())],
                [_norm(p) for p in spec.get("vol", ())],
                _norm_workdir(spec.get("workdir", ".")),
                Need[spec.get("need", "DEFAULT")].value,
                dict(spec.get("resources") or {}),
                bool(spec.get("shell", False)),
                spec.get("env_overrides"),
                spec.get("duration"),
            )
        if name == "amend":
            spec = action[1]
            out = sorted({_norm(p) for p in spec.get("out", ())})
            carry_on = await self._rpc(
                ctx,
                index,
                "amend_step",
                sorted({_norm(p) for p in spec.get("inp", ())}),
                set(spec.get("env", ())),
                out,
                sorted({_norm(p) for p in spec.get("vol", ())}),
            )
            ctx.amended_out.extend(out)
            if carry_on is False:
                raise _StepExit(1, "InputNotFoundError: Dynamic inputs are not available yet.")
            return carry_on
        if name == "read_declared":
            info = await self._step_info(ctx, index)
            extra = [A.read(str(p)) for p in info.inp] + [A.getenv(e) for e in info.env]
            queue[0:0] = extra
            return len(extra)
        if name == "write_declared":
            info = await self._step_info(ctx, index)
            paths = [str(p) for p in info.out] + [str(p) for p in info.vol]
            paths += [p for p in ctx.amended_out if p not in paths]
            extra = [A.write(p) for p in paths if p not in ctx.written]
            queue[0:0] = extra
            return len(extra)
        if name == "foreach":
            pattern, subs, templates = action[1], action[2], action[3]
            use_static = action[4] if len(action) > 4 else True
            if use_static:
                await self._do_static(ctx, index, [pattern])
                ng = NamedGlob(pattern)
                ng.glob()
            else:
                ng = await self._do_glob(ctx, index, pattern, subs, raw=True)
            extra = []
            for path, mapping in _matches(ng):
                if path.endswith("/"):
                    continue
                env = {
                    "path": path,
                    "name": os.path.basename(path),
                    "stem": os.path.splitext(os.path.basename(path))[0],
                    **mapping,
                }
                extra.extend(_substitute(t, env) for t in templates)
            queue[0:0] = extra
            return len(extra)
        raise _StepExit(2, f"unknown action {name!r}")

    async def _do_static(self, ctx, index, paths):
        trees, files, patterns = [], [], []
        for raw in paths:
            if has_any_wildcards(raw):
                if has_trailing_recursive_wildcard(raw):
                    raise _StepExit(1, f"PathError: trailing recursive wildcard: {raw}")
                ng = NamedGlob(raw)
                ng.glob()
                matches = [str(p) for p in ng.files()]
                patterns.append((_keep_slash(raw), sorted(_keep_slash(m) for m in matches)))
                for match in matches:
                    (trees if os.path.isdir(match) else files).append(_norm(match))
            else:
                if not os.path.exists(raw):
                    raise _StepExit(1, f"PathError: Path does not exist: {raw}")
                (trees if os.path.isdir(raw) else files).append(_norm(raw))
        trees = sorted(set(trees))
        files = sorted(set(files))
        if trees or files or patterns:
            await self._rpc(ctx, index, "declare_static", trees, files, patterns)
        return trees + files

    async def _do_glob(self, ctx, index, pattern, subs, raw: bool = False):
        ng = NamedGlob(pattern, subs)
        ng.glob()
        paths = [_keep_slash(str(p)) for p in ng.files()]
        await self._rpc(ctx, index, "register_glob", _keep_slash(pattern), dict(subs), paths)
        return ng if raw else list(_matches(ng))

    # -- observation wrappers -----------------------------------------------------------------

    def note_dispatch(self, job):
        rec = JobRecord(job.job_i, job.label, job.prefix, self.clock.now())
        self.jobs.append(rec)
        self.jobs_by_i[job.job_i] = rec

    def note_completed(self, job):
        rec = self.jobs_by_i.get(job.job_i)
        if rec is not None and rec.completed is None:
            rec.completed = self.clock.now()


def _keep_slash(path: str) -> str:
    normed = _norm(path)
    return normed + "/" if path.endswith("/") and not normed.endswith("/") else normed


def _norm_workdir(workdir: str) -> str:
    normed = _norm(workdir)
    return "." if normed == "." else normed + "/"


def _matches(ng: NamedGlob):
    """`(path, mapping)` pairs of a NamedGlob in sorted order."""
    pairs = []
    for match in ng.matches():
        files = match.files
        for path in files if isinstance(files, list) else [files]:
            pairs.append((str(path), dict(match.mapping)))
    pairs.sort(key=lambda pair: pair[0])
    return pairs


def _substitute(obj, env: dict):
    if isinstance(obj, str):
        return string.Template(obj).safe_substitute(env)
    if isinstance(obj, tuple):
        return tuple(_substitute(item, env) for item in obj)
    if isinstance(obj, list):
        return [_substitute(item, env) for item in obj]
    if isinstance(obj, dict):
        return {key: _substitute(value, env) for key, value in obj.items()}
    return obj


def _summary(result):
    if isinstance(result, bytes):
        return f"<{len(result)} bytes>"
    if isinstance(result, (NamedGlob,)):
        return "<nglob>"
    if isinstance(result, (str, int, bool, type(None))):
        return result
    if isinstance(result, list):
        return f"<list of {len(result)}>"
    return f"<{type(result).__name__}>"


# ---------------------------------------------------------------------------------------------
# Patches (active only while the simulation's event loop runs)
# ---------------------------------------------------------------------------------------------

_ORIG_AEXIT = sqlite3_mod.DBSession.__aexit__
_ORIG_WIRE = director_mod._wire_director
_ORIG_START_TASK = builder_mod.Builder.start_task
_ORIG_JOB_COMPLETED = scheduler_mod.Scheduler.record_job_completed
_ORIG_JOB_DURATION = job_mod.Job.duration


async def _aexit(db, exc_type, exc, tb):
    session = _CURRENT
    mine = session is not None and db is session.db
    if mine and session.abort is not None:
        # A commit attempted after the crash: the killed process would never have made it.
        session.post_crash_commits += exc is None
        await _ORIG_AEXIT(db, SimAbort, session.abort, None)
        raise type(session.abort)(session.abort_text)
    await _ORIG_AEXIT(db, exc_type, exc, tb)
    if mine and exc is None and session.counting:
        session.ncommit += 1
        if session.on_commit is not None:
            session.on_commit(session.sim, session.ncommit)
        if session.crash_after_commit == session.ncommit:
            session.trigger_crash(f"after commit {session.ncommit}")


async def _wire(**kwargs):
    handler = await _ORIG_WIRE(**kwargs)
    session = _CURRENT
    if session is not None:
        session.handler = handler
        state = session.sql_watchdog

        def progress():
            state["n"] += 1
            if state["n"] * 100_000 > SQL_VM_STEPS:
                state["tripped"] = True
                return 1
            return 0

        kwargs["db"]._con.set_progress_handler(progress, 100_000)
    return handler


def _start_task(builder, job):
    if _CURRENT is not None:
        _CURRENT.note_dispatch(job)
    return _ORIG_START_TASK(builder, job)


def _job_completed(scheduler, job):
    if _CURRENT is not None:
        _CURRENT.note_completed(job)
    return _ORIG_JOB_COMPLETED(scheduler, job)


def _job_duration(job):
    """Deterministic stand-in for the measured duration: the number of performed actions."""
    if _CURRENT is not None:
        return float(1 + _CURRENT.job_actions.get(job.job_i, 0))
    return _ORIG_JOB_DURATION(job)


class _LogCapture(logging.Handler):
    def __init__(self, sink: list):
        super().__init__(level=logging.WARNING)
        self.sink = sink

    def emit(self, record):
        with contextlib.suppress(Exception):
            self.sink.append(f"{record.levelname} {record.name}: {record.getMessage()}")


@contextlib.contextmanager
def _activated(session: _Session):
    """chdir + environment + patches + log capture for the duration of one loop run."""
    global _CURRENT
    if _CURRENT is not None:
        raise RuntimeError("simdirector is not reentrant")
    sim = session.sim
    saved_attrs = []

    def patch(obj, name, value):
        saved_attrs.append((obj, name, getattr(obj, name)))
        setattr(obj, name, value)

    old_cwd = os.getcwd()
    env = dict(sim.env)
    env.update(session.opts.get("env") or {})
    env["STEPUP_DEBUG"] = "1" if session.opts.get("strict") else None
    for name in ("STEPUP_ROOT", "STEPUP_DIRECTOR_SOCKET"):
        env.setdefault(name, None)
    saved_env = {name: os.environ.get(name) for name in env}
    stepup_logger = logging.getLogger("stepup")
    asyncio_logger = logging.getLogger("asyncio")
    capture = _LogCapture(session.log)
    saved_propagate = (stepup_logger.propagate, asyncio_logger.propagate)
    try:
        os.chdir(sim.root)
        for name, value in env.items():
            if value is None:
                os.environ.pop(name, None)
            else:
                os.environ[name] = str(value)
        stepup_logger.addHandler(capture)
        asyncio_logger.addHandler(capture)
        stepup_logger.propagate = False
        asyncio_logger.propagate = False
        patch(executor_mod, "launch_command", _sim_launch_command)
        patch(executor_mod, "ThreadWorker", SimThreadWorker)
        patch(scheduler_mod, "time", session.clock)
        patch(director_mod, "SocketRPCServer", _FakeRPCServer)
        patch(director_mod, "_wire_director", _wire)
        patch(watcher_mod, "Inotify", session._make_inotify)
        patch(sqlite3_mod.DBSession, "__aexit__", _aexit)
        patch(builder_mod.Builder, "start_task", _start_task)
        patch(scheduler_mod.Scheduler, "record_job_completed", _job_completed)
        patch(job_mod.Job, "duration", _job_duration)
        _CURRENT = session
        yield
    finally:
        _CURRENT = None
        for obj, name, value in reversed(saved_attrs):
            setattr(obj, name, value)
        stepup_logger.removeHandler(capture)
        asyncio_logger.removeHandler(capture)
        stepup_logger.propagate, asyncio_logger.propagate = saved_propagate
        for name, value in saved_env.items():
            if value is None:
                os.environ.pop(name, None)
            else:
                os.environ[name] = value
        os.chdir(old_cwd)


def _make_inotify(session: _Session):
    session.inotify = FakeInotify()
    return session.inotify


_Session._make_inotify = _make_inotify


# ---------------------------------------------------------------------------------------------
# SimDirector
# ---------------------------------------------------------------------------------------------

_LIVE: set = set()


@atexit.register
def _cleanup_all():
    for sim in list(_LIVE):
        with contextlib.suppress(Exception):
            sim.close()


class SimDirector:
    """A project in a scratch directory plus the means to run (simulated) directors on it.

    Use as a context manager; `close()` removes the scratch directory.
    """

    def __init__(self, project: Project, *, seed: int = 0, keep: bool = False):
        self.project = project
        self.seed = seed
        self.keep = keep
        self.env: dict[str, str | None] = dict(project.env)
        self.root = os.path.realpath(tempfile.mkdtemp(prefix="simdirector-"))
        for forbidden in ("/repo", "/verif"):
            if self.root == forbidden or self.root.startswith(forbidden + "/"):
                raise RuntimeError(f"scratch directory {self.root} must be outside {forbidden}")
        self.file_clock = 0
        self.nbuild = 0
        self.session: _Session | None = None
        self.closed = False
        _LIVE.add(self)
        for path, content in sorted(project.initial_files().items()):
            self._write_file(path, content, None, mkdir=True)

    # -- lifetime -----------------------------------------------------------------------------

    def __enter__(self):
        return self

    def __exit__(self, *exc):
        self.close()

    def close(self):
        if self.closed:
            return
        self.closed = True
        if self.session is not None and not self.session.closed:
            with contextlib.suppress(BaseException), _activated(self.session):
                self._teardown(self.session, aborted=True)
        self.session = None
        _LIVE.discard(self)
        if not self.keep:
            shutil.rmtree(self.root, ignore_errors=True)

    # -- file system --------------------------------------------------------------------------

    def abspath(self, path: str) -> str:
        return os.path.join(self.root, path)

    def _write_file(self, path, content, session, mkdir: bool = False, mode: int | None = None):
        """Write `path` (relative to the root) with a fresh logical mtime."""
        full = self.abspath(path)
        content = _to_bytes(content)
        if mkdir:
            self._makedirs(os.path.dirname(path), session)
        created = not os.path.exists(full)
        with open(full, "wb") as fh:
            fh.write(content)
        if mode is None and created:
            mode = 0o755 if content.startswith(b"#!") else 0o644
        if mode is not None:
            os.chmod(full, mode)
        self.file_clock += 1
        stamp = (FILE_EPOCH + self.file_clock) * 1_000_000_000
        os.utime(full, ns=(stamp, stamp))
        inotify = self._inotify(session)
        if inotify is not None:
            inotify.file_written(path, created, len(content) > 0)

    def _makedirs(self, path: str, session):
        if path in ("", "."):
            return
        full = self.abspath(path)
        if os.path.isdir(full):
            return
        self._makedirs(os.path.dirname(path), session)
        os.mkdir(full)
        inotify = self._inotify(session)
        if inotify is not None:
            inotify.dir_created(path)

    def _remove_file(self, path, session):
        full = self.abspath(path)
        if os.path.lexists(full) and not os.path.isdir(full):
            os.remove(full)
            inotify = self._inotify(session)
            if inotify is not None:
                inotify.file_removed(path)

    def _rmtree(self, path, session):
        full = self.abspath(path)
        if not os.path.isdir(full):
            return
        for name in sorted(os.listdir(full)):
            sub = os.path.join(path, name)
            if os.path.isdir(self.abspath(sub)) and not os.path.islink(self.abspath(sub)):
                self._rmtree(sub, session)
            else:
                self._remove_file(sub, session)
        os.rmdir(full)
        inotify = self._inotify(session)
        if inotify is not None:
            inotify.dir_removed(path)

    def _move(self, src, dst, session):
        is_dir = os.path.isdir(self.abspath(src))
        self._makedirs(os.path.dirname(dst), session)
        os.replace(self.abspath(src), self.abspath(dst))
        inotify = self._inotify(session)
        if inotify is not None:
            inotify.moved(src, dst, is_dir)

    def _inotify(self, session) -> FakeInotify | None:
        session = session or self.session
        if session is None or session.inotify is None or session.inotify.closed:
            return None
        return session.inotify

    def _apply_edits(self, edits, session=None):
        """Apply edits to the scratch tree; in a live watch session the corresponding inotify
        events are queued for the real `AsyncInotifyWrapper`."""
        if isinstance(edits, dict):
            edits = [("remove", p) if c is None else ("write", p, c) for p, c in edits.items()]
        for edit in edits:
            kind = edit[0]
            if kind == "write":
                self._write_file(edit[1], edit[2], session, mkdir=True)
            elif kind == "remove":
                self._remove_file(edit[1], session)
            elif kind == "rmtree":
                self._rmtree(edit[1], session)
            elif kind == "mkdir":
                self._makedirs(edit[1], session)
            elif kind == "move":
                self._move(edit[1], edit[2], session)
            elif kind == "touch":
                full = self.abspath(edit[1])
                self.file_clock += 1
                stamp = (FILE_EPOCH + self.file_clock) * 1_000_000_000
                os.utime(full, ns=(stamp, stamp))
                inotify = self._inotify(session)
                if inotify is not None:
                    inotify.file_attrib(edit[1])
            elif kind == "setenv":
                self.setenv(edit[1], edit[2])
            elif kind == "script":
                self.set_script(edit[1], edit[2], edit[3] if len(edit) > 3 else None)
            else:
                raise ValueError(f"unknown edit {edit!r}")

    def apply(self, edits):
        """Public form of the edit operations: a dict `path -> content | None (delete)` or a
        list of `("write", path, content)`, `("remove", path)`, `("rmtree", dir)`,
        `("mkdir", dir)`, `("move", src, dst)`, `("touch", path)`, `("setenv", name, value)`,
        `("script", label, script[, file])`."""
        self._apply_edits(edits)

    def write(self, path: str, content):
        self._apply_edits([("write", path, content)])

    def remove(self, path: str):
        self._apply_edits([("remove", path)])

    def setenv(self, name: str, value: str | None):
        """Set (or unset with None) an environment variable for the following directors.
        A running watch-mode director keeps the environment it started with, like a process."""
        self.env[name] = value

    def set_script(self, label: str, script, file: str | None = None):
        """Replace the script of `label`; when it has a file (`plan.py` for the boot step, or
        `file`), rewrite that file with the new fingerprint so the plan step sees a change.
        `file=""`: do not touch any file (the caller edits the file itself)."""
        self.project.scripts[label] = script
        if file is None and label == "./plan.py":
            file = "plan.py"
        if file:
            self._write_file(file, plan_file(script), None, mkdir=True)

    def files(self) -> dict[str, bytes]:
        return self._scan()[0]

    def _scan(self):
        files, meta = {}, {}
        for dirpath, dirnames, filenames in os.walk(self.root):
            rel = os.path.relpath(dirpath, self.root)
            if rel == ".":
                rel = ""
                if ".stepup" in dirnames:
                    dirnames.remove(".stepup")
            dirnames.sort()
            for name in sorted(filenames):
                path = os.path.join(rel, name) if rel else name
                full = os.path.join(dirpath, name)
                try:
                    st = os.lstat(full)
                    if stat.S_ISREG(st.st_mode):
                        with open(full, "rb") as fh:
                            files[path] = fh.read()
                        meta[path] = (st.st_mtime_ns, st.st_ino)
                except OSError:
                    continue
        return files, meta

    def dirs(self) -> list[str]:
        result = []
        for dirpath, dirnames, _ in os.walk(self.root):
            rel = os.path.relpath(dirpath, self.root)
            if rel == "." and ".stepup" in dirnames:
                dirnames.remove(".stepup")
            if rel != ".":
                result.append(rel)
        return sorted(result)

    # -- database inspection -------------------------------------------------------------------

    def query(self, sql: str, args=()):
        """Run a read-only query on the committed state of `.stepup/graph.db` (a separate
        connection; usable from an `on_commit` hook and between builds)."""
        session = self.session if self.session is not None else _CURRENT
        if session is not None and session.inspect is not None:
            return session.inspect.execute(sql, args).fetchall()
        path = os.path.join(self.root, str(GRAPH_DB))
        if not os.path.exists(path):
            return []
        with contextlib.closing(self._copy_connect()) as con:
            return con.execute(sql, args).fetchall()

    def _copy_connect(self) -> sqlite3.Connection:
        """A connection to a private copy of the database (the on-disk bytes stay untouched)."""
        tmp = tempfile.mkdtemp(prefix="simdirector-db-")
        try:
            for suffix in ("", "-wal"):
                src = os.path.join(self.root, str(GRAPH_DB) + suffix)
                if os.path.exists(src):
                    shutil.copyfile(src, os.path.join(tmp, "graph.db" + suffix))
            disk = sqlite3.connect(os.path.join(tmp, "graph.db"))
            memory = sqlite3.connect(":memory:")
            disk.backup(memory)
            disk.close()
            return memory
        finally:
            shutil.rmtree(tmp, ignore_errors=True)

    def dump_graph(self) -> str | None:
        """`Workflow.format_str()` of the database on disk, computed on a private copy."""
        path = os.path.join(self.root, str(GRAPH_DB))
        if not os.path.exists(path):
            return None
        tmp = tempfile.mkdtemp(prefix="simdirector-db-")
        try:
            for suffix in ("", "-wal"):
                src = path + suffix
                if os.path.exists(src):
                    shutil.copyfile(src, os.path.join(tmp, "graph.db" + suffix))
            return asyncio.run(_format_db(os.path.join(tmp, "graph.db")))
        finally:
            shutil.rmtree(tmp, ignore_errors=True)

    # -- running directors ---------------------------------------------------------------------

    def build(
        self,
        *,
        njob: int = 1,
        resources: str | None = None,
        targets=(),
        keep_going: bool = False,
        clean: bool = True,
        watch: bool = False,
        schedule: Schedule | None = None,
        seed: int | None = None,
        crash_after_commit: int | None = None,
        crash_in_step: tuple | None = None,
        strict: bool = False,
        explain_rerun: bool = False,
        defer_cap: int = 100,
        use_duration: bool = False,
        env: dict | None = None,
        external=(),
        on_commit: Callable | None = None,
    ) -> BuildResult:
        """Start a (simulated) director process on the scratch tree and run one build phase.

        This is `stepup build` (or `stepup build --watch` when `watch=True`): the real
        `serve()` with `initialize_boot`/`resume_from_db`, `reconcile_targets`, the build loop
        and `Builder.finalize`. A director left in its watch phase by an earlier call is shut
        down first. The database file persists, so a second `build()` is a restart.

        Parameters
        ----------
        njob, resources, keep_going, clean, explain_rerun, defer_cap, use_duration
            As the command-line options (`resources` e.g. `"cpu:2,gpu:1"`).
        targets
            Root-relative targets; a trailing slash makes a directory target, as in the CLI.
        watch
            Keep the director alive in its watch phase; continue with `watch_rebuild`,
            finish with `shutdown` (or any other `build`).
        schedule, seed
            The interleaving: an explicit `Schedule`, else `RandomSchedule(seed)`; the default
            seed is derived from the SimDirector seed and the build number.
        crash_after_commit
            Kill the director right after its k-th committed transaction (1-based).
        crash_in_step
            `(label, action_index[, attempt])`: kill the director (and the steps) when that step
            has performed `action_index` actions.
        strict
            `STEPUP_DEBUG=1`: consistency problems found at startup raise.
        env
            Extra environment variables for this director only.
        external
            `[(k, edits), ...]`: apply `edits` to the scratch tree right before the k-th
            scheduling decision (0-based) — modifications by the user while the build runs.
        on_commit
            `fn(sim, k)` called after every committed transaction; `sim.query` works inside.
        """
        if self.session is not None:
            self.shutdown()
        self.nbuild += 1
        if schedule is None:
            if seed is None:
                seed = (self.seed * 1_000_003 + self.nbuild) & 0xFFFFFFFF
            schedule = RandomSchedule(seed)
        exact, dirs = [], []
        for target in targets:
            target = str(target)
            (dirs if target.endswith("/") else exact).append(
                Path(_norm(target)) / "" if target.endswith("/") else Path(_norm(target))
            )
        config = ServeConfig(
            njob=njob,
            do_clean=clean,
            use_duration=use_duration,
            explain_rerun=explain_rerun,
            keep_going=keep_going,
            do_watch=watch,
            available_resources=resources,
            defer_cap=defer_cap,
            targets=exact,
            target_dirs=dirs,
        )
        session = _Session(
            self,
            {
                "schedule": schedule,
                "crash_after_commit": crash_after_commit,
                "crash_in_step": crash_in_step,
                "strict": strict,
                "env": env,
                "external": list(external),
                "on_commit": on_commit,
                "config": config,
                "watch": watch,
            },
        )
        self.session = session
        return self._run(session, _phase_build(session, config))

    def watch_rebuild(self, edits=(), *, schedule: Schedule | None = None, external=()) -> BuildResult:
        """In a live watch session: apply `edits`, let the real watcher record the events,
        call the real `start_build_phase` request and run the following build phase."""
        session = self._watch_session()
        if schedule is not None:
            session.schedule = schedule
        session.external = sorted(
            [(k + session.npump, e) for k, e in external], key=lambda item: item[0]
        )
        return self._run(session, _phase_rebuild(session, edits))

    def watch_events(self, edits=()) -> BuildResult:
        """In a live watch session: apply `edits` and let the watcher record them, without
        starting a build phase (result.events then shows the UPDATED/DELETED reports)."""
        session = self._watch_session()
        return self._run(session, _phase_settle(session, edits))

    def shutdown(self) -> BuildResult | None:
        """End a live watch session through the real `shutdown` request."""
        session = self.session
        if session is None:
            return None
        if session.closed:
            self.session = None
            return None
        return self._run(session, _phase_shutdown(session), final=True)

    def _watch_session(self) -> _Session:
        session = self.session
        if session is None or not session.watching:
            raise RuntimeError("no director is watching; call build(watch=True) first")
        return session

    def _run(self, session: _Session, coro, final: bool = False) -> BuildResult:
        # Per-call observation windows.
        session.runs, session.jobs, session.trace = [], [], []
        session.events.clear()
        session.log = []
        session.ncommit = 0
        session.iterations = 0
        session.sql_watchdog["n"] = 0
        session.wall_deadline = time.perf_counter() + WALL_TIMEOUT
        outcome = {"status": "done", "returncode": None, "graph": None, "error": None}
        loop = session.loop
        aborted = False
        try:
            with _activated(session):
                session.watchdog_handle = loop.call_later(VIRTUAL_TIMEOUT, session._watchdog_fired)
                try:
                    outcome.update(loop.run_until_complete(coro) or {})
                except SimAbort:
                    aborted = True
                    outcome["status"] = "crashed" if isinstance(session.abort, SimCrash) else "hang"
                    outcome["error"] = session.abort_text
                finally:
                    with contextlib.suppress(Exception):
                        coro.close()
                    if session.watchdog_handle is not None:
                        session.watchdog_handle.cancel()
                        session.watchdog_handle = None
                if aborted or final or session.serve_done or not session.watching:
                    self._teardown(session, aborted)
        except BaseException:
            with contextlib.suppress(BaseException):
                self._teardown(session, True)
            raise
        if session.closed:
            self.session = None
            if outcome["graph"] is None:
                outcome["graph"] = self.dump_graph()
        files, meta = self._scan()
        return BuildResult(
            status=outcome["status"],
            returncode=outcome["returncode"] if outcome["status"] == "done" else None,
            graph=outcome["graph"],
            graph_canon=canon_graph(outcome["graph"]),
            runs=session.runs,
            jobs=session.jobs,
            events=list(session.events),
            ncommit=session.ncommit,
            files=files,
            file_meta=meta,
            trace=session.trace,
            error=outcome["error"],
            log=session.log,
            clock=session.clock.t,
            watching=session.watching and not session.closed,
            watched_dirs=[] if session.inotify is None else session.inotify.watched_dirs(),
            post_crash_commits=session.post_crash_commits,
        )

    def _teardown(self, session: _Session, aborted: bool):
        """Close the database and the loop. After an abort: drop every pending task without
        running it (the process is dead), then put back the database bytes of the crash."""
        if session.closed:
            return
        session.closed = True
        session.watching = False
        loop = session.loop
        kill_tasks = aborted
        if not aborted:
            # Let cancelled helper tasks (wait_for_any_event & co) finish.
            with contextlib.suppress(BaseException):
                loop.run_until_complete(_drain())
            kill_tasks = any(not task.done() for task in asyncio.all_tasks(loop))
        if kill_tasks:
            global _CURRENT
            previous = _CURRENT
            _CURRENT = session  # closing coroutines may run `finally` blocks of the real code
            nlog = len(session.log)
            try:
                for task in session.dead_tasks:
                    if task is not None and task.done() and not task.cancelled():
                        with contextlib.suppress(BaseException):
                            task.exception()
                for task in list(asyncio.all_tasks(loop)):
                    task._log_destroy_pending = False
                    if task.done():
                        with contextlib.suppress(BaseException):
                            task.exception()
                        continue
                    with contextlib.suppress(BaseException):
                        task.get_coro().close()
            finally:
                _CURRENT = previous
                # What the dying coroutines logged is an artefact of the teardown.
                del session.log[nlog:]
        if session.inspect is not None:
            with contextlib.suppress(Exception):
                session.inspect.close()
            session.inspect = None
        if session.db_cm is not None:
            db = session.db
            if kill_tasks:
                # The process is dead: whoever held the connection no longer does.
                db._held = None
            with contextlib.suppress(Exception):
                session.db_cm.__exit__(None, None, None)
            session.db_cm = None
        if aborted and session.snapshot is not None:
            base = os.path.join(self.root, str(GRAPH_DB))
            with contextlib.suppress(FileNotFoundError):
                os.remove(base + "-shm")
            for suffix, data in session.snapshot.items():
                if data is None:
                    with contextlib.suppress(FileNotFoundError):
                        os.remove(base + suffix)
                else:
                    with open(base + suffix, "wb") as fh:
                        fh.write(data)
        with contextlib.suppress(Exception):
            if kill_tasks:
                # Handles scheduled by the dead tasks must not run.
                loop._ready.clear()
                loop._scheduled.clear()
            loop.close()


# ---------------------------------------------------------------------------------------------
# Phases (coroutines run on the session's loop)
# ---------------------------------------------------------------------------------------------


async def _drain():
    for _ in range(4):
        await asyncio.sleep(0)


async def _format_db(path: str) -> str:
    from stepup.core.sqlite3 import DBSession
    from stepup.core.trellis import Root
    from stepup.core.workflow import Workflow

    with DBSession.open(path) as db:
        workflow = Workflow(db, dir_queue=None)
        # No `initialize()`: that would check (and possibly repair) the graph.
        async with db:
            workflow._root = workflow.find(Root, "")
            return workflow.format_str()


async def _dump_live(session: _Session) -> str | None:
    handler = session.handler
    if handler is None:
        return None
    session.counting = False
    try:
        async with handler.db:
            return handler.workflow.format_str()
    finally:
        session.counting = True


async def _serve(session: _Session, config: ServeConfig):
    try:
        return await director_mod.serve(
            config,
            director_socket_path=Path(STEPUP_DIR) / "sockets" / "director",
            reporter=session.reporter,
            db=session.db,
            handle_signals=False,
        )
    finally:
        session.serve_done = True


async def _wait_phase_end(session: _Session):
    """Until the build phase is over: serve() returned, or the watcher reports busy_watching."""
    task = session.serve_task
    while session.handler is None and not task.done():
        await asyncio.sleep(0)
    handler = session.handler
    if handler is None or handler.watcher is None:
        await asyncio.wait([task])
        return
    waiter = asyncio.ensure_future(handler._wait_for_end_build_phase())
    try:
        await asyncio.wait([task, waiter], return_when=asyncio.FIRST_COMPLETED)
    finally:
        waiter.cancel()


async def _collect(session: _Session) -> dict:
    task = session.serve_task
    out: dict = {}
    if task.done():
        session.watching = False
        exc = task.exception()
        if exc is not None:
            out["status"] = "error"
            out["error"] = "".join(traceback.format_exception(type(exc), exc, exc.__traceback__))
        else:
            out["returncode"] = task.result().returncode
    else:
        session.watching = True
        out["returncode"] = session.handler.builder.returncode
    if session.sql_watchdog["tripped"]:
        out["status"] = "hang"
        out["error"] = "hang: an SQL statement exceeded the VM step budget\n" + (out.get("error") or "")
    with contextlib.suppress(Exception):
        out["graph"] = await _dump_live(session)
    return out


async def _phase_build(session: _Session, config: ServeConfig) -> dict:
    from stepup.core.sqlite3 import DBSession

    Path(STEPUP_DIR).makedirs_p()
    session.db_cm = DBSession.open(GRAPH_DB)
    session.db = session.db_cm.__enter__()
    session.inspect = sqlite3.connect(f"file:{GRAPH_DB}?mode=ro", uri=True)
    session.serve_task = asyncio.ensure_future(_serve(session, config))
    await _wait_phase_end(session)
    return await _collect(session)


async def _phase_settle(session: _Session, edits) -> dict:
    session.sim._apply_edits(edits, session)
    # Virtual time only advances when nothing else can run: afterwards the watcher has
    # consumed every queued event.
    await asyncio.sleep(0.01)
    return await _collect(session)


async def _phase_rebuild(session: _Session, edits) -> dict:
    session.sim._apply_edits(edits, session)
    await asyncio.sleep(0.01)
    handler = session.handler
    await handler.start_build_phase()
    await _wait_phase_end(session)
    return await _collect(session)


async def _phase_shutdown(session: _Session) -> dict:
    handler = session.handler
    if handler is not None and not session.serve_task.done():
        await handler.shutdown()
        await asyncio.wait([session.serve_task])
    return await _collect(session)
