"""Shared machinery of the cleanup properties C06 and C07 (whole simulated builds).

* a small project model aimed at cleanup (outputs in nested directories, volatile outputs,
  working directories, optional steps, amended outputs, a sub-plan, failing steps, outputs
  adopted as static files) with the plan edits and the user edits the two properties quantify over;
* `Probe`: observation of the cleanup pass of the real `Builder.finalize` (the queue
  `Workflow.to_be_deleted`, the database before `revert_optional_steps` and after
  `delete_detached`, the scratch tree right before and right after `remove_deletable_files`);
* `Truth`: what the harness itself knows, independently of the database: which paths are sources of
  the current project, which paths any step ever declared as output (and in which role last), the
  bytes every step run wrote last;
* the real `stepup clean` run in-process on the scratch tree; encodings of database rows and
  trees for the model driver (`Drv/C06.lean`, `Drv/C07.lean`).
"""

from __future__ import annotations

import argparse
import contextlib
import copy
import hashlib
import io
import os
import random
import sqlite3
from dataclasses import dataclass, field

import implkit  # noqa: F401  (puts /repo first on sys.path)
import stepup.core.builder as builder_mod
from common import hexs
from path import Path
from simdirector import A, Project, SimDirector, plan_file
from stepup.core.enums import FileState, Need, ReturnCode, StepState
from stepup.core.hash import FileHash

# Scratch trees on a memory file system when there is one: directory operations on the disk of
# this sandbox cost milliseconds each, and a history makes hundreds of them.
if os.environ.get("TMPDIR") is None and os.path.isdir("/dev/shm") and os.access("/dev/shm", os.W_OK):
    import tempfile

    tempfile.tempdir = "/dev/shm"

MAIN, SUB = "main", "sub"
SUB_CMD, SUB_FILE = "./sub_plan.py", "sub_plan.py"
OUT_DIRS = ("out", "out/deep/a", "out/deep/b", "gen", "gen/x")
VBO = (FileState.VOLATILE.value, FileState.BUILT.value, FileState.OUTDATED.value)


def sha(data: bytes) -> str:
    return hashlib.sha256(data).hexdigest()


# ---------------------------------------------------------------------------------------------
# Project model
# ---------------------------------------------------------------------------------------------


@dataclass
class CStep:
    name: str
    inp: list[str] = field(default_factory=list)
    out: list[str] = field(default_factory=list)
    vol: list[str] = field(default_factory=list)
    workdir: str = "."
    optional: bool = False
    amend_out: list[str] = field(default_factory=list)
    fail: bool = False
    plan: str = MAIN

    def script(self):
        if not (self.amend_out or self.fail):
            return None
        actions = [A.read_declared()]
        if self.amend_out:
            actions.append(A.amend(out=self.amend_out))
        actions.append(A.write_declared())
        if self.fail:
            actions.append(A.exit(1))
        return actions

    @property
    def cmd(self) -> str:
        script = self.script()
        if script is None:
            return f"run {self.name}"
        return f"run {self.name} -s {hashlib.sha256(repr(script).encode()).hexdigest()[:6]}"

    @property
    def label(self) -> str:
        return self.cmd if self.workdir == "." else f"{self.cmd}  # wd={self.workdir}/"

    def action(self):
        return A.step(self.cmd, inp=self.inp, out=self.out, vol=self.vol, workdir=self.workdir,
                      optional=self.optional)

    def outputs(self) -> dict[str, str]:
        """path -> role ("out" | "vol") of everything this step declares (amended included)."""
        roles = {p: "out" for p in self.out + self.amend_out}
        roles.update({p: "vol" for p in self.vol})
        return roles


@dataclass
class CModel:
    static: dict[str, str] = field(default_factory=dict)
    adopted: list[str] = field(default_factory=list)
    """Former outputs that the plan now declares with `static()` (content: what is on disk)."""
    steps: list[CStep] = field(default_factory=list)
    dropped: list[CStep] = field(default_factory=list)
    has_sub: bool = False
    counter: int = 0
    note: int = 0
    loose: dict[str, str] = field(default_factory=dict)
    """Files of the user that the plan does not (or no longer) mention."""

    def outputs(self) -> dict[str, str]:
        roles: dict[str, str] = {}
        for step in self.steps:
            roles.update(step.outputs())
        return roles

    def producers(self) -> dict[str, CStep]:
        return {p: s for s in self.steps for p in s.outputs()}

    def needed_steps(self) -> list[CStep]:
        """Steps a build without targets executes: non-optional ones and, transitively, the
        optional producers of their inputs."""
        prod = self.producers()
        needed = {s.name for s in self.steps if not s.optional}
        changed = True
        while changed:
            changed = False
            for s in self.steps:
                if s.name in needed:
                    for p in s.inp:
                        q = prod.get(p)
                        if q is not None and q.name not in needed:
                            needed.add(q.name)
                            changed = True
        return [s for s in self.steps if s.name in needed]

    def sources(self) -> set[str]:
        files = set(self.static) | set(self.adopted) | {"plan.py"}
        if self.has_sub:
            files.add(SUB_FILE)
        return files


def render(model: CModel) -> Project:
    scripts: dict[str, list] = {}
    main: list = []
    declared = sorted(set(model.static) | set(model.adopted))
    if declared:
        main.append(A.static(*declared))
    for step in model.steps:
        if step.plan == MAIN:
            main.append(step.action())
    if model.has_sub:
        main.append(A.static(SUB_FILE))
        main.append(A.step(SUB_CMD, inp=[SUB_FILE], plan=True))
        scripts[SUB_CMD] = [s.action() for s in model.steps if s.plan == SUB]
    scripts["./plan.py"] = main
    for step in model.steps:
        script = step.script()
        if script is not None:
            scripts[step.label] = script
    files: dict[str, str | bytes] = {**model.loose, **model.static}
    files["plan.py"] = plan_file(main, note=f"note {model.note}")
    if model.has_sub:
        files[SUB_FILE] = plan_file(scripts[SUB_CMD])
    return Project(scripts=scripts, files=files)


def edits_between(old: Project, new: Project) -> list[tuple]:
    edits: list[tuple] = []
    for label in sorted(set(old.scripts) | set(new.scripts)):
        if label in new.scripts and old.scripts.get(label) != new.scripts[label]:
            edits.append(("script", label, new.scripts[label], ""))
    for path in sorted(set(old.files) | set(new.files)):
        if path not in new.files:
            edits.append(("remove", path))
        elif old.files.get(path) != new.files[path]:
            edits.append(("write", path, new.files[path]))
    return edits


def _fresh(model: CModel) -> str:
    model.counter += 1
    return f"s{model.counter}"


def _new_output(rng: random.Random, model: CModel, name: str, ext: str = "txt") -> str:
    model.counter += 1
    return f"{rng.choice(OUT_DIRS)}/{name}_{model.counter}.{ext}"


def gen_model(rng: random.Random, nstep: int | None = None, fail_prob: float = 0.0) -> CModel:
    model = CModel()
    for i in range(rng.randint(1, 3)):
        model.static[f"src/s{i}.txt"] = f"static {i} v0\n"
    total = nstep if nstep is not None else rng.randint(2, 6)
    model.has_sub = total >= 3 and rng.random() < 0.4
    for _ in range(total):
        add_step(rng, model, fail_prob)
    if model.has_sub and not any(s.plan == SUB for s in model.steps):
        model.steps[-1].plan = SUB
    return model


def add_step(rng: random.Random, model: CModel, fail_prob: float = 0.0) -> CStep:
    name = _fresh(model)
    step = CStep(name=name)
    pool = sorted(model.static) + [p for p, r in model.outputs().items() if r == "out"]
    step.inp = sorted(rng.sample(pool, min(len(pool), rng.randint(1, 2))))
    step.out = [_new_output(rng, model, name)]
    if rng.random() < 0.2:
        step.out.append(_new_output(rng, model, name, "aux"))
    if rng.random() < 0.3:
        step.vol = [_new_output(rng, model, name, "log")]
    if rng.random() < 0.25:
        step.workdir = f"wd/{name}"
    if rng.random() < 0.3:
        step.optional = True
    if rng.random() < 0.2:
        step.amend_out = [_new_output(rng, model, name, "extra")]
    if rng.random() < fail_prob:
        step.fail = True
    if model.has_sub and rng.random() < 0.4:
        step.plan = SUB
    model.steps.append(step)
    return step


PLAN_MUTATIONS = (
    "drop_step", "drop_step", "readd_step", "rename_output", "move_output", "out_to_vol", "vol_to_out",
    "change_workdir", "flip_optional", "drop_consumer", "move_step", "add_step", "change_source",
    "adopt_static", "noop_rewrite", "drop_amend", "undeclare_static",
)


def _consumers(model: CModel, path: str) -> list[CStep]:
    return [s for s in model.steps if path in s.inp]


def mutate(rng: random.Random, model: CModel, kind: str | None = None,
           on_disk: set[str] | None = None) -> tuple[CModel, str]:
    """One plan edit; `"none"` when the chosen kind does not apply.  `on_disk`: the files that
    exist (a path can only be adopted with `static()` when it is there)."""
    new = copy.deepcopy(model)
    kind = kind or rng.choice(PLAN_MUTATIONS)
    if kind == "drop_step":
        droppable = [s for s in new.steps if not any(_consumers(new, o) for o in s.outputs())]
        if len(new.steps) < 2 or not droppable:
            return new, "none"
        step = rng.choice(droppable)
        new.steps.remove(step)
        new.dropped.append(step)
    elif kind == "readd_step":
        taken = set(new.outputs()) | set(new.adopted)
        avail = set(new.static) | {p for p, r in new.outputs().items() if r == "out"}
        cands = [s for s in new.dropped if not (set(s.outputs()) & taken) and all(p in avail for p in s.inp)
                 and (s.plan == MAIN or new.has_sub)]
        if not cands:
            return new, "none"
        step = rng.choice(cands)
        new.dropped.remove(step)
        new.steps.append(step)
    elif kind in ("rename_output", "move_output"):
        step = rng.choice(new.steps)
        old = step.out[0]
        if kind == "rename_output":
            new.counter += 1
            new_path = f"{os.path.dirname(old)}/{step.name}_r{new.counter}.txt"
        else:
            new_path = _new_output(rng, new, step.name)
        step.out[0] = new_path
        for consumer in new.steps:
            consumer.inp = sorted(new_path if p == old else p for p in consumer.inp)
    elif kind == "out_to_vol":
        cands = [s for s in new.steps if len(s.out) > 1 or (s.out and not _consumers(new, s.out[-1]))]
        cands = [s for s in cands if not _consumers(new, s.out[-1])]
        if not cands:
            return new, "none"
        step = rng.choice(cands)
        if len(step.out) < 2:
            step.out.append(_new_output(rng, new, step.name, "aux"))
        path = step.out.pop()
        step.vol.append(path)
    elif kind == "vol_to_out":
        cands = [s for s in new.steps if s.vol]
        if not cands:
            return new, "none"
        step = rng.choice(cands)
        step.out.append(step.vol.pop())
    elif kind == "change_workdir":
        step = rng.choice(new.steps)
        new.counter += 1
        step.workdir = "." if step.workdir != "." and rng.random() < 0.5 else f"wd/{step.name}_{new.counter}"
    elif kind == "flip_optional":
        step = rng.choice(new.steps)
        step.optional = not step.optional
    elif kind == "drop_consumer":
        # drop a step that consumes the output of an optional step (which is then no longer needed)
        cands = [s for s in new.steps if any(new.producers().get(p) is not None and new.producers()[p].optional
                                             for p in s.inp)
                 and not any(_consumers(new, o) for o in s.outputs())]
        if not cands:
            return new, "none"
        step = rng.choice(cands)
        new.steps.remove(step)
        new.dropped.append(step)
    elif kind == "move_step":
        if not new.has_sub:
            return new, "none"
        step = rng.choice(new.steps)
        step.plan = SUB if step.plan == MAIN else MAIN
    elif kind == "add_step":
        add_step(rng, new)
    elif kind == "change_source":
        path = rng.choice(sorted(new.static))
        new.static[path] = new.static[path].rstrip("\n") + "+\n"
    elif kind == "adopt_static":
        # the user keeps a former output as a source: the step goes, `static(path)` comes
        droppable = [s for s in new.steps if not any(_consumers(new, o) for o in s.outputs()) and not s.fail
                     and (on_disk is None or s.out[0] in on_disk)]
        if len(new.steps) < 2 or not droppable:
            return new, "none"
        step = rng.choice(droppable)
        new.steps.remove(step)
        new.adopted.append(step.out[0])
    elif kind == "undeclare_static":
        # the plan no longer mentions a source file; the file stays where it is (the user's)
        unused = [p for p in sorted(new.static) if not _consumers(new, p)]
        if len(new.static) < 2 or not unused:
            return new, "none"
        path = rng.choice(unused)
        new.loose[path] = new.static.pop(path)
    elif kind == "noop_rewrite":
        new.note += 1
    elif kind == "drop_amend":
        cands = [s for s in new.steps if s.amend_out]
        if not cands:
            return new, "none"
        rng.choice(cands).amend_out = []
    else:
        raise ValueError(kind)
    return new, kind


USER_EDITS = ("overwrite_output", "replace_by_dir", "delete_output", "touch_output", "same_content",
              "stray_file", "overwrite_volatile")


def user_edit(rng: random.Random, files: dict[str, bytes], candidates: list[str], kind: str | None = None):
    """A modification by the user of something StepUp produced: `(kind, edits)`; `candidates` are
    paths of outputs on disk."""
    kind = kind or rng.choice(USER_EDITS)
    if kind == "stray_file":
        d = rng.choice(OUT_DIRS)
        return kind, [("write", f"{d}/user_{rng.randint(0, 99)}.keep", "mine\n")]
    on_disk = [p for p in candidates if p in files]
    if not on_disk:
        return "none", []
    path = rng.choice(on_disk)
    if kind in ("overwrite_output", "overwrite_volatile"):
        return kind, [("write", path, files[path] + b"edited by the user\n")]
    if kind == "replace_by_dir":
        return kind, [("remove", path), ("write", f"{path}/inside.txt", "mine\n")]
    if kind == "delete_output":
        return kind, [("remove", path)]
    if kind == "touch_output":
        return kind, [("touch", path)]
    if kind == "same_content":
        return kind, [("remove", path), ("write", path, files[path])]
    raise ValueError(kind)


# ---------------------------------------------------------------------------------------------
# Trees of plans (nested and sibling sub-plans, dependencies across plans); after the family that
# build-B1 wrote for C01 (`buildkit.PlanTree`), with deeper nesting and cleanup-oriented edits
# ---------------------------------------------------------------------------------------------


@dataclass
class PlanTree:
    """plans: name -> {"parent", "note", "dropped"}; steps: dicts (name, plan, inp, out, vol,
    optional); sources: path -> (declaring plan, content)."""

    plans: dict
    steps: list
    sources: dict
    motif: tuple | None = None
    """(producer plan, consumer plan) of an optional producer high up whose only consumer is deep down."""

    def label(self, plan: str) -> str:
        return "./plan.py" if plan == "root" else f"./{plan}.py"

    def file(self, plan: str) -> str:
        return "plan.py" if plan == "root" else f"{plan}.py"

    def active(self, plan) -> bool:
        while plan is not None:
            if self.plans[plan]["dropped"]:
                return False
            plan = self.plans[plan]["parent"]
        return True

    def depth(self, plan) -> int:
        d = 0
        while self.plans[plan]["parent"] is not None:
            plan = self.plans[plan]["parent"]
            d += 1
        return d

    def ancestors(self, plan) -> list:
        out = []
        plan = self.plans[plan]["parent"]
        while plan is not None:
            out.append(plan)
            plan = self.plans[plan]["parent"]
        return out

    def script(self, plan: str) -> list:
        actions = []
        own = sorted(p for p, (owner, _) in self.sources.items() if owner == plan)
        children = [c for c, info in self.plans.items() if info["parent"] == plan and not info["dropped"]]
        if own or children:
            actions.append(A.static(*own, *[self.file(c) for c in children]))
        for step in self.steps:
            if step["plan"] == plan:
                actions.append(A.step(step["name"], inp=step["inp"], out=step["out"], vol=step.get("vol", []),
                                      optional=step["optional"]))
        for child in children:
            actions.append(A.step(self.label(child), inp=[self.file(child)], plan=True))
        return actions

    def render(self) -> Project:
        scripts, files = {}, {}
        for plan, info in self.plans.items():
            script = self.script(plan)
            scripts[self.label(plan)] = script
            files[self.file(plan)] = plan_file(script, note=f"note {info['note']}")
        for path, (_, content) in self.sources.items():
            files[path] = content
        return Project(scripts=scripts, files=files)

    def as_model(self) -> CModel:
        """The active part as a `CModel` (what the oracle of C07 works on): steps of plans that are
        still included; the files of dropped plans are the user's (`loose`)."""
        model = CModel()
        for path, (owner, content) in self.sources.items():
            (model.static if self.active(owner) else model.loose)[path] = content
        for plan in self.plans:
            if plan != "root":
                (model.static if self.active(plan) else model.loose)[self.file(plan)] = ""
        for step in self.steps:
            if self.active(step["plan"]):
                model.steps.append(CStep(name=step["name"], inp=list(step["inp"]), out=list(step["out"]),
                                         vol=list(step.get("vol", [])), optional=step["optional"]))
        return model


def gen_plan_tree(rng: random.Random) -> PlanTree:
    """A root plan, a chain of 1-3 nested plans below it and 0-2 sibling plans anywhere; every plan
    declares its own sources; steps anywhere consume sources and outputs of any plan; optional
    producers sit high up and are needed only through consumers further down."""
    plans = {"root": {"parent": None, "note": 0, "dropped": False}}
    chain = ["root"]
    for i in range(rng.randint(1, 3)):
        name = f"n{i}"
        plans[name] = {"parent": chain[-1], "note": 0, "dropped": False}
        chain.append(name)
    for i in range(rng.randint(0, 2)):
        plans[f"s{i}"] = {"parent": rng.choice(list(plans)), "note": 0, "dropped": False}
    sources = {}
    for plan in plans:
        for k in range(1 if plan == "root" else rng.randint(0, 2)):
            sources[f"src/{plan}_{k}.txt"] = (plan, f"{plan} source {k} v0\n")
    steps, outputs = [], []
    for i in range(rng.randint(2, 6)):
        plan = rng.choice(list(plans))
        pool = sorted(sources) + outputs
        inp = sorted(rng.sample(pool, rng.randint(1, min(2, len(pool)))))
        out = f"{rng.choice(OUT_DIRS)}/t{i}.txt"
        step = {"name": f"tool t{i}", "plan": plan, "inp": inp, "out": [out], "vol": [],
                "optional": rng.random() < 0.3}
        if rng.random() < 0.2:
            step["vol"] = [f"{rng.choice(OUT_DIRS)}/t{i}.log"]
        steps.append(step)
        outputs.append(out)
    tree = PlanTree(plans, steps, sources)
    if rng.random() < 0.7:
        consumer_plan = rng.choice(chain[1:])
        above = [p for p in chain if tree.depth(p) < tree.depth(consumer_plan)]
        producer_plan = rng.choice(above) if rng.random() < 0.5 else "root"
        steps.append({"name": "tool opt", "plan": producer_plan, "inp": [sorted(sources)[0]],
                      "out": ["out/deep/a/opt.txt"], "vol": [], "optional": True})
        steps.append({"name": "tool use_opt", "plan": consumer_plan, "inp": ["out/deep/a/opt.txt"],
                      "out": ["gen/x/use_opt.txt"], "vol": [], "optional": False})
        tree.motif = (producer_plan, consumer_plan)
    return tree


TREE_MUTATIONS = ("touch_plan", "edit_source", "drop_plan", "drop_plan", "readd_plan", "toggle_optional",
                  "drop_tree_step")


def mutate_plan_tree(rng: random.Random, tree: PlanTree, kind: str | None = None) -> tuple[PlanTree, str]:
    new = copy.deepcopy(tree)
    kind = kind or rng.choice(TREE_MUTATIONS)
    if kind == "touch_plan":
        plan = rng.choice([p for p in new.plans if new.active(p)])
        new.plans[plan]["note"] += 1
        return new, f"touch_plan:{plan}"
    if kind == "edit_source":
        path = rng.choice(sorted(new.sources))
        owner, content = new.sources[path]
        new.sources[path] = (owner, content.rstrip("\n") + "+\n")
        return new, f"edit_source:{path}"
    if kind == "drop_plan":
        candidates = [p for p in new.plans if p != "root" and new.active(p)]
        if not candidates:
            return new, "none"
        plan = rng.choice(candidates)
        if new.motif is not None and rng.random() < 0.6:
            # prefer a plan on the path between the optional producer and its deep consumer
            producer_plan, consumer_plan = new.motif
            path = [p for p in [consumer_plan, *new.ancestors(consumer_plan)]
                    if p in candidates and new.depth(p) > new.depth(producer_plan)]
            if path:
                plan = rng.choice(path)
        new.plans[plan]["dropped"] = True
        return new, f"drop_plan:{plan}"
    if kind == "readd_plan":
        candidates = [p for p, info in new.plans.items() if info["dropped"] and new.active(info["parent"])]
        if not candidates:
            return new, "none"
        plan = rng.choice(candidates)
        new.plans[plan]["dropped"] = False
        return new, f"readd_plan:{plan}"
    if kind == "drop_tree_step":
        consumed = {p for s in new.steps for p in s["inp"]}
        candidates = [s for s in new.steps if not (set(s["out"]) & consumed)]
        if len(new.steps) < 2 or not candidates:
            return new, "none"
        step = rng.choice(candidates)
        new.steps.remove(step)
        return new, f"drop_tree_step:{step['name']}"
    step = rng.choice(new.steps)
    step["optional"] = not step["optional"]
    return new, f"toggle_optional:{step['name']}"


# ---------------------------------------------------------------------------------------------
# Tree snapshots
# ---------------------------------------------------------------------------------------------


def snapshot(root: str) -> tuple[dict[str, str], list[str]]:
    """`(path -> sha256 of the bytes, directories)` of the scratch tree, `.stepup/` excluded."""
    files: dict[str, str] = {}
    dirs: list[str] = []
    for dirpath, dirnames, filenames in os.walk(root):
        rel = os.path.relpath(dirpath, root)
        if rel == ".":
            rel = ""
            if ".stepup" in dirnames:
                dirnames.remove(".stepup")
        else:
            dirs.append(rel)
        for name in filenames:
            path = os.path.join(rel, name) if rel else name
            try:
                with open(os.path.join(dirpath, name), "rb") as fh:
                    files[path] = sha(fh.read())
            except OSError:
                continue
    return files, sorted(dirs)


# ---------------------------------------------------------------------------------------------
# Database rows (through a second, read-only view of the committed state)
# ---------------------------------------------------------------------------------------------

ROWS_SQL = """
SELECT node.i, node.kind, node.label, node.creator, node.detached, file.state, file.hash,
       step.state, step._implied_need, (SELECT 1 FROM step_hash WHERE step_hash.node = node.i)
FROM node LEFT JOIN file ON file.node = node.i LEFT JOIN step ON step.node = node.i
"""


@dataclass
class DbState:
    rows: list[tuple]
    deps: list[tuple[int, int]]

    def by_id(self):
        return {r[0]: r for r in self.rows}


def read_db(query) -> DbState:
    return DbState(list(query(ROWS_SQL)), list(query("SELECT source, sink FROM dependency")))


def read_db_of(sim: SimDirector) -> DbState:
    """The committed database of a simulation: through the inspection connection of a live
    session, else through ONE private copy of the files (two queries on it)."""
    session = sim.session
    if session is not None and getattr(session, "inspect", None) is not None:
        return read_db(sim.query)
    if not os.path.exists(os.path.join(sim.root, ".stepup", "graph.db")):
        return DbState([], [])
    with contextlib.closing(sim._copy_connect()) as con:
        return read_db(lambda sql: con.execute(sql).fetchall())


class Tokens:
    """Small integers for file contents as `FileHash.__eq__` sees them (digest, mode, size)."""

    def __init__(self):
        self.table: dict[tuple, int] = {}

    def of_hash(self, fh: FileHash | None):
        if fh is None or fh.is_unknown:
            return None
        key = (bytes(fh.digest), fh.mode, fh.size)
        return self.table.setdefault(key, len(self.table) + 1)

    def of_json(self, text: str | None):
        return None if text is None else self.of_hash(FileHash.from_json(text))


def enc_key(kind: str, label: str) -> str:
    return f"{kind}.{hexs(label)}"


def encode_state(db: DbState, tokens: Tokens) -> tuple[str, str]:
    """`(nodes, deps)` tokens of `Drv/C06.lean`."""
    ids = db.by_id()
    nodes = []
    for i, kind, label, creator, det, fstate, fhash, sstate, ineed, hashed in db.rows:
        ck = "~" if creator is None or creator not in ids else enc_key(ids[creator][1], ids[creator][2])
        st = FileState(fstate).name if fstate is not None else "-"
        fh = tokens.of_json(fhash)
        nodes.append(f"{kind}:{hexs(label)}:{ck}:{int(bool(det))}:{st}:{'~' if fh is None else fh}:"
                     f"{'1' if hashed else '~'}")
    deps = [f"{enc_key(ids[a][1], ids[a][2])}>{enc_key(ids[b][1], ids[b][2])}" for a, b in db.deps
            if a in ids and b in ids]
    return ";".join(nodes) or ".", ";".join(deps) or "."


def encode_result(db: DbState, queue: dict, tokens: Tokens) -> str:
    """The answer format of `c07 dd` / `c07 cleanup` for the real database after the cleanup."""
    keys = []
    for i, kind, label, creator, det, fstate, fhash, sstate, ineed, hashed in db.rows:
        tag = ""
        if kind == "step":
            tag = "+" if hashed else "-"
        elif kind == "file":
            tag = ":" + FileState(fstate).name
        keys.append(enc_key(kind, label) + tag)
    q = [f"{hexs(str(p))}={'~' if t is None else t}" for p, t in queue.items()]
    return f"{';'.join(sorted(keys)) or '.'} {','.join(sorted(q)) or '.'}"


def encode_tree(root: str, tokens: Tokens) -> tuple[str, dict[str, int | None]]:
    """File system token of `Drv/C06.lean` (every directory and regular file, `.stepup/` left out)
    and the content token of every regular file."""
    items, contents = [], {}
    for dirpath, dirnames, filenames in os.walk(root):
        rel = os.path.relpath(dirpath, root)
        if rel == ".":
            rel = ""
            if ".stepup" in dirnames:
                dirnames.remove(".stepup")
        else:
            items.append(f"{hexs(rel)}=d")
        for name in filenames:
            path = os.path.join(rel, name) if rel else name
            tok = tokens.of_hash(FileHash.unknown().refreshed(os.path.join(dirpath, name)))
            contents[path] = tok
            items.append(f"{hexs(path)}=f{tok}")
    return ",".join(sorted(items)) or ".", contents


# ---------------------------------------------------------------------------------------------
# Observation of the cleanup pass of the real `Builder.finalize`
# ---------------------------------------------------------------------------------------------


@dataclass
class CleanupRecord:
    pre_db: DbState | None = None
    post_db: DbState | None = None
    queue: dict | None = None
    before: tuple | None = None
    after: tuple | None = None
    reverted: bool = False


class Probe:
    """While active, every cleanup pass of `Builder.finalize` in this process is recorded."""

    def __init__(self):
        self.records: list[CleanupRecord] = []
        self.sim: SimDirector | None = None
        self.tokens = Tokens()
        self._orig = None

    def __enter__(self):
        self._orig = (builder_mod.revert_optional_steps, builder_mod.remove_deletable_files)
        orig_revert, orig_remove = self._orig
        probe = self

        async def revert_optional_steps(workflow, reporter):
            rec = CleanupRecord()
            if probe.sim is not None:
                rec.pre_db = read_db_of(probe.sim)
            probe.records.append(rec)
            rec.reverted = True
            return await orig_revert(workflow, reporter)

        async def remove_deletable_files(workflow, reporter):
            rec = probe.records[-1] if probe.records and probe.records[-1].queue is None else CleanupRecord()
            if rec not in probe.records:
                probe.records.append(rec)
            rec.queue = {str(p): probe.tokens.of_hash(h) for p, h in workflow.to_be_deleted.items()}
            if probe.sim is not None:
                rec.post_db = read_db_of(probe.sim)
                rec.before = snapshot(probe.sim.root)
            try:
                return await orig_remove(workflow, reporter)
            finally:
                if probe.sim is not None:
                    rec.after = snapshot(probe.sim.root)

        builder_mod.revert_optional_steps = revert_optional_steps
        builder_mod.remove_deletable_files = remove_deletable_files
        return self

    def __exit__(self, *exc):
        builder_mod.revert_optional_steps, builder_mod.remove_deletable_files = self._orig

    def take(self) -> list[CleanupRecord]:
        records, self.records = self.records, []
        return records


# ---------------------------------------------------------------------------------------------
# The real `stepup clean`, in-process on the scratch tree
# ---------------------------------------------------------------------------------------------


def run_clean(sim: SimDirector, paths: list[str], *, all_: bool, unsafe: bool, commit: bool):
    """Run `stepup.core.clean.clean_tool` with the scratch tree as `STEPUP_ROOT` and working
    directory.  Returns `(exception or None, printed text)`."""
    from stepup.core import clean as clean_mod

    args = argparse.Namespace(paths=[Path(p) for p in paths], commit=commit, all=all_, safe=not unsafe)
    old_cwd = os.getcwd()
    old_env = {k: os.environ.get(k) for k in ("STEPUP_ROOT", "HERE")}
    out = io.StringIO()
    error = None
    try:
        os.chdir(sim.root)
        os.environ["STEPUP_ROOT"] = sim.root
        os.environ.pop("HERE", None)
        with contextlib.redirect_stdout(out):
            try:
                clean_mod.clean_tool(args)
            except Exception as exc:  # noqa: BLE001  (a crash of the tool is an observation)
                error = exc
    finally:
        os.chdir(old_cwd)
        for k, v in old_env.items():
            if v is None:
                os.environ.pop(k, None)
            else:
                os.environ[k] = v
    return error, out.getvalue()


def db_dump(sim: SimDirector) -> str:
    """Logical content of the database (to check that `stepup clean` does not change it)."""
    db = read_db_of(sim)
    return repr((sorted(db.rows, key=repr), sorted(db.deps)))


# ---------------------------------------------------------------------------------------------
# What the harness knows by itself
# ---------------------------------------------------------------------------------------------


@dataclass
class Truth:
    sources: set[str] = field(default_factory=set)
    ever_output: dict[str, str] = field(default_factory=dict)
    """path -> role at its last declaration ("out" | "vol")."""
    last_written: dict[str, str] = field(default_factory=dict)
    """path -> sha256 of what a step run wrote last."""
    written_as: dict[str, str] = field(default_factory=dict)
    """path -> role ("out" | "vol") the path had in the plan when a step wrote it last."""
    raced: dict[str, set] = field(default_factory=dict)
    """path -> contents the user gave the file WHILE a build was running, after which no step has
    rewritten it: StepUp hashes outputs after the command ended, so it may have recorded either."""

    def declare(self, model: CModel):
        self.sources = model.sources()
        self.ever_output.update(model.outputs())

    def note_build(self, runs, external=(), model: CModel | None = None):
        """Step writes of one build, and what the user wrote while it was running."""
        roles = model.outputs() if model is not None else {}
        for run in runs:
            for path, digest in run.writes:
                self.last_written[path] = digest
                self.raced.pop(path, None)
                if path in roles:
                    self.written_as[path] = roles[path]
        for _, edits in external:
            for edit in edits:
                if edit[0] == "write":
                    data = edit[2] if isinstance(edit[2], bytes) else str(edit[2]).encode()
                    self.raced.setdefault(edit[1], set()).add(sha(data))

    def note_runs(self, runs):
        self.note_build(runs)

    def recorded_contents(self, path: str) -> set:
        """The contents StepUp may have recorded for the output `path`."""
        known = set(self.raced.get(path, ()))
        if path in self.last_written:
            known.add(self.last_written[path])
        return known

    def unjustified(self, path: str, digest_before: str, *, unsafe: bool = False, sources=None) -> str | None:
        """Why the disappearance of the regular file `path` (content `digest_before`) is not
        covered by the property, or None."""
        if path in (self.sources if sources is None else sources):
            return "static-file-removed"
        role = self.ever_output.get(path)
        if role is None:
            return "undeclared-path-removed"
        if role == "out" and not unsafe and digest_before not in self.recorded_contents(path):
            return "modified-output-removed"
        return None


def returncode_incomplete(rc) -> bool:
    return rc is None or bool(ReturnCode(rc) & ~ReturnCode.WARNING)


__all__ = [name for name in dir() if not name.startswith("_")]
_ = (Need, StepState, sqlite3)
