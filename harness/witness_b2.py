#!/usr/bin/env python3
"""Minimal reproductions of the findings of the C05 / C03 oracles (simulated director).

    PYTHONHASHSEED=0 /venv/bin/python harness/witness_b2.py [name ...]

Each witness prints what it observes and returns True when the behaviour is still there.
Names: orphan (F6), reverted (F6, revert_optional variant), digest (inp_digest after restart),
rowreset (F9 end to end), sibling (record refreshed by a failing sibling), reconfirm (stale output
with exit code 0 after a restart), missing (director dies: FAILED update on a MISSING input).
"""

from __future__ import annotations

import os
import sys

if __name__ == "__main__" and os.environ.get("PYTHONHASHSEED") != "0":
    os.execve(sys.executable, [sys.executable, *sys.argv], {**os.environ, "PYTHONHASHSEED": "0"})

sys.path.insert(0, os.path.dirname(os.path.abspath(__file__)))

from simdirector import A, FifoSchedule, ListSchedule, PrioritySchedule, Project, SimDirector  # noqa: E402


def plan(*actions):
    return list(actions)


def commits_until(project, pred, **kw):
    """Smallest k such that the database right after commit k of a build satisfies `pred(sim)`."""
    hits = []

    def on_commit(sim, k):
        if not hits and pred(sim):
            hits.append(k)

    with SimDirector(project) as sim:
        sim.build(schedule=FifoSchedule(), on_commit=on_commit, **kw)
    return hits[0] if hits else None


def orphan() -> bool:
    """F6: a kill between the `delete_detached` commit and `remove_deletable_files`."""
    def project(out):
        return Project(scripts={"./plan.py": plan(A.static("a.txt"), A.step("gen", inp=["a.txt"], out=[out])),
                                "gen": [A.read("a.txt"), A.write(out)]}, files={"a.txt": "A\n"})

    with SimDirector(project("old.txt")) as sim:
        assert sim.build(schedule=FifoSchedule()).ok
        sim.set_script("./plan.py", project("new.txt").scripts["./plan.py"])
        sim.set_script("gen", project("new.txt").scripts["gen"], file="")
        # the uninterrupted build removes old.txt; find the commit that deletes its node
        gone = []

        def on_commit(s, k):
            if not gone and not s.query("SELECT 1 FROM node WHERE label = 'old.txt'"):
                gone.append(k)

        ref = sim.build(schedule=FifoSchedule(), on_commit=on_commit)
        ref_files = sorted(ref.files)
        k = gone[0]
    # replay the same history, kill right after commit k, restart
    with SimDirector(project("old.txt")) as sim:
        assert sim.build(schedule=FifoSchedule()).ok
        sim.set_script("./plan.py", project("new.txt").scripts["./plan.py"])
        sim.set_script("gen", project("new.txt").scripts["gen"], file="")
        crashed = sim.build(schedule=FifoSchedule(), crash_after_commit=k)
        restart = sim.build(schedule=FifoSchedule(), strict=True)
        again = sim.build(schedule=FifoSchedule())
        left = "old.txt" in again.files
        print(f"orphan: uninterrupted build leaves {ref_files}; killed after commit {k} ({crashed.status}), restart "
              f"{restart.returncode!r}, a further build {again.returncode!r}: files {sorted(again.files)}; "
              f"nodes labelled old.txt: {sim.query('SELECT label FROM node WHERE label = ?', ('old.txt',))}")
    return left


def reverted() -> bool:
    """F6, `revert_optional_steps` variant: the outputs are PLANNED again, the files stay."""
    def project(optional):
        return Project(scripts={"./plan.py": plan(A.static("a.txt"),
                                                   A.step("gen", inp=["a.txt"], out=["g.txt"], optional=optional)),
                                "gen": [A.read("a.txt"), A.write("g.txt")]}, files={"a.txt": "A\n"})

    def history(sim):
        assert sim.build(schedule=FifoSchedule()).ok
        sim.set_script("./plan.py", project(True).scripts["./plan.py"])

    planned = []

    def on_commit(s, k):
        if not planned and s.query("SELECT 1 FROM node JOIN file ON file.node = node.i WHERE label = 'g.txt' AND state = 15"):
            planned.append(k)

    with SimDirector(project(False)) as sim:
        history(sim)
        ref = sim.build(schedule=FifoSchedule(), on_commit=on_commit)
    with SimDirector(project(False)) as sim:
        history(sim)
        sim.build(schedule=FifoSchedule(), crash_after_commit=planned[0])
        restart = sim.build(schedule=FifoSchedule(), strict=True)
        again = sim.build(schedule=FifoSchedule())
        print(f"reverted: uninterrupted build leaves {sorted(ref.files)}; killed after commit {planned[0]}, restart "
              f"{restart.returncode!r}: files {sorted(again.files)}, g.txt is "
              f"{sim.query('SELECT state FROM node JOIN file ON file.node = node.i WHERE label = ?', ('g.txt',))}")
        return "g.txt" in again.files and "g.txt" not in ref.files


def _small():
    return Project(scripts={"./plan.py": plan(A.static("a.txt"), A.step("gen", inp=["a.txt"], out=["g.txt"])),
                            "gen": [A.read("a.txt"), A.nop(), A.read("a.txt", required=False), A.write("g.txt")]},
                   files={"a.txt": "A1\n"})


def digest() -> bool:
    """After a kill while plan and child run, the restart records the child with an inp_digest that does
    not cover the input that was UNCONFIRMED when the child completed."""
    def quick():
        return Project(scripts={"./plan.py": plan(A.static("a.txt"), A.step("gen", inp=["a.txt"], out=["g.txt"]),
                                                   A.step("use", inp=["g.txt"], out=["u.txt"]))},
                       files={"a.txt": "A1\n"})  # default scripts: read the declared inputs, write the outputs

    with SimDirector(quick()) as sim:
        ref = sim.build(njob=2, schedule=FifoSchedule())
    line = sorted(ln for ln in ref.graph_canon.split("\n") if "inp_digest" in ln)
    for k in range(5, ref.ncommit):
        with SimDirector(quick()) as sim:
            sim.build(njob=2, schedule=FifoSchedule(), crash_after_commit=k)
            restart = sim.build(njob=2, schedule=FifoSchedule(), strict=True)
            got = sorted(ln for ln in (restart.graph_canon or "").split("\n") if "inp_digest" in ln)
            if restart.ok and restart.files == ref.files and got != line:
                print(f"digest: kill after commit {k}: same files, same graph except "
                      f"{[g.strip() for g in got if g not in line]} instead of {[g.strip() for g in line if g not in got]}")
                return True
    print("digest: not reproduced")
    return False


def reconfirm() -> bool:
    """Stale output with exit code 0: kill, restart, and an edit of a.txt after `gen` read it and before the
    re-running plan's declaration of a.txt is re-confirmed."""
    with SimDirector(_small()) as sim:
        ref = sim.build(njob=2, schedule=FifoSchedule())
    for k in range(5, ref.ncommit):
        for when in range(4, 20):
            with SimDirector(_small()) as sim:
                sim.build(njob=2, schedule=FifoSchedule(), crash_after_commit=k)
                restart = sim.build(njob=2, schedule=FifoSchedule(), external=[(when, {"a.txt": "A2\n"})])
                if not restart.ok:
                    continue
                nxt = sim.build(njob=2, schedule=FifoSchedule())
                import hashlib

                stale = hashlib.sha256(b"A1\n").hexdigest()
                if nxt.ok and not nxt.commands and stale[:12].encode() in nxt.files.get("g.txt", b"")[:400] \
                        and sim.files()["a.txt"] == b"A2\n":
                    print(f"reconfirm: kill after commit {k}, a.txt edited at scheduling decision {when}: restart "
                          f"{restart.returncode!r}, next build runs {nxt.commands}, g.txt still derived from A1")
                    return True
    print("reconfirm: not reproduced")
    return False


def _two_consumers():
    body = [A.read("a.txt"), A.nop(), A.nop(), A.read("a.txt", required=False)]
    return Project(scripts={"./plan.py": plan(A.static("a.txt"), A.step("one", inp=["a.txt"], out=["o1.txt"]),
                                               A.step("two", inp=["a.txt"], out=["o2.txt"])),
                            "one": [*body, A.write("o1.txt")], "two": [*body, A.nop(), A.nop(), A.write("o2.txt")]},
                   files={"a.txt": "A1\n"})


def sibling() -> bool:
    """No kill needed: `one` and `two` read a.txt, a.txt is edited, `one` finishes first and fails; its
    failure handling stores the new hash of a.txt, so `two` passes its post-run check."""
    for when in range(8, 40):
        with SimDirector(_two_consumers()) as sim:
            res = sim.build(njob=3, schedule=FifoSchedule(), external=[(when, {"a.txt": "A2\n"})])
            tags = dict((d, t) for t, d in res.tags("SUCCESS", "FAIL"))
            two = [r for r in res.runs if r.label == "two"]
            if res.status == "done" and tags.get("one") == "FAIL" and tags.get("two") == "SUCCESS" and two and \
                    len({d for p, d in two[-1].reads if p == "a.txt"}) == 2:
                nxt = sim.build(njob=3, schedule=FifoSchedule())
                print(f"sibling: a.txt edited at scheduling decision {when}: one FAIL, two SUCCESS although a.txt "
                      f"changed between its two reads {[d[:8] for p, d in two[-1].reads]}; return code "
                      f"{res.returncode!r}; the next build runs {nxt.commands} ({nxt.returncode!r})")
                return "two" not in nxt.commands
    print("sibling: not reproduced")
    return False


def missing() -> bool:
    """A source deleted while two consumers run: the second completion raises ConsistencyError."""
    for when in range(8, 40):
        with SimDirector(_two_consumers()) as sim:
            res = sim.build(njob=3, schedule=FifoSchedule(), external=[(when, {"a.txt": None})])
            if res.status == "error":
                print(f"missing: a.txt deleted at scheduling decision {when}: director ends with "
                      f"{(res.error or '').strip().splitlines()[-1]}; cause: "
                      f"{[ln for ln in (res.error or '').splitlines() if 'Unexpected file hash update' in ln][:1]}")
                return True
    print("missing: not reproduced")
    return False


def rowreset() -> bool:
    """F9 end to end: a kill while plan and child run, the plan of the next run defines the child
    differently; on restart the child is dispatched while the plan re-runs and is reset under its job."""
    def project(out):
        return Project(scripts={"./plan.py": plan(A.static("a.txt"), A.nop(), A.nop(),
                                                   A.step("gen", inp=["a.txt"], out=[out])),
                                "gen": [A.read("a.txt"), A.nop(), A.nop(), A.nop(), A.nop(), A.write(out)]},
                       files={"a.txt": "A\n"})

    with SimDirector(project("g1.txt")) as sim:
        ncommit = sim.build(njob=2, schedule=FifoSchedule()).ncommit
    for k in range(6, ncommit):
        with SimDirector(project("g1.txt")) as sim:
            crashed = sim.build(njob=2, schedule=FifoSchedule(), crash_after_commit=k)
            states = dict(sim.query("SELECT label, state FROM node JOIN step ON step.node = node.i"))
            if states.get("gen") != 22 or states.get("./plan.py") != 22:
                # only interesting when both were RUNNING at the kill
                if not (states.get("gen") == 22):
                    continue
            sim.set_script("./plan.py", project("g2.txt").scripts["./plan.py"])
            sim.set_script("gen", project("g2.txt").scripts["gen"], file="")
            restart = sim.build(njob=2, schedule=FifoSchedule(), strict=True)
            gens = [j for j in restart.jobs if j.label == "gen"]
            if restart.status == "error" or len(gens) > 1:
                print(f"rowreset: kill after commit {k} (states {states}); restart: status {restart.status}, "
                      f"{len(gens)} jobs for step gen, "
                      f"{(restart.error or '').strip().splitlines()[-1] if restart.error else restart.returncode!r}")
                return True
    print("rowreset: not reproduced")
    return False


def skipreset() -> bool:
    """F9, hash-check variant (generated case of the C05 oracle, first kill point = an ordinary rebuild after
    plan edits): a step is being hash-checked (SKIP job in flight) while its re-running creator redefines it
    with another output; the check ends in SKIP and records SUCCEEDED: return code 0, the new output was
    never built and the old one is removed."""
    from props import c05

    spec = c05.make_spec(4, 53, "quick")
    spec["only_points"] = [["commit", 1]]
    res = c05.run_case(spec)
    hit = [f for f in res["findings"] if f["signature"] == "running-step-row-reset"]
    for f in hit:
        print("skipreset:", f["what"])
    case = c05._Case(spec)
    sim = case.prepare()
    with sim:
        case.interrupted_build(sim, crash_after_commit=1)
        restart = sim.build(njob=spec["njob"], resources=case.resources, strict=True, schedule=FifoSchedule())
        rows = sim.query("SELECT s.label, step.state, f.label, file.state FROM node AS s JOIN step ON step.node = s.i "
                         "JOIN dependency ON dependency.source = s.i JOIN node AS f ON f.i = dependency.sink "
                         "JOIN file ON file.node = f.i WHERE step.state = 23 AND file.state = 15 AND NOT s.detached "
                         "AND NOT f.detached")
        print(f"skipreset: restart {restart.returncode!r}; SUCCEEDED steps with PLANNED outputs: {rows}; "
              f"on disk: {[r[2] in restart.files for r in rows]}")
        return bool(hit) or bool(rows)


WITNESSES = {"orphan": orphan, "reverted": reverted, "digest": digest, "reconfirm": reconfirm, "sibling": sibling,
             "missing": missing, "rowreset": rowreset, "skipreset": skipreset}

if __name__ == "__main__":
    names = sys.argv[1:] or list(WITNESSES)
    result = {name: WITNESSES[name]() for name in names}
    print(result)
    sys.exit(1 if any(result.values()) else 0)
