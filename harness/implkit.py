"""Access to the implementation under test, in-process (DESIGN.md section 8.2).

Imports `stepup.core` from /repo's working tree (the /venv install is editable) and offers
small helpers to drive `Workflow` / `Scheduler` on `:memory:` databases under watchdogs.
"""

from __future__ import annotations

import asyncio
import contextlib
import sys

import common

if str(common.REPO) not in sys.path:
    sys.path.insert(0, str(common.REPO))

import stepup.core  # noqa: E402

if not (stepup.core.__file__ or "").startswith(str(common.REPO)):
    raise RuntimeError(f"stepup.core imported from {stepup.core.__file__}, expected {common.REPO}")

from stepup.core.enums import FileState, HashUpdateCause, Need, StepState  # noqa: E402,F401
from stepup.core.file import File  # noqa: E402,F401
from stepup.core.hash import FileHash  # noqa: E402
from stepup.core.scheduler import Scheduler  # noqa: E402
from stepup.core.sqlite3 import DBSession  # noqa: E402
from stepup.core.static_tree import StaticTree  # noqa: E402,F401
from stepup.core.step import Step  # noqa: E402,F401
from stepup.core.workflow import Workflow  # noqa: E402

WATCHDOG_VM_STEPS = 20_000_000


WATCHDOGS: dict = {}


class Hang(Exception):
    """An SQL statement of the implementation exceeded the watchdog budget (see F11)."""


def install_watchdog(db: DBSession, budget: int = WATCHDOG_VM_STEPS):
    """Abort any single statement burst that runs for more than `budget` VM steps."""
    state = {"n": 0}

    def handler():
        state["n"] += 1
        return 1 if state["n"] * 100_000 > budget else 0

    db._con.set_progress_handler(handler, 100_000)
    return state


def reset_watchdog(state):
    state["n"] = 0


@contextlib.asynccontextmanager
async def workflow(*, targets=(), target_dirs=(), defer_cap: int = 100, resources: str | None = None,
                   with_scheduler: bool = False):
    """A fresh `Workflow` (and optionally `Scheduler`) on an in-memory database."""
    with DBSession.open(":memory:") as db:
        wf = Workflow(db, dir_queue=None, defer_cap=defer_cap, targets=targets, target_dirs=target_dirs)
        await wf.initialize()
        WATCHDOGS[id(wf)] = install_watchdog(db)
        if with_scheduler:
            sched = Scheduler(wf, db=db)
            await sched.initialize(resources)
            yield wf, sched
        else:
            yield wf


def fake_hash(path: str, salt: int = 0) -> FileHash:
    """A deterministic known hash for a path (content identity = `salt`)."""
    import hashlib

    digest = hashlib.sha256(f"{salt}:{path}".encode("utf-8", "surrogatepass")).digest()
    return FileHash(digest, 0o644, 1000.0 + salt, 10 + salt, 77)


def confirm_static(wf: Workflow, creator, paths, salt: int = 0):
    unconfirmed = wf.declare_static_files(creator, paths)
    wf.update_file_hashes({p: fake_hash(p, salt) for p in unconfirmed}, cause=HashUpdateCause.CONFIRMED)


def classify_exc(exc: BaseException) -> str:
    """Map an exception of the implementation to the small enum of the protocol."""
    from stepup.core.exceptions import ConsistencyError, CyclicError, GraphError, PathError

    import sqlite3

    if isinstance(exc, CyclicError):
        return "cyclic"
    if isinstance(exc, GraphError):
        return "graph"
    if isinstance(exc, PathError):
        return "path"
    if isinstance(exc, ConsistencyError):
        return "consistency"
    if isinstance(exc, sqlite3.IntegrityError):
        return "integrity"
    if isinstance(exc, sqlite3.OperationalError) and "interrupt" in str(exc).lower():
        return "hang"
    if isinstance(exc, AssertionError):
        return "assert"
    if isinstance(exc, ValueError):
        return "value"
    return "other:" + type(exc).__name__


def run(coro):
    return asyncio.run(coro)
