"""Worker pool for simulated builds (used by the B-layer oracles of C03 and C05).

`simdirector` runs its own event loop (`loop.run_until_complete`), which cannot be nested in the
`asyncio.run` of `harness/main.py`, and it patches module globals, so one process runs one
simulation at a time.  The oracles therefore run their cases in worker processes:

    for status, task, result in simpool.run("props.c05", "run_case", tasks, deadline_s=60): ...

* a worker is `python simpool.py --worker`, a fresh interpreter started with `PYTHONHASHSEED=0`,
  so the iteration order of string sets inside the real code is the same in every run and in
  every replay; it reads one JSON task per line and answers one JSON line per task;
* a task is plain JSON-able data (seeds and options: the worker regenerates the project), the
  result is whatever the function returns (plain data again);
* `soft_s`: tasks that would start later than this are not run (`skipped`); `deadline_s` bounds the
  whole map: workers still busy then are killed and their tasks reported as `timeout` (the
  simulation has its own watchdogs, so one build cannot hang for more than ~120 s of wall clock);
* `VERIF_REPO` and the other environment variables of the check reach the workers unchanged.
"""

from __future__ import annotations

import importlib
import json
import os
import queue
import subprocess
import sys
import threading
import time
import traceback

HERE = os.path.dirname(os.path.abspath(__file__))


def default_workers() -> int:
    try:
        n = int(os.environ.get("VERIF_WORKERS", "0"))
    except ValueError:
        n = 0
    if n > 0:
        return n
    return max(1, min(6, (os.cpu_count() or 2) // 2))


def _worker_main():
    if HERE not in sys.path:
        sys.path.insert(0, HERE)
    import faulthandler

    faulthandler.enable()
    out = os.fdopen(os.dup(1), "w")
    # whatever the implementation prints must not corrupt the protocol
    os.dup2(2, 1)
    for line in sys.stdin:
        line = line.strip()
        if not line:
            continue
        module, func, task = json.loads(line)
        try:
            mod = importlib.import_module(module)
            answer = ["ok", getattr(mod, func)(task)]
        except BaseException as exc:  # noqa: BLE001  (a crashing case is data, not a tool failure)
            answer = ["error", f"{type(exc).__name__}: {exc}\n{traceback.format_exc()[-3000:]}"]
        out.write(json.dumps(answer, default=str) + "\n")
        out.flush()


def run(module: str, func: str, tasks: list, *, deadline_s: float, soft_s: float | None = None,
        workers: int | None = None):
    """Yield `(status, task, result)` with status `ok` | `error` | `skipped` | `timeout`, in
    completion order."""
    tasks = list(tasks)
    if not tasks:
        return
    workers = min(workers or default_workers(), len(tasks))
    t_end = time.time() + deadline_s
    t_soft = None if soft_s is None else time.time() + soft_s
    todo: queue.Queue = queue.Queue()
    for t in tasks:
        todo.put(t)
    results: queue.Queue = queue.Queue()
    procs: list[subprocess.Popen] = []
    env = {**os.environ, "PYTHONHASHSEED": "0", "PYTHONDONTWRITEBYTECODE": "1"}

    def serve():
        proc = subprocess.Popen([sys.executable, os.path.join(HERE, "simpool.py"), "--worker"],
                                stdin=subprocess.PIPE, stdout=subprocess.PIPE, text=True, env=env, cwd=HERE)
        procs.append(proc)
        try:
            while True:
                try:
                    task = todo.get_nowait()
                except queue.Empty:
                    return
                if t_soft is not None and time.time() > t_soft:
                    results.put(("skipped", task, None))
                    continue
                try:
                    proc.stdin.write(json.dumps([module, func, task]) + "\n")
                    proc.stdin.flush()
                    line = proc.stdout.readline()
                except (BrokenPipeError, OSError):
                    line = ""
                if not line:
                    status = "timeout" if time.time() >= t_end else "error"
                    results.put((status, task, f"worker died (exit code {proc.poll()})"))
                    return
                status, result = json.loads(line)
                results.put((status, task, result))
        finally:
            try:
                proc.stdin.close()
            except OSError:
                pass

    threads = [threading.Thread(target=serve, daemon=True) for _ in range(workers)]
    for th in threads:
        th.start()
    received = 0
    try:
        while received < len(tasks):
            try:
                item = results.get(timeout=0.5)
            except queue.Empty:
                if time.time() > t_end:
                    break
                if not any(th.is_alive() for th in threads) and results.empty():
                    break
                continue
            received += 1
            yield item
        if received < len(tasks):
            for proc in procs:
                proc.kill()
            seen = received
            while True:
                try:
                    item = results.get(timeout=0.3)
                except queue.Empty:
                    break
                seen += 1
                yield item
            while True:
                try:
                    task = todo.get_nowait()
                except queue.Empty:
                    break
                yield ("timeout", task, None)
    finally:
        for proc in procs:
            if proc.poll() is None:
                proc.kill()
        for proc in procs:
            try:
                proc.wait(timeout=5)
            except subprocess.TimeoutExpired:
                pass



def run_retrying(module: str, func: str, tasks: list, *, deadline_s: float, soft_s: float | None = None,
                 workers: int | None = None, retry_deadline_s: float = 400.0, max_retries: int = 4):
    """Like `run`, but a task whose worker was killed at the deadline (`timeout`) is run once more,
    alone, with a generous deadline: a case that only timed out because the machine was busy ends
    `ok` then; a case that hangs deterministically is reported as `timeout` again."""
    late = []
    for status, task, res in run(module, func, tasks, deadline_s=deadline_s, soft_s=soft_s, workers=workers):
        if status == "timeout" and len(late) < max_retries:
            late.append(task)
        else:
            yield status, task, res
    for task in late:
        yield from run(module, func, [task], deadline_s=retry_deadline_s, workers=1)

if __name__ == "__main__" and "--worker" in sys.argv:
    _worker_main()
