"""A file that is rewritten while (right after) it is read for hashing.

`FileHash.refreshed` records a digest together with the stat fields that later serve as the
"unchanged" short cut.  The pair must describe one and the same content: when the file is rewritten
after its bytes were read, the recorded stat fields must be those seen BEFORE the read, so that the
next `refreshed` notices the difference and hashes again.  The rewrite is injected by wrapping
`stepup.core.hash.compute_file_digest` (the bytes of the old content are hashed, then the new content
is written, then the function returns)."""

from __future__ import annotations

import hashlib
import os
import tempfile


def cases(r, n: int):
    for _ in range(n):
        a = bytes(r.randrange(256) for _ in range(r.randint(1, 40)))
        kind = r.choice(["same-size", "other-size", "other-size", "mode"])
        if kind == "same-size":
            b = bytes((x + 1) % 256 for x in a)
        else:
            b = a + b"!" * r.randint(1, 5)
        yield a, b, kind


def run(r, n: int) -> tuple[list[dict], int]:
    """Returns (problems, number of cases)."""
    from stepup.core import hash as hash_mod
    from stepup.core.hash import FileHash

    problems = []
    orig = hash_mod.compute_file_digest
    done = 0
    with tempfile.TemporaryDirectory() as d:
        for i, (a, b, kind) in enumerate(cases(r, n)):
            path = os.path.join(d, f"f{i}.dat")
            with open(path, "wb") as fh:
                fh.write(a)
            os.utime(path, (1_600_000_000 + i, 1_600_000_000 + i))
            start = FileHash.unknown() if r.random() < 0.5 else FileHash.unknown().refreshed(path)
            if not start.is_unknown:
                # make the first stat differ from the recorded one so that the file is hashed
                os.utime(path, (1_600_000_100 + i, 1_600_000_100 + i))

            def racing(p, *args, _b=b, _i=i, _kind=kind, **kw):
                digest = orig(p, *args, **kw)
                with open(p, "wb") as fh:
                    fh.write(_b)
                if _kind == "mode":
                    os.chmod(p, 0o600)
                os.utime(p, (1_600_000_500 + _i, 1_600_000_500 + _i))
                return digest

            hash_mod.compute_file_digest = racing
            try:
                h1 = start.refreshed(path)
            finally:
                hash_mod.compute_file_digest = orig
            h2 = h1.refreshed(path)
            done += 1
            want = hashlib.sha256(b).digest()
            if h2.digest != want:
                problems.append({"kind": kind, "old_content": a.hex(), "new_content": b.hex(),
                                 "recorded_after_the_race": [h1.digest.hex()[:16], h1.mode, h1.mtime, h1.size],
                                 "refreshed_again": [h2.digest.hex()[:16], h2.mode, h2.mtime, h2.size],
                                 "digest_of_the_file_on_disk": want.hex()[:16]})
    return problems, done
