"""Shared machinery of the StepUp Core verification checks (see DESIGN.md sections 4, 5, 8, 11).

Everything here is plumbing: seeds, the serialised `lake` calls, the axiom audit, the line
protocol to the Lean model driver, evidence files, replay files and the known-findings list.
"""

from __future__ import annotations

import contextlib
import fcntl
import hashlib
import json
import os
import random
import re
import subprocess
import sys
import time
from dataclasses import dataclass, field
from pathlib import Path

VERIF = Path(__file__).resolve().parent.parent
REPO = Path(os.environ.get("VERIF_REPO", "/repo"))
LEAN_DIR = Path(os.environ.get("VERIF_LEAN_DIR", VERIF / "lean"))
WORK = Path(os.environ.get("VERIF_WORK", VERIF / "work"))
EVIDENCE = Path(os.environ.get("VERIF_EVIDENCE", VERIF / "evidence"))
KNOWN_FINDINGS = VERIF / "known_findings.jsonl"
DRIVER_BIN = LEAN_DIR / ".lake" / "build" / "bin" / "driver"
GUARD = "STEPUP_CORE_VERIF"

ALLOWED_AXIOMS = {"propext", "Classical.choice", "Quot.sound"}
FORBIDDEN_TOKENS = re.compile(
    r"\b(sorry|admit|native_decide|bv_decide|implemented_by|unsafe)\b|^axiom\s|maxHeartbeats\s+0\b",
    re.M,
)

TRUSTED_BASE = [
    "Lean 4.33.0 kernel (leanchecker re-check in the thorough tier)",
    "axioms propext, Classical.choice, Quot.sound only (audited by #print axioms on every run)",
    "hand-written Lean model of the Python/SQLite semantics, tied to /repo by the correspondence "
    "harness of this run and by tables regenerated from /repo on this run",
    "harness/gen_tables.py, the correspondence harness and the Lean driver",
    "CPython 3.12 and SQLite 3.40 executing the repository's own code and SQL fragments",
]


def seed() -> int:
    try:
        return int(os.environ.get("VERIF_SEED", "0"))
    except ValueError:
        return 0


def tier(default: str = "quick") -> str:
    t = os.environ.get("VERIF_TIER", default)
    return t if t in ("quick", "thorough") else default


def rng(*salt) -> random.Random:
    """One PRNG per purpose, all derived from VERIF_SEED."""
    h = hashlib.sha256(repr((seed(),) + salt).encode()).digest()
    return random.Random(int.from_bytes(h[:8], "big"))


# ---------------------------------------------------------------------------------------------
# Lean: build, audit, driver
# ---------------------------------------------------------------------------------------------


@contextlib.contextmanager
def lake_lock():
    WORK.mkdir(exist_ok=True)
    with open(WORK / ".lake.lock", "w") as fh:
        fcntl.flock(fh, fcntl.LOCK_EX)
        try:
            yield
        finally:
            fcntl.flock(fh, fcntl.LOCK_UN)


def _clean_env():
    env = dict(os.environ)
    env.pop("LEAN_PATH", None)
    return env


@dataclass
class BuildResult:
    ok: bool
    output: str
    errors: list[str] = field(default_factory=list)
    wall_s: float = 0.0


def lake_build(targets: list[str], timeout: int = 3000) -> BuildResult:
    t0 = time.time()
    with lake_lock():
        proc = subprocess.run(
            ["lake", "build", *targets],
            cwd=LEAN_DIR,
            capture_output=True,
            text=True,
            timeout=timeout,
            env=_clean_env(),
        )
    out = proc.stdout + proc.stderr
    errors = [ln for ln in out.splitlines() if re.search(r"\berror\b", ln)]
    return BuildResult(proc.returncode == 0, out, errors, time.time() - t0)


def prop_file(pid: str) -> Path:
    return LEAN_DIR / "StepupModel" / "Props" / f"{pid}.lean"


THEOREM_RE = re.compile(r"^(?:@\[[^\]]*\]\s*)?theorem\s+([A-Za-z_][A-Za-z0-9_.']*)", re.M)
NAMESPACE_RE = re.compile(r"^namespace\s+(\S+)", re.M)


def strip_lean_comments(text: str) -> str:
    """Remove `--` line comments and (nested) `/- -/` block comments."""
    out = []
    i, depth, n = 0, 0, len(text)
    while i < n:
        if text.startswith("/-", i):
            depth += 1
            i += 2
        elif depth and text.startswith("-/", i):
            depth -= 1
            i += 2
        elif depth:
            if text[i] == "\n":
                out.append("\n")
            i += 1
        elif text.startswith("--", i):
            while i < n and text[i] != "\n":
                i += 1
        else:
            out.append(text[i])
            i += 1
    return "".join(out)


def theorems_of(pid: str) -> tuple[str, list[str]]:
    text = strip_lean_comments(prop_file(pid).read_text())
    ns = NAMESPACE_RE.search(text)
    return (ns.group(1) if ns else ""), THEOREM_RE.findall(text)


IMPORT_RE = re.compile(r"^import\s+(StepupModel(?:\.[A-Za-z0-9_]+)*|Driver)\s*$", re.M)


def import_closure(roots: list[str]) -> list[Path]:
    """The project's own source files a module depends on (transitively), the roots included."""
    seen: dict[str, Path] = {}
    todo = list(roots)
    while todo:
        mod = todo.pop()
        if mod in seen:
            continue
        path = LEAN_DIR / (mod.replace(".", "/") + ".lean")
        if not path.exists():
            continue
        seen[mod] = path
        todo.extend(IMPORT_RE.findall(strip_lean_comments(path.read_text())))
    return sorted(seen.values())


def forbidden_scan(pid: str | None = None) -> list[str]:
    """Grep the Lean sources for tokens that would void a proof: every file the property's theorems
    and the model driver depend on (all project files when no property is given)."""
    hits = []
    if pid is None:
        paths = [p for p in sorted(LEAN_DIR.rglob("*.lean")) if ".lake" not in p.parts]
    else:
        paths = import_closure([f"StepupModel.Props.{pid}", "Driver"])
    for path in paths:
        text = strip_lean_comments(path.read_text())
        for m in FORBIDDEN_TOKENS.finditer(text):
            line = text.count("\n", 0, m.start()) + 1
            hits.append(f"{path.relative_to(LEAN_DIR)}:{line}: {m.group(0).strip()}")
    return hits


@dataclass
class AuditResult:
    theorems: dict[str, list[str]]  # name -> axioms
    bad: dict[str, list[str]]  # name -> disallowed axioms
    missing: list[str]  # theorems for which no axiom report was produced
    forbidden: list[str]
    output: str = ""

    @property
    def ok(self) -> bool:
        return not self.bad and not self.missing and not self.forbidden


def audit(pid: str) -> AuditResult:
    ns, names = theorems_of(pid)
    WORK.mkdir(exist_ok=True)
    audit_file = WORK / f"Audit_{pid}.lean"
    lines = [f"import StepupModel.Props.{pid}"]
    if ns:
        lines.append(f"open {ns}")
    for name in names:
        lines.append(f"#print axioms {name}")
    audit_file.write_text("\n".join(lines) + "\n")
    with lake_lock():
        proc = subprocess.run(
            ["lake", "env", "lean", str(audit_file)],
            cwd=LEAN_DIR,
            capture_output=True,
            text=True,
            timeout=1200,
            env=_clean_env(),
        )
    out = proc.stdout + proc.stderr
    theorems: dict[str, list[str]] = {}
    flat = re.sub(r"\n\s+", " ", out)
    for m in re.finditer(r"'([^']+)' depends on axioms: \[([^\]]*)\]", flat):
        theorems[m.group(1).split(".")[-1]] = [a.strip() for a in m.group(2).split(",") if a.strip()]
    for m in re.finditer(r"'([^']+)' does not depend on any axioms", flat):
        theorems[m.group(1).split(".")[-1]] = []
    bad = {}
    for name, axs in theorems.items():
        extra = [a for a in axs if a not in ALLOWED_AXIOMS]
        if extra:
            bad[name] = extra
    missing = [n for n in names if n.split(".")[-1] not in theorems]
    return AuditResult(theorems, bad, missing, forbidden_scan(pid), out)


def leanchecker(modules: list[str], timeout: int = 1800) -> tuple[bool, str]:
    """Independent re-check of the compiled modules by the toolchain's `leanchecker` (thorough tier)."""
    with lake_lock():
        proc = subprocess.run(["lake", "env", "leanchecker", *modules], cwd=LEAN_DIR, capture_output=True,
                              text=True, timeout=timeout, env=_clean_env())
    return proc.returncode == 0, (proc.stdout + proc.stderr)[-2000:]


def hexs(s: str) -> str:
    """Protocol encoding of a string: hex of its UTF-8 bytes, `-` for the empty string."""
    b = s.encode("utf-8", "surrogatepass")
    return b.hex() if b else "-"


def unhexs(tok: str) -> str:
    return "" if tok == "-" else bytes.fromhex(tok).decode("utf-8", "surrogatepass")


def hexlist(items) -> str:
    items = list(items)
    return ",".join(hexs(x) for x in items) if items else "."


def unhexlist(tok: str) -> list[str]:
    return [] if tok == "." else [unhexs(t) for t in tok.split(",")]


def run_driver(lines: list[str], timeout: int = 600) -> list[str]:
    """Pipe protocol lines to the compiled Lean model driver; one output line per input line."""
    if not DRIVER_BIN.exists():
        # another build in the same Lean project may be relinking the executable right now
        with lake_lock():
            if not DRIVER_BIN.exists():
                subprocess.run(["lake", "build", "driver"], cwd=LEAN_DIR, capture_output=True, text=True,
                               timeout=1800, env=_clean_env())
        if not DRIVER_BIN.exists():
            raise RuntimeError(f"model driver not built: {DRIVER_BIN}")
    data = "\n".join(lines) + "\n"
    proc = subprocess.run(
        [str(DRIVER_BIN)], input=data, capture_output=True, text=True, timeout=timeout
    )
    if proc.returncode != 0:
        raise RuntimeError(f"model driver failed ({proc.returncode}): {proc.stderr[-2000:]}")
    out = proc.stdout.split("\n")
    if out and out[-1] == "":
        out.pop()
    if len(out) != len(lines):
        raise RuntimeError(f"model driver answered {len(out)} lines for {len(lines)} requests")
    return out


# ---------------------------------------------------------------------------------------------
# Findings, replays, evidence
# ---------------------------------------------------------------------------------------------


@dataclass
class Finding:
    """A concrete failing input against the implementation (or a broken obligation)."""

    prop: str
    signature: str  # identifies the class of failing input (matched against known findings)
    what: str  # one line
    detail: dict  # input / observed / expected / how to re-run
    no_input: bool = False  # True: no failing input found, `detail` names the broken obligation


def load_known(pid: str) -> list[dict]:
    items = []
    if KNOWN_FINDINGS.exists():
        for ln in KNOWN_FINDINGS.read_text().splitlines():
            ln = ln.strip()
            if ln and not ln.startswith("#"):
                obj = json.loads(ln)
                if obj.get("property") == pid:
                    items.append(obj)
    return items


def write_replay(pid: str, finding: Finding, n: int) -> Path:
    d = WORK / "replays"
    d.mkdir(parents=True, exist_ok=True)
    path = d / f"{pid}-seed{seed()}-{n}.json"
    payload = {
        "property": pid,
        "signature": finding.signature,
        "what": finding.what,
        "no_failing_input_found": finding.no_input,
        "detail": finding.detail,
        "rerun": f"cd /verif && ./check {pid} --replay {path}",
    }
    path.write_text(json.dumps(payload, indent=1, default=str) + "\n")
    return path


@dataclass
class Stats:
    """Measured coverage of one run; serialised into the evidence file."""

    evaluations: int = 0
    distinct: set = field(default_factory=set)
    samples: list = field(default_factory=list)
    distribution: dict = field(default_factory=dict)
    disagreements: int = 0
    programs: int = 0
    rule: str = ""

    def count(self, key: str, n: int = 1):
        self.distribution[key] = self.distribution.get(key, 0) + n

    def case(self, key, nontrivial: bool = True):
        self.evaluations += 1
        if nontrivial:
            self.distinct.add(hashlib.sha1(repr(key).encode()).digest()[:8])

    def sample(self, obj, limit: int = 6):
        if len(self.samples) < limit:
            self.samples.append(obj)


def write_evidence(
    pid: str,
    *,
    level: str,
    obligations: list[str],
    discharged: list[str],
    stats: Stats,
    wall_s: float,
    violations: int,
    assumptions: list[str],
    extra: dict | None = None,
    checker_cmd: str = "",
):
    EVIDENCE.mkdir(exist_ok=True)
    coverage = {
        "obligations": len(obligations),
        "discharged": len(discharged),
        "checker_cmd": checker_cmd
        or f"cd /verif/lean && lake build StepupModel.Props.{pid} && lake env lean ../work/Audit_{pid}.lean",
        "trusted_base": TRUSTED_BASE,
        "theorems": obligations,
        "evaluations": stats.evaluations,
        "distinct_nontrivial": len(stats.distinct),
        "rule": stats.rule,
        "samples": stats.samples or ["(no correspondence case was run)"],
        "programs": stats.programs,
        "disagreements_checked": stats.disagreements,
        "input_distribution": stats.distribution,
    }
    if extra:
        coverage.update(extra)
    obj = {
        "property_id": pid,
        "tier": tier(),
        "seed": seed(),
        "level": level,
        "coverage": coverage,
        "assumptions": assumptions,
        "wall_s": round(wall_s, 2),
        "violations": violations,
    }
    (EVIDENCE / f"{pid}.json").write_text(json.dumps(obj, indent=1, default=str) + "\n")


def log(*a):
    print(*a, file=sys.stderr, flush=True)
