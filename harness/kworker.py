"""Worker process of the sharded kernel correspondence (thorough tier): runs the `correspond` part of
one property for the index range given in VERIF_KRANGE and prints its results as one JSON line."""

from __future__ import annotations

import asyncio
import dataclasses
import importlib
import json
import os
import sys

sys.path.insert(0, os.path.dirname(os.path.abspath(__file__)))

import kcorr  # noqa: E402
from main import Ctx  # noqa: E402


async def amain(pid: str):
    mod = importlib.import_module(f"props.{pid.lower()}")
    ctx = Ctx(pid)
    try:
        await mod.correspond(ctx)
    except kcorr.WorkerDone:
        pass
    st = ctx.stats
    out = {
        "evaluations": st.evaluations, "programs": st.programs, "disagreements_n": st.disagreements,
        "distinct": [d if isinstance(d, str) else d.hex() for d in st.distinct],
        "distribution": st.distribution, "samples": st.samples, "rule": st.rule,
        "disagreements": ctx.disagreements, "findings": [dataclasses.asdict(f) for f in ctx.findings],
        "extra": ctx.extra,
    }
    print(json.dumps(out, default=str))


if __name__ == "__main__":
    os.environ.setdefault("STEPUP_CORE_VERIF", "1")
    asyncio.run(amain(sys.argv[1].upper()))
    sys.stdout.flush()
    os._exit(0)
