"""Correspondence and oracle for `Builder.job_loop` + `HashQueue` (model: lean/StepupModel/B/JobLoop.lean).

The real `Builder` (builder.py) and the real `HashQueue` run on an asyncio loop with a stub
scheduler (answers of `pop_next_job` are scripted by `offer` events), a stub executor (a job ends
when the script says so) and a stub reporter.  After every event the loop is given time to park
again and the observable state is written in the format of the driver request `c12 jobloop`.

Oracles evaluated on the implementation alone (they are what a failing input is judged by):
  job-limit-exceeded          more tasks in `running_tasks` than `njob` at the start of some job
  loop-returned-with-work     `job_loop` returned while tasks were running or unretired
  job-retired-twice / job-never-retired   `record_job_completed` calls versus started step jobs
  parked-with-startable-work  the loop waits although a slot is free and a job could start, and
                              `wake_job_loop` is not set (a lost wake-up)
  hash-job-ran-twice          one `HashJob` entered `run_hash_job` twice
"""

from __future__ import annotations

import asyncio

from stepup.core.builder import Builder
from stepup.core.enums import HashUpdateCause
from stepup.core.hash import FileHash
from stepup.core.hash_queue import HashJob


class StubJob:
    def __init__(self, i):
        self.job_i = i
        self.label = f"step{i}"
        self.letter = "R"
        self.name = f"RUN: step{i}"

    async def coro(self, executor):
        await executor.run_step(self)


class StubScheduler:
    def __init__(self):
        self.offers = []
        self.polls = 0
        self.retired = []
        self.draining = False
        self.run_counter = 0

    async def pop_next_job(self):
        self.polls += 1
        if self.offers:
            return StubJob(self.offers.pop(0))
        return None

    def record_job_completed(self, job):
        self.retired.append(job.job_i)


class StubReporter:
    async def __call__(self, *a, **k):
        return None

    def job_started(self, *a):
        pass

    def job_stopped(self, *a):
        pass

    async def update_progress(self, *a):
        pass


class StubExecutor:
    write_joblog = False

    def __init__(self, case):
        self.case = case
        self.events = {}
        self.active = set()
        self.fail = set()
        self.entered = []

    def _gate(self, key):
        return self.events.setdefault(key, asyncio.Event())

    async def run_step(self, job):
        key = ("s", job.job_i)
        self.case.on_start(key)
        self.active.add(key)
        try:
            await self._gate(key).wait()
            if key in self.fail:
                raise ValueError(f"scripted failure of step job {job.job_i}")
        finally:
            self.active.discard(key)

    async def run_hash_job(self, job):
        key = ("h", -job.job_i)
        self.entered.append(key)
        self.case.on_start(key)
        self.active.add(key)
        try:
            await self._gate(key).wait()
            if not job.future.done():
                job.future.set_result(FileHash.unknown())
        finally:
            self.active.discard(key)


class Case:
    def __init__(self, njob):
        self.njob = njob
        self.sched = StubScheduler()
        self.execu = StubExecutor(self)
        self.builder = Builder(scheduler=self.sched, workflow=None, db=None, reporter=StubReporter(),
                               executor=self.execu, njob=njob, live_progress=False)
        self.loop_task = None
        self.started = []
        self.problems = []
        self.promote_tasks = []

    # called by the stub executor when a job body begins
    def on_start(self, key):
        b = self.builder
        task = asyncio.current_task()
        if task in b.running_tasks:
            self.started.append(key)
            if len(b.running_tasks) > self.njob:
                self.problems.append(("job-limit-exceeded",
                                      f"{len(b.running_tasks)} tasks in running_tasks with njob={self.njob}"))

    def status(self):
        t = self.loop_task
        if t is None:
            return "I"
        if not t.done():
            return "W"
        return "X" if (t.cancelled() or t.exception() is not None) else "R"

    def jobkey(self, job):
        return ("h", -job.job_i) if isinstance(job, HashJob) else ("s", job.job_i)

    def state(self):
        b = self.builder
        running = [self.jobkey(j) for j in b.running_tasks.values()]
        promoted = [k for k in self.execu.entered if k in self.execu.active and k not in running]
        fmt = lambda ks: "+".join(f"{a}{i}" for a, i in ks) if ks else "."  # noqa: E731
        return "|".join([
            fmt(running), str(len(b.done_tasks)), self.status(), str(self.sched.polls),
            "1" if b.wake_job_loop.is_set() else "0", "1" if self.sched.draining else "0",
            "+".join(str(i) for _, i in promoted) if promoted else ".",
            str(b.hash_queue.queue.qsize()),
            "+".join(f"{p[1:]}:{-j.job_i}" for p, j in b.hash_queue.in_flight.items()) if b.hash_queue.in_flight else ".",
            fmt(self.started), "+".join(map(str, self.sched.retired)) if self.sched.retired else ".",
        ])

    async def settle(self):
        last = None
        same = 0
        for _ in range(400):
            await asyncio.sleep(0)
            cur = self.state()
            same = same + 1 if cur == last else 0
            last = cur
            if same >= 6:
                return
        self.problems.append(("loop-does-not-settle", "the job loop keeps running without an external event"))

    def check_parked(self):
        b = self.builder
        st = self.status()
        if st == "R" and (b.running_tasks or b.done_tasks):
            self.problems.append(("loop-returned-with-work",
                                  f"job_loop returned with {len(b.running_tasks)} running and {len(b.done_tasks)} unretired tasks"))
        if st == "R":
            steps = [i for a, i in self.started if a == "s"]
            for i in steps:
                n = self.sched.retired.count(i)
                if n == 0:
                    self.problems.append(("job-never-retired", f"step job {i} was started but never reported completed"))
        for i in set(self.sched.retired):
            if self.sched.retired.count(i) > 1:
                self.problems.append(("job-retired-twice", f"step job {i} was reported completed more than once"))
        if st == "W" and len(b.running_tasks) < self.njob and not b.wake_job_loop.is_set():
            unclaimed = [j for j in list(b.hash_queue.queue._queue) if not j.started]
            if self.sched.offers or unclaimed:
                self.problems.append(("parked-with-startable-work",
                                      f"free slot, {len(self.sched.offers)} offered step jobs and {len(unclaimed)} queued hash "
                                      "jobs, wake_job_loop not set"))
        ent = self.execu.entered
        for k in set(ent):
            if ent.count(k) > 1:
                self.problems.append(("hash-job-ran-twice", f"hash job {k[1]} entered run_hash_job {ent.count(k)} times"))

    async def event(self, tok):
        b = self.builder
        kind, arg = tok[0], tok[1:]
        if kind == "S":
            if self.status() in ("I", "R"):
                self.loop_task = asyncio.ensure_future(b.job_loop())
        elif kind == "o":
            self.sched.offers.append(int(arg))
            b.wake_job_loop.set()
        elif kind == "h":
            b.hash_queue.submit("p" + arg, FileHash.unknown(), HashUpdateCause.EXTERNAL)
        elif kind == "P":
            self.promote_tasks.append(asyncio.ensure_future(
                b.run_promoted_hash_jobs({"p" + arg: FileHash.unknown()}, HashUpdateCause.EXTERNAL)))
        elif kind in "fx":
            key = (arg[0], int(arg[1:]))
            if kind == "x" and key[0] != "s":
                pass
            elif key in self.execu.active:
                running = [self.jobkey(j) for j in b.running_tasks.values()]
                promoted = key[0] == "h" and key not in running
                if kind == "x":
                    if key in running:
                        self.execu.fail.add(key)
                        self.execu._gate(key).set()
                elif key in running or promoted:
                    self.execu._gate(key).set()
        await self.settle()
        self.check_parked()

    async def close(self):
        tasks = [t for t in [self.loop_task, *self.promote_tasks, *self.builder.running_tasks] if t is not None and not t.done()]
        for t in tasks:
            t.cancel()
        if tasks:
            await asyncio.gather(*tasks, return_exceptions=True)
        for t in [self.loop_task, *self.promote_tasks, *self.builder.done_tasks, *self.builder.running_tasks]:
            if t is not None and t.done() and not t.cancelled():
                t.exception()


async def run_impl(njob: int, events: list[str]):
    case = Case(njob)
    out = []
    try:
        for tok in events:
            await case.event(tok)
            out.append(case.state())
    finally:
        await case.close()
    return out, case.problems


def gen_script(r, length):
    njob = r.choice([0, 1, 1, 2, 2, 3, 4])
    evs = []
    nstep = 0
    nhash = 0
    for _ in range(r.choice([0, 0, 1, 2, 4])):  # work that exists before the phase starts
        if r.random() < 0.7:
            nstep += 1
            evs.append(f"o{nstep}")
        else:
            evs.append(f"h{r.randrange(4)}")
            nhash += 1
    if r.random() < 0.9:
        evs.append("S")
    for _ in range(length):
        x = r.random()
        if x < 0.24:
            nstep += 1
            evs.append(f"o{nstep}")
        elif x < 0.36:
            evs.append(f"h{r.randrange(4)}")
            nhash += 1
        elif x < 0.44:
            evs.append(f"P{r.randrange(4)}")
            nhash += 1
        elif x < 0.70:
            evs.append(f"fs{r.randrange(1, nstep + 2)}")
        elif x < 0.84:
            evs.append(f"fh{r.randrange(1, nhash + 2)}")
        elif x < 0.87:
            evs.append(f"xs{r.randrange(1, nstep + 2)}")
        else:
            evs.append("S")
    return njob, evs


CORPUS = [
    (2, ["o1", "o2", "o3", "S", "fs1", "fs2", "fs3"]),
    (1, ["S", "o1", "o2", "h0", "fs1", "fh1", "fs2"]),
    (1, ["h0", "P0", "S", "o1", "fh1", "fs1"]),  # a promoted runner claims a queued job before the loop pops it
    (2, ["S", "o1", "o2", "xs1", "fs2", "S"]),  # an exception ends the loop with a task still running
    (1, ["S", "h1", "h1", "fh1", "h1", "fh2"]),  # deduplication by path while a job is unresolved
    (3, ["S", "o1", "h0", "h1", "P1", "fh2", "fh1", "fs1", "S", "o2", "fs2"]),
    (0, ["S", "o1", "h0", "S"]),
]


def line(njob, evs):
    return f"c12 jobloop {njob} " + (",".join(evs) if evs else ".")


def run_impl_sync(njob, evs):
    return asyncio.run(run_impl(njob, evs))


def scripts_for(ctx, salt, n):
    out = list(CORPUS)
    for i in range(n):
        r = ctx.rng("jobloop", salt, i)
        out.append(gen_script(r, r.randrange(3, 28)))
    return out


def _stats(ctx, scripts, traces):
    st = ctx.stats
    for (njob, evs), tr in zip(scripts, traces):
        st.programs += 1
        peak = 0
        for state in tr:
            f = state.split("|")
            k = 0 if f[0] == "." else len(f[0].split("+"))
            peak = max(peak, k)
            st.count("jobloop:status-" + f[2])
            st.count("jobloop:states-at-job-limit", int(njob > 0 and k == njob))
            st.count("jobloop:states-with-promoted-runner", int(f[6] != "."))
            st.count("jobloop:states-draining", int(f[5] == "1"))
        st.case(("jobloop", njob, tuple(evs)), nontrivial=peak > 1)
        for e in evs:
            st.count("jobloop:event-" + e[0])


async def correspond(ctx):
    """Real `Builder.job_loop`/`HashQueue` versus the Lean model on the same event scripts."""
    import common

    scripts = scripts_for(ctx, "corr", ctx.budget(500, 12000))
    model = await asyncio.to_thread(common.run_driver, [line(n, e) for n, e in scripts])

    def work():
        return [run_impl_sync(n, e)[0] for n, e in scripts]

    impl = await asyncio.to_thread(work)
    _stats(ctx, scripts, impl)
    for (njob, evs), m, tr in zip(scripts, model, impl):
        got = ";".join(tr)
        if got != m:
            k = next((i for i, (a, b) in enumerate(zip(tr, m.split(";"))) if a != b), min(len(tr), len(m.split(";"))))
            ctx.disagree("jobloop", {"line": line(njob, evs), "first_differing_event": k,
                                     "event": evs[k] if k < len(evs) else None},
                         m.split(";")[k] if k < len(m.split(";")) else m, tr[k] if k < len(tr) else None)
    ctx.extra["jobloop_scripts"] = len(scripts)


def shrink(njob, evs, sig):
    cur = list(evs)
    changed = True
    while changed and len(cur) > 1:
        changed = False
        for i in range(len(cur)):
            cand = cur[:i] + cur[i + 1:]
            if any(s == sig for s, _ in run_impl_sync(njob, cand)[1]):
                cur = cand
                changed = True
                break
    return cur


SIGNATURES = {
    # C12: the limit itself
    "C12": {"job-limit-exceeded"},
    # C10: "a build phase ... ends only when no step satisfies these conditions", "every build phase terminates"
    "C10": {"parked-with-startable-work", "loop-returned-with-work", "loop-does-not-settle"},
}
# job-retired-twice / job-never-retired / hash-job-ran-twice are bookkeeping of the scheduler and of the
# hash queue: no property states them; they are part of the compared trace (a difference breaks the
# correspondence) and are counted in the evidence.


async def search(ctx, pid):
    """Oracles on the implementation alone (see the module docstring); only the classes that the
    property `pid` states are reported as violations."""
    from common import Finding

    scripts = scripts_for(ctx, "oracle", ctx.budget(500, 12000))

    other = {}

    def work():
        found = {}
        for njob, evs in scripts:
            _, problems = run_impl_sync(njob, evs)
            for sig, what in problems:
                if sig not in SIGNATURES[pid]:
                    other[sig] = other.get(sig, 0) + 1
                    continue
                if sig not in found:
                    found[sig] = (what, njob, shrink(njob, evs, sig), evs)
        return found

    found = await asyncio.to_thread(work)
    ctx.stats.count("jobloop:oracle-scripts", len(scripts))
    for sig, n in other.items():
        ctx.stats.count("jobloop:not-a-violation-of-this-property:" + sig, n)
    for sig, (what, njob, small, evs) in found.items():
        ctx.finding(Finding(pid, sig, what, {
            "jobloop": {"njob": njob, "events": small, "unshrunk": evs},
            "how": "harness/jobloopcorr.py run_impl(njob, events): the real Builder.job_loop and HashQueue with a stub "
                   "scheduler/executor; events: S enter job_loop, o<i> scheduler offers step job i, h<p>/P<p> submit / "
                   "promote a hash job for path p, fs<i>/fh<i> the job ends, xs<i> the step job raises"}))


async def replay(ctx, detail):
    d = detail.get("detail", detail).get("jobloop")
    sig = detail.get("signature", "")
    _, problems = await asyncio.to_thread(run_impl_sync, int(d["njob"]), list(d["events"]))
    return {"reproduced": any(s == sig for s, _ in problems), "signature": sig, "problems": problems[:5]}
