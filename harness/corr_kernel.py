"""Kernel correspondence: request sequences against the real Workflow/Scheduler on `:memory:`
and against the Lean kernel model, compared after every request (DESIGN.md section 4.2).

A sequence is generated while it is executed on the implementation (valid choices depend on the
current database), every request is written as one protocol line, and the whole file is then
piped to the model driver.  The answer of both sides to a request is
`ok <result> <digest>` or `err <kind> <digest>`, where the digest is FNV-1a of the canonical dump.
"""

from __future__ import annotations

import sqlite3

import common
import implkit
import kdump
from common import hexlist, hexs
from implkit import FileState, HashUpdateCause, Need, StepState

from stepup.core.file import File
from stepup.core.job import RunJob
from stepup.core.nglob import NamedGlob
from stepup.core.static_tree import StaticTree
from stepup.core.step import Step

def i_case_parity(run) -> bool:
    """A coin that costs no draw of the generator's PRNG: the parity of the number of requests so far."""
    return len(getattr(run, "lines", ())) % 2 == 0


PATHS = ["a.txt", "b.txt", "d/c.txt", "d/e.txt", "d/sub/g.txt", "d2/f.txt", "out/x", "out/y", "o.bin", "d/o2",
         "a_b/f.txt", "axb/f.txt"]
DIRS = ["d", "d/sub", "d2", "out", "d/", "a_b", "axb"]
CMDS = ["s1", "s2", "s3", "s4", "s5", "s6", "s7", "s8", "s9"]
WORKDIRS = [".", ".", ".", "w/"]
ENVS = ["V1", "V2"]
PATTERNS = ["*.txt", "d/*.txt", "d/*", "out/*", "d/sub/*"]
RESOURCES = ["cpu", "gpu"]

SCOPES = {
    "define": "declarations", "amend": "declarations", "static": "declarations", "tree": "declarations",
    "declstatic": "declarations",
    "nglob": "declarations", "hashes": "propagation", "mark_pending": "propagation", "rescan_env": "startup",
    "setenv": "startup",
    "retarget": "startup", "check_consistency": "startup", "pop": "scheduler", "update_meta": "scheduler", "hold": "scheduler",
    "release": "scheduler", "reset_rerun": "completion", "completed": "completion", "set_state": "completion",
    "delete_hash": "completion", "revert_optional": "cleanup", "delete_detached": "cleanup",
    "clear_queue": "cleanup", "reset_interrupted": "startup", "reconcile": "startup", "reset": "startup",
    "detach": "declarations",
}


def kkey(kind: str, label: str) -> str:
    return f"{kind}:{hexs(label)}"


def pairs_tok(d: dict) -> str:
    return ",".join(f"{hexs(k)}={hexs(v)}" for k, v in d.items()) or "."


def units_tok(d: dict) -> str:
    return ",".join(f"{hexs(k)}={v}" for k, v in d.items()) or "."


class KernelRun:
    """One request sequence, executed on the implementation as it is generated."""

    def __init__(self, r, *, exotic: bool = False):
        self.r = r
        self.lines: list[str] = []
        self.impl: list[str] = []
        self.ops: list[str] = []
        self.tok = 100
        self.env: dict[str, str] = {}
        self.exotic = exotic
        self.keep_dumps = False
        self.decls: dict = {}
        self.observers: list = []  # callables (run, op, line, answer) invoked inside a transaction after each op
        self.legal: list[bool] = []  # per op: reachable through the director's interface
        self._legal_now = True
        self.dumps: list[list[str]] = []

    # -- plumbing ----------------------------------------------------------------------------

    def newtok(self) -> int:
        self.tok += 1
        return self.tok

    async def tx(self, line: str, fn, result=lambda x: "-"):
        """Run `fn` inside one transaction, record the line and the implementation's answer."""
        wf = self.wf
        watchdog = implkit.WATCHDOGS[id(wf)]
        implkit.reset_watchdog(watchdog)
        try:
            async with wf.db:
                value = fn()
            ans = "ok " + result(value)
        except Exception as exc:  # rollback happened in __aexit__
            kind = implkit.classify_exc(exc)
            ans = "err " + kind
            if kind.startswith("other"):
                ans += ":" + repr(exc)[:200]
        async with wf.db:
            ans += " " + self._digest()
        self.lines.append(line)
        self.impl.append(ans)
        self.ops.append(line.split(" ")[1])
        await self.notify()
        return ans

    def _digest(self) -> str:
        lines = kdump.dump_lines(self.wf)
        if self.keep_dumps:
            self.dumps.append(lines)
        self.legal.append(self._legal_now and not self.exotic)
        self._legal_now = True
        self._last_dump = lines
        return str(kdump.fnv1a("\n".join(lines)))

    async def notify(self):
        """Call the observers for the request that was just recorded (inside one transaction)."""
        if not self.observers:
            return
        async with self.wf.db:
            for obs in self.observers:
                obs(self, self.ops[-1], self.lines[-1], self.impl[-1])

    async def dump(self) -> list[str]:
        async with self.wf.db:
            return kdump.dump_lines(self.wf)

    # -- state queries on the real database (used only to choose plausible requests) ----------

    def steps(self, state=None, attached=True):
        sql = "SELECT node.label FROM node JOIN step ON step.node = node.i WHERE 1"
        args = []
        if attached:
            sql += " AND NOT node.detached"
        if state is not None:
            sql += " AND step.state = ?"
            args.append(state.value)
        return [x for (x,) in self.wf.db.execute(sql, args)]

    def files(self, states=None, attached=None):
        sql = "SELECT node.label, file.state FROM node JOIN file ON file.node = node.i WHERE 1"
        if attached is True:
            sql += " AND NOT node.detached"
        rows = self.wf.db.execute(sql).fetchall()
        return [p for p, st in rows if states is None or FileState(st) in states]

    async def q(self, fn):
        async with self.wf.db:
            return fn()

    # -- requests ----------------------------------------------------------------------------

    async def reset(self, cm):
        r = self.r
        targets = r.sample(PATHS, r.choice([0, 0, 0, 1, 2]))
        tdirs = [d.rstrip("/") + "/" for d in r.sample(DIRS[:4], r.choice([0, 0, 0, 1]))]
        # the project root as the directory target, now and then (no extra draw: the stream of every
        # existing case stays what it was)
        tdirs = ["./" if d == "d2/" and i_case_parity(self) else d for d in tdirs]
        avail = {name: r.choice([1, 2, 3]) for name in RESOURCES if r.random() < 0.7}
        self.env = {name: r.choice(["x", "y"]) for name in ENVS if r.random() < 0.6}
        cap = r.choice([100, 1, 2])
        import os

        for name in ENVS:
            os.environ.pop(name, None)
        os.environ.update(self.env)
        res_spec = ",".join(f"{k}:{v}" for k, v in avail.items()) or None
        self.res_spec, self.cap = res_spec, cap
        self.targets, self.tdirs = targets, tdirs
        self.avail = avail
        self.wf, self.sched = await cm.enter_async_context(
            implkit.workflow(targets=targets, target_dirs=tdirs, defer_cap=cap, resources=res_spec,
                             with_scheduler=True))
        line = (f"k reset {cap} {hexlist(sorted(targets))} {hexlist(sorted(tdirs))} {units_tok(avail)} "
                f"{pairs_tok(self.env)}")
        async with self.wf.db:
            d = self._digest()
        self.lines.append(line)
        self.impl.append(f"ok - {d}")
        self.ops.append("reset")
        await self.notify()

    def pick_paths(self, n_choices=(0, 1, 1, 2)):
        r = self.r
        ps = r.sample(PATHS, r.choice(n_choices))
        if self.exotic and r.random() < 0.3:
            ps.append(r.choice(["d/", "x/.", "", ".stepup/z", "a b.txt", "é.txt"]))
        return ps

    async def define(self, creator=None, boot=False):
        r = self.r
        wf = self.wf
        if boot:
            ckind, clabel = "root", ""
            cmd, wd, inp, env, out, vol = "./plan.py", ".", [], [], [], []
            need, shell, safe, res, ovr = Need.PLAN, False, True, {}, {}
        else:
            running = await self.q(lambda: self.steps(StepState.RUNNING))
            anystep = await self.q(lambda: self.steps(None, attached=False))
            if creator is None:
                pool = running if running and (not self.exotic or r.random() < 0.8) else anystep
                if not running and not self.exotic:
                    # nothing can declare anything now: let the build make progress, or start over
                    # with the plan (the boot step, or another planning step) running again
                    ans = await self.pop()
                    if ans.startswith("ok none"):
                        await self.replan()
                    return
                if not pool:
                    return
                creator = r.choice(pool)
                self._legal_now = creator in running
            ckind, clabel = "step", creator
            detached_known = await self.q(lambda: [l for l in self.decls if wf.find(Step, l) is not None
                                                   and wf.find(Step, l).is_detached()])
            if detached_known and r.random() < 0.45:
                # re-declare a detached step: identically (full recycle) or slightly changed (partial)
                cmd, wd, inp, env, out, vol, need, shell, res, ovr = self.decls[r.choice(detached_known)]
                inp, env, out, vol, res, ovr = list(inp), list(env), list(out), list(vol), dict(res), dict(ovr)
                safe = False
                k = r.random()
                if k < 0.15:
                    inp = self.pick_paths()
                elif k < 0.25:
                    out = self.pick_paths((0, 1, 2))
                elif k < 0.35:
                    need = r.choice([Need.DEFAULT, Need.OPTIONAL])
                elif k < 0.45:
                    res = {name: r.choice([1, 2, 3]) for name in RESOURCES if r.random() < 0.5}
                elif k < 0.52:
                    shell = not shell
                elif k < 0.58:
                    ovr = {} if ovr else {r.choice(ENVS + ["OMP"]): r.choice(["1", "2"])}
            else:
                cmd = r.choice(CMDS) if r.random() < 0.95 or not self.exotic else "x  # wd=y"
                wd = r.choice(WORKDIRS)
                existing = await self.q(lambda: set(self.steps(None, attached=False)))
                unused = [c for c in CMDS if c not in existing]
                if unused and wd == "." and r.random() < 0.8:
                    cmd = r.choice(unused)
                claimed = await self.q(lambda: set(self.files(None, attached=True)))
                free = [p for p in PATHS if p not in claimed] or PATHS
                inp = self.pick_paths()
                out = r.sample(free, min(len(free), r.choice((0, 1, 1, 2)))) if r.random() < 0.8 \
                    else self.pick_paths((0, 1, 1, 2))
                vol = r.sample(free, min(len(free), r.choice((0, 0, 0, 1)))) if r.random() < 0.8 \
                    else self.pick_paths((0, 0, 0, 1))
                vol = [v for v in vol if v not in out] if r.random() < 0.9 else vol
                env = r.sample(ENVS, r.choice([0, 0, 1]))
                need = r.choice([Need.DEFAULT, Need.DEFAULT, Need.OPTIONAL, Need.PLAN])
                shell, safe = r.random() < 0.2, False
                res = {name: r.choice([1, 2]) for name in RESOURCES if r.random() < 0.25}
                ovr = {}
                if r.random() < 0.15:
                    ovr = {r.choice(ENVS + ["OMP", "HERE"]): "1"}
            label = cmd if wd == "." else f"{cmd}  # wd={wd}"
            self.decls[label] = (cmd, wd, tuple(inp), tuple(env), tuple(out), tuple(vol), need, shell, dict(res),
                                 dict(ovr))

        def fn():
            cnode = wf.root if ckind == "root" else wf.find(Step, clabel)
            return wf.define_step(cnode, cmd, inp_paths=list(inp), env_deps=list(env), out_paths=list(out),
                                  vol_paths=list(vol), workdir=wd, need=need, resources=dict(res) or None,
                                  shell=shell, env_overrides=dict(ovr) or None, _safe=safe)

        line = (f"k define {kkey(ckind, clabel)} {hexs(cmd)} {hexs(wd)} {hexlist(inp)} {hexlist(env)} {hexlist(out)} "
                f"{hexlist(vol)} {need.name} {int(shell)} {int(safe)} {units_tok(res)} {pairs_tok(ovr)}")
        await self.tx(line, fn, lambda v: hexlist(sorted(v)))

    async def define_explicit(self, creator, cmd, inp=(), out=(), need=Need.DEFAULT):
        """`define_step` with chosen arguments (creator: label of a step)."""
        wf = self.wf
        inp, out = list(inp), list(out)
        self.decls[cmd] = (cmd, ".", tuple(inp), (), tuple(out), (), need, False, {}, {})

        def fn():
            return wf.define_step(wf.find(Step, creator), cmd, inp_paths=inp, env_deps=[], out_paths=out,
                                  vol_paths=[], workdir=".", need=need, resources=None, shell=False,
                                  env_overrides=None, _safe=False)

        line = (f"k define {kkey('step', creator)} {hexs(cmd)} {hexs('.')} {hexlist(inp)} . {hexlist(out)} . "
                f"{need.name} 0 0 . .")
        return await self.tx(line, fn, lambda v: hexlist(sorted(v)))

    async def check_failed(self, label):
        """The hash check of a CHECKING step found a change: the executor resets it to PENDING
        without its hash; the next dispatch runs it (with the resource test of a run)."""
        await self.step_op("reset_rerun", label, fn=lambda: self.wf.find(Step, label).reset_for_rerun())
        await self.step_op("delete_hash", label, fn=lambda: self.wf.find(Step, label).delete_hash())
        await self.step_op("set_state", label, "PENDING",
                           fn=lambda: self.wf.find(Step, label).set_state(StepState.PENDING))

    async def pop_until(self, label, limit=6):
        """Dispatch until `label` is RUNNING (other dispatched steps stay RUNNING/CHECKING)."""
        wf = self.wf
        pops = 0
        for _ in range(2 * limit + 2):
            state = await self.q(lambda: wf.find(Step, label).get_state() if wf.find(Step, label) else None)
            if state == StepState.RUNNING:
                return True
            if state == StepState.CHECKING:
                await self.check_failed(label)
                continue
            if pops >= limit:
                return False
            pops += 1
            ans = await self.pop()
            if ans.startswith("ok none") or not ans.startswith("ok"):
                return False
        return False

    async def complete_ok(self, step):
        wf = self.wf
        state = await self.q(lambda: wf.find(Step, step).get_state() if wf.find(Step, step) else None)
        if state != StepState.RUNNING:
            return
        outs = await self.q(lambda: [str(rec.path) for rec in wf.find(Step, step).out_paths()])
        todo = await self.q(lambda: [p for p in outs if wf.find(File, p).get_state()
                                     in (FileState.PLANNED, FileState.OUTDATED)])
        await self.hashes(HashUpdateCause.SUCCEEDED, todo, 1.0)
        tok = self.newtok()
        await self.step_op("completed", step, tok, 0,
                           fn=lambda: wf.find(Step, step).mark_completed(kdump.step_token(tok), False),
                           result=lambda v: kdump.b01(v))

    async def nested_chain(self):
        """A creator chain plan -> S -> M -> U whose leaf consumes the output of a step G declared
        by the plan (often OPTIONAL), everything built; then S has to run again and is reset, which
        detaches M and, through the recursion, U, while G stays attached."""
        r, wf = self.r, self.wf
        running = await self.q(lambda: self.steps(StepState.RUNNING))
        if "./plan.py" not in running:
            return
        src, mid, res = r.sample(PATHS, 3)
        gneed = Need.OPTIONAL if r.random() < 0.75 else Need.DEFAULT
        ans = await self.tx(f"k static {kkey('step', './plan.py')} {hexlist([src])}",
                            lambda: wf.declare_static_files(wf.find(Step, "./plan.py"), [src]),
                            lambda v: hexlist(sorted(v)))
        if not ans.startswith("ok"):  # e.g. the path is a build target: nothing to confirm then
            return
        await self.hashes(HashUpdateCause.CONFIRMED, [src], 1.0)
        for args in (("gen", [src], [mid], gneed), ("./sub.py", [], [], Need.PLAN)):
            if not (await self.define_explicit("./plan.py", *args)).startswith("ok"):
                return
        chain = ["./sub.py"]
        if not await self.pop_until("./sub.py"):
            return
        depth = r.choice([1, 2, 2, 3])
        for i in range(depth - 1):
            nxt = f"./mid{i}.py"
            if not (await self.define_explicit(chain[-1], nxt, [], [], r.choice([Need.PLAN, Need.DEFAULT]))).startswith("ok"):
                return
            if not await self.pop_until(nxt):
                return
            chain.append(nxt)
        if not (await self.define_explicit(chain[-1], "use", [mid], [res], Need.DEFAULT)).startswith("ok"):
            return
        for step in ["./plan.py"] + chain:
            await self.complete_ok(step)
        if await self.pop_until("gen"):
            await self.complete_ok("gen")
        if await self.pop_until("use"):
            await self.complete_ok("use")
        # second round: the sub-plan changed, so did the source of gen
        top = chain[0]
        await self.step_op("mark_pending", top, fn=lambda: wf.mark_step_pending(wf.find(Step, top)))
        await self.step_op("delete_hash", top, fn=lambda: wf.find(Step, top).delete_hash())
        if r.random() < 0.7:
            await self.hashes(HashUpdateCause.EXTERNAL, [src], 1.0)
        if await self.pop_until(top, limit=3):
            await self.step_op("reset_rerun", top, fn=lambda: wf.find(Step, top).reset_for_rerun())
        for _ in range(r.randint(1, 3)):
            await self.pop()

    async def resource_race(self):
        """A step that holds all units of a resource is detached while it runs (its creator, a
        sub-plan, fails); another step that needs the same resource is ready."""
        r, wf = self.r, self.wf
        running = await self.q(lambda: self.steps(StepState.RUNNING))
        avail = dict(self.avail)
        if "./plan.py" not in running or not avail:
            return
        name = r.choice(sorted(avail))
        units = avail[name]
        o1, o2 = r.sample(PATHS, 2)
        if not (await self.define_explicit("./plan.py", "./sub.py", [], [], Need.PLAN)).startswith("ok"):
            return
        if not await self.pop_until("./sub.py"):
            return
        for creator, cmd, out, need_units in (("./sub.py", "hog", o1, units), ("./plan.py", "wait", o2, r.randint(1, units))):
            res = {name: need_units}
            self.decls[cmd] = (cmd, ".", (), (), (out,), (), Need.DEFAULT, False, dict(res), {})

            def fn(creator=creator, cmd=cmd, out=out, res=res):
                return wf.define_step(wf.find(Step, creator), cmd, inp_paths=[], env_deps=[], out_paths=[out],
                                      vol_paths=[], workdir=".", need=Need.DEFAULT, resources=dict(res), shell=False,
                                      env_overrides=None, _safe=False)

            line = (f"k define {kkey('step', creator)} {hexs(cmd)} {hexs('.')} . . {hexlist([out])} . DEFAULT 0 0 "
                    f"{units_tok(res)} .")
            if not (await self.tx(line, fn, lambda v: hexlist(sorted(v)))).startswith("ok"):
                return
            if cmd == "hog" and not await self.pop_until("hog", limit=3):
                return
        # the sub-plan fails: its products are detached, `hog` keeps running
        await self.step_op("completed", "./sub.py", "~", 0,
                           fn=lambda: wf.find(Step, "./sub.py").mark_completed(None, False),
                           result=lambda v: kdump.b01(v))
        for _ in range(r.randint(1, 3)):
            await self.pop()

    async def detached_completion(self):
        """A step whose output is OUTDATED runs again, is detached while it runs (its creator, a
        sub-plan, runs again), rewrites the same content (no hash update) and succeeds; the sub-plan
        then defines it again unchanged (full recycle of a SUCCEEDED step)."""
        r, wf = self.r, self.wf
        running = await self.q(lambda: self.steps(StepState.RUNNING))
        if "./plan.py" not in running:
            return
        src, out = r.sample(PATHS, 2)
        ans = await self.tx(f"k static {kkey('step', './plan.py')} {hexlist([src])}",
                            lambda: wf.declare_static_files(wf.find(Step, "./plan.py"), [src]),
                            lambda v: hexlist(sorted(v)))
        if not ans.startswith("ok"):
            return
        await self.hashes(HashUpdateCause.CONFIRMED, [src], 1.0)
        if not (await self.define_explicit("./plan.py", "./sub.py", [], [], Need.PLAN)).startswith("ok"):
            return
        if not await self.pop_until("./sub.py"):
            return
        if not (await self.define_explicit("./sub.py", "work", [src], [out], Need.DEFAULT)).startswith("ok"):
            return
        await self.complete_ok("./plan.py")
        await self.complete_ok("./sub.py")
        if not await self.pop_until("work", limit=3):
            return
        await self.complete_ok("work")
        # the source changes; work is dispatched again and runs
        await self.hashes(HashUpdateCause.EXTERNAL, [src], 1.0)
        if not await self.pop_until("work", limit=3):
            return
        # its creator has to run again: work is detached while its command runs
        await self.step_op("mark_pending", "./sub.py", fn=lambda: wf.mark_step_pending(wf.find(Step, "./sub.py")))
        await self.step_op("delete_hash", "./sub.py", fn=lambda: wf.find(Step, "./sub.py").delete_hash())
        if not await self.pop_until("./sub.py", limit=3):
            return
        await self.step_op("reset_rerun", "./sub.py", fn=lambda: wf.find(Step, "./sub.py").reset_for_rerun())
        state = await self.q(lambda: (wf.find(Step, "work").get_state(), wf.find(File, out).get_state()))
        if state != (StepState.RUNNING, FileState.OUTDATED):
            return
        tok = self.newtok()
        await self.step_op("completed", "work", tok, 0,
                           fn=lambda: wf.find(Step, "work").mark_completed(kdump.step_token(tok), False),
                           result=lambda v: kdump.b01(v))
        await self.define_explicit("./sub.py", "work", [src], [out], Need.DEFAULT)
        await self.complete_ok("./sub.py")
        for _ in range(r.randint(0, 2)):
            await self.pop()

    async def rerole(self):
        """A built output is detached (its producer's creator runs again) and the path is then declared
        in another role (volatile by another step, or static): the recycled file row must take the
        role of the new declaration."""
        r, wf = self.r, self.wf
        running = await self.q(lambda: self.steps(StepState.RUNNING))
        if "./plan.py" not in running:
            return
        x = r.choice(PATHS)
        if not (await self.define_explicit("./plan.py", "mk", [], [x], Need.DEFAULT)).startswith("ok"):
            return
        if not await self.pop_until("mk", limit=3):
            return
        await self.complete_ok("mk")
        await self.step_op("reset_rerun", "./plan.py", fn=lambda: wf.find(Step, "./plan.py").reset_for_rerun())
        k = r.random()
        if k < 0.6:
            cmd = r.choice(["mk", "other"])
            self.decls[cmd] = (cmd, ".", (), (), (), (x,), Need.DEFAULT, False, {}, {})

            def fn():
                return wf.define_step(wf.find(Step, "./plan.py"), cmd, inp_paths=[], env_deps=[], out_paths=[],
                                      vol_paths=[x], workdir=".", need=Need.DEFAULT, resources=None, shell=False,
                                      env_overrides=None, _safe=False)

            await self.tx(f"k define {kkey('step', './plan.py')} {hexs(cmd)} {hexs('.')} . . . {hexlist([x])} DEFAULT 0 0 . .",
                          fn, lambda v: hexlist(sorted(v)))
        else:
            await self.tx(f"k static {kkey('step', './plan.py')} {hexlist([x])}",
                          lambda: wf.declare_static_files(wf.find(Step, "./plan.py"), [x]), lambda v: hexlist(sorted(v)))

    async def rerole_same_step(self):
        """A step is declared with a path as a regular output, its creator runs again, and the same step is
        declared with the same path as a VOLATILE output (or the reverse): not a recycle (the role of a path is part
        of the declaration); the file row takes the role of the new declaration."""
        r, wf = self.r, self.wf
        running = await self.q(lambda: self.steps(StepState.RUNNING))
        if "./plan.py" not in running:
            return
        x, y = r.sample(PATHS, 2)
        first_vol = r.random() < 0.5
        for phase in (0, 1):
            vol = first_vol if phase == 0 else not first_vol
            out_l, vol_l = ([y], [x]) if vol else ([x, y] if r.random() < 0.5 else [x], [])
            if vol and r.random() < 0.5:
                out_l = []
            self.decls["role"] = ("role", ".", (), (), tuple(out_l), tuple(vol_l), Need.DEFAULT, False, {}, {})

            def fn(out_l=out_l, vol_l=vol_l):
                return wf.define_step(wf.find(Step, "./plan.py"), "role", inp_paths=[], env_deps=[], out_paths=list(out_l),
                                      vol_paths=list(vol_l), workdir=".", need=Need.DEFAULT, resources=None, shell=False,
                                      env_overrides=None, _safe=False)

            line = (f"k define {kkey('step', './plan.py')} {hexs('role')} {hexs('.')} . . {hexlist(out_l)} {hexlist(vol_l)} "
                    "DEFAULT 0 0 . .")
            if not (await self.tx(line, fn, lambda v: hexlist(sorted(v)))).startswith("ok"):
                return
            if phase == 0:
                if r.random() < 0.5 and await self.pop_until("role", limit=3):
                    await self.complete_ok("role")
                await self.step_op("reset_rerun", "./plan.py", fn=lambda: wf.find(Step, "./plan.py").reset_for_rerun())
        for _ in range(r.randint(0, 2)):
            await self.pop()

    async def amended_consumer_rerun(self):
        """An OPTIONAL step is needed only through an amended input of `use`; `use` then runs again
        without amending (witness of the repaired defect F20)."""
        r, wf = self.r, self.wf
        running = await self.q(lambda: self.steps(StepState.RUNNING))
        if "./plan.py" not in running:
            return
        src, f, res = r.sample(PATHS, 3)
        ans = await self.tx(f"k static {kkey('step', './plan.py')} {hexlist([src])}",
                            lambda: wf.declare_static_files(wf.find(Step, "./plan.py"), [src]),
                            lambda v: hexlist(sorted(v)))
        if not ans.startswith("ok"):
            return
        await self.hashes(HashUpdateCause.CONFIRMED, [src], 1.0)
        for args in (("gen", [src], [f], Need.OPTIONAL), ("use", [], [res], Need.DEFAULT)):
            if not (await self.define_explicit("./plan.py", *args)).startswith("ok"):
                return
        await self.complete_ok("./plan.py")
        if not await self.pop_until("use", limit=3):
            return

        def fn():
            return wf.amend_step(wf.find(Step, "use"), inp_paths=[f], ran_concurrently=lambda p, c: False)

        def res_(v):
            un, uf, chk = v
            return f"{hexlist(sorted(str(x) for x in un))}|{hexlist(sorted(str(x) for x in uf))}|{hexlist(sorted(chk))}"

        await self.tx(f"k amend {kkey('step', 'use')} {hexlist([f])} . . . .", fn, res_)
        await self.step_op("completed", "use", "~", 1, fn=lambda: wf.find(Step, "use").mark_completed(None, True),
                           result=lambda v: kdump.b01(v))
        if await self.pop_until("gen", limit=3):
            await self.complete_ok("gen")
        if await self.pop_until("use", limit=3):
            await self.step_op("reset_rerun", "use", fn=lambda: wf.find(Step, "use").reset_for_rerun())
            await self.complete_ok("use")
        await self.hashes(HashUpdateCause.EXTERNAL, [src], 1.0)
        for _ in range(r.randint(1, 3)):
            await self.pop()

    async def hold_recycle(self):
        """A step that never ran is detached because its creator runs again; the creator opens a hold
        block and declares the step again unchanged (full recycle): it must not be dispatched to
        run before the hold is released."""
        r, wf = self.r, self.wf
        running = await self.q(lambda: self.steps(StepState.RUNNING))
        if "./plan.py" not in running:
            return
        out = r.choice(PATHS)
        if not (await self.define_explicit("./plan.py", "held", [], [out], Need.DEFAULT)).startswith("ok"):
            return
        await self.step_op("reset_rerun", "./plan.py", fn=lambda: wf.find(Step, "./plan.py").reset_for_rerun())
        await self.pop()
        await self.step_op("hold", "./plan.py", fn=lambda: wf.find(Step, "./plan.py").hold())
        await self.pop()
        await self.define_explicit("./plan.py", "held", [], [out], Need.DEFAULT)
        for _ in range(r.randint(1, 3)):
            await self.pop()
        if r.random() < 0.5:
            await self.step_op("release", "./plan.py", fn=lambda: wf.find(Step, "./plan.py").release())
            await self.pop()

    async def deferred_on_detached_input(self):
        """A consumer announces (amend) an output of a producer whose creator, a nested plan, is running again:
        the file is detached but still BUILT.  The consumer asks to be deferred; then the nested plan declares the
        producer again unchanged (full recycle, no file state changes).  The consumer must be dispatched again."""
        r, wf = self.r, self.wf
        running = await self.q(lambda: self.steps(StepState.RUNNING))
        if "./plan.py" not in running:
            return
        data, res = r.sample(PATHS, 2)
        if not (await self.define_explicit("./plan.py", "./sub.py", [], [], Need.PLAN)).startswith("ok"):
            return
        if not (await self.define_explicit("./plan.py", "./consume.py", [], [res], Need.DEFAULT)).startswith("ok"):
            return
        if not await self.pop_until("./sub.py", limit=4):
            return
        if not (await self.define_explicit("./sub.py", "produce", [], [data], Need.DEFAULT)).startswith("ok"):
            return
        if await self.pop_until("produce", limit=4):
            await self.complete_ok("produce")
        await self.complete_ok("./sub.py")
        if not await self.pop_until("./consume.py", limit=4):
            return
        # the nested plan runs again: its products are detached, the output stays BUILT
        await self.step_op("reset_rerun", "./sub.py", fn=lambda: wf.find(Step, "./sub.py").reset_for_rerun())
        amended = [data]

        def fn():
            return wf.amend_step(wf.find(Step, "./consume.py"), inp_paths=amended, ran_concurrently=lambda p, c: False)

        def res_(v):
            un, uf, chk = v
            return f"{hexlist(sorted(str(x) for x in un))}|{hexlist(sorted(str(x) for x in uf))}|{hexlist(sorted(chk))}"

        ans = await self.tx(f"k amend {kkey('step', './consume.py')} {hexlist(amended)} . . . .", fn, res_)
        if not ans.startswith("ok"):
            return
        await self.step_op("completed", "./consume.py", "~", 1,
                           fn=lambda: wf.find(Step, "./consume.py").mark_completed(None, True),
                           result=lambda v: kdump.b01(v))
        # the nested plan declares the producer again: recycled unchanged
        await self.define_explicit("./sub.py", "produce", [], [data], Need.DEFAULT)
        for _ in range(r.randint(2, 4)):
            await self.pop()

    async def plan_need_demotion(self):
        """A chain of two optional steps feeds a planning step, so both inherit the need PLAN; the planning step is
        dropped (the nested plan that declares it runs again without it): the need of both must fall back."""
        r, wf = self.r, self.wf
        running = await self.q(lambda: self.steps(StepState.RUNNING))
        if "./plan.py" not in running:
            return
        x, y, z = r.sample(PATHS, 3)
        for args in (("first", [], [x], Need.OPTIONAL), ("second", [x], [y], Need.OPTIONAL),
                     ("./sub.py", [], [], Need.PLAN)):
            if not (await self.define_explicit("./plan.py", *args)).startswith("ok"):
                return
        if not await self.pop_until("./sub.py", limit=4):
            return
        if not (await self.define_explicit("./sub.py", "./planner.py", [y], [z], Need.PLAN)).startswith("ok"):
            return
        await self.pop()
        await self.step_op("reset_rerun", "./sub.py", fn=lambda: wf.find(Step, "./sub.py").reset_for_rerun())
        for _ in range(r.randint(2, 3)):
            await self.pop()
        if r.random() < 0.5:
            await self.complete_ok("./sub.py")
            await self.end_phase()

    async def hold_running_recycled(self):
        """A RUNNING step opens a hold block and declares a child; its creator runs again (the running step and
        its child are detached) and declares it again unchanged: it is recycled while its hold block is open and
        must keep holding the child back until it releases."""
        r, wf = self.r, self.wf
        running = await self.q(lambda: self.steps(StepState.RUNNING))
        if "./plan.py" not in running:
            return
        o1, o2 = r.sample(PATHS, 2)
        if not (await self.define_explicit("./plan.py", "mid", [], [o1], Need.DEFAULT)).startswith("ok"):
            return
        if not await self.pop_until("mid"):
            return
        await self.step_op("hold", "mid", fn=lambda: wf.find(Step, "mid").hold())
        if not (await self.define_explicit("mid", "kid", [], [o2], Need.DEFAULT)).startswith("ok"):
            return
        await self.pop()
        await self.step_op("reset_rerun", "./plan.py", fn=lambda: wf.find(Step, "./plan.py").reset_for_rerun())
        await self.pop()
        await self.define_explicit("./plan.py", "mid", [], [o1], Need.DEFAULT)
        for _ in range(r.randint(1, 3)):
            await self.pop()
        if r.random() < 0.6:
            await self.step_op("release", "mid", fn=lambda: wf.find(Step, "mid").release())
            for _ in range(r.randint(1, 2)):
                await self.pop()

    async def duplicate_definition(self):
        """An attached step is defined a second time by its creator (a copy-pasted line), with the same lists, with
        more or other outputs, with one of its outputs as an input: every variant is a declaration error."""
        r = self.r
        running = await self.q(lambda: self.steps(StepState.RUNNING))
        if "./plan.py" not in running:
            return
        o1, o2, i1 = r.sample(PATHS, 3)
        out = [o1] if r.random() < 0.6 else [o1, o2]
        if not (await self.define_explicit("./plan.py", "dup", [], out, Need.DEFAULT)).startswith("ok"):
            return
        if r.random() < 0.4:
            await self.pop()
        for _ in range(r.randint(1, 3)):
            variant = r.choice(["same", "more", "other", "none", "own-output-as-input", "subset"])
            inp2, out2 = [], list(out)
            if variant == "more":
                out2 = sorted({*out, o2, i1})
            elif variant == "other":
                out2 = [i1]
            elif variant == "none":
                out2 = []
            elif variant == "own-output-as-input":
                inp2 = [o1]
            elif variant == "subset":
                out2 = out[:1]
            await self.define_explicit("./plan.py", "dup", inp2, out2, Need.DEFAULT)

    async def self_define_detached(self):
        """A step that is RUNNING and detached (its creator runs again) defines a step with its own command:
        with the same lists and with other lists; a declaration error in every case, never an internal one."""
        r, wf = self.r, self.wf
        running = await self.q(lambda: self.steps(StepState.RUNNING))
        if "./plan.py" not in running:
            return
        o1, o2 = r.sample(PATHS, 2)
        if not (await self.define_explicit("./plan.py", "selfish", [], [o1], Need.DEFAULT)).startswith("ok"):
            return
        if not await self.pop_until("selfish"):
            return
        if r.random() < 0.8:
            await self.step_op("reset_rerun", "./plan.py", fn=lambda: wf.find(Step, "./plan.py").reset_for_rerun())
        for _ in range(r.randint(1, 2)):
            out2 = r.choice([[o1], [o2], [], [o1, o2]])
            await self.define_explicit("selfish", "selfish", [], out2, Need.DEFAULT)

    async def shrink_resources(self):
        """A step that requires two resources is detached (its creator runs again) and declared again
        with only one of them, unchanged otherwise (full recycle) or with another output (node reuse)."""
        r, wf = self.r, self.wf
        running = await self.q(lambda: self.steps(StepState.RUNNING))
        if "./plan.py" not in running:
            return
        o1, o2 = r.sample(PATHS, 2)
        first = {"cpu": r.choice([1, 2]), "gpu": 1}
        second = {r.choice(["cpu", "gpu"]): 1}
        out2 = o1 if r.random() < 0.6 else o2
        for res, out in ((first, o1), (second, out2)):
            self.decls["shrink"] = ("shrink", ".", (), (), (out,), (), Need.DEFAULT, False, dict(res), {})

            def fn(res=res, out=out):
                return wf.define_step(wf.find(Step, "./plan.py"), "shrink", inp_paths=[], env_deps=[], out_paths=[out],
                                      vol_paths=[], workdir=".", need=Need.DEFAULT, resources=dict(res), shell=False,
                                      env_overrides=None, _safe=False)

            line = (f"k define {kkey('step', './plan.py')} {hexs('shrink')} {hexs('.')} . . {hexlist([out])} . DEFAULT 0 0 "
                    f"{units_tok(res)} .")
            if not (await self.tx(line, fn, lambda v: hexlist(sorted(v)))).startswith("ok"):
                return
            if res is first:
                await self.step_op("reset_rerun", "./plan.py", fn=lambda: wf.find(Step, "./plan.py").reset_for_rerun())
        for _ in range(r.randint(1, 3)):
            await self.pop()

    async def deferred_wakeup(self):
        """A consumer amends an input that is OUTDATED (its producer has to run again) and is
        deferred; the producer then rewrites the same content (no hash update: `mark_completed`
        turns OUTDATED into BUILT), which has to wake the consumer up."""
        r, wf = self.r, self.wf
        running = await self.q(lambda: self.steps(StepState.RUNNING))
        if "./plan.py" not in running:
            return
        src, data, res = r.sample(PATHS, 3)
        ans = await self.tx(f"k static {kkey('step', './plan.py')} {hexlist([src])}",
                            lambda: wf.declare_static_files(wf.find(Step, "./plan.py"), [src]),
                            lambda v: hexlist(sorted(v)))
        if not ans.startswith("ok"):  # e.g. the path is a build target: nothing to confirm then
            return
        await self.hashes(HashUpdateCause.CONFIRMED, [src], 1.0)
        for args in (("produce", [src], [data], Need.DEFAULT), ("./consume.py", [], [res], Need.DEFAULT)):
            if not (await self.define_explicit("./plan.py", *args)).startswith("ok"):
                return
        await self.complete_ok("./plan.py")
        if await self.pop_until("produce", limit=3):
            await self.complete_ok("produce")
        # the source changes: produce is pending again and its output OUTDATED
        await self.hashes(HashUpdateCause.EXTERNAL, [src], 1.0)
        for label in r.sample(["produce", "./consume.py"], 2):
            states = await self.q(lambda: {l: wf.find(Step, l).get_state() for l in ("produce", "./consume.py")
                                           if wf.find(Step, l) is not None})
            if states.get(label) != StepState.RUNNING:
                await self.pop_until(label, limit=3)
        states = await self.q(lambda: {l: wf.find(Step, l).get_state() for l in ("produce", "./consume.py")
                                       if wf.find(Step, l) is not None})
        if states.get("./consume.py") != StepState.RUNNING or states.get("produce") != StepState.RUNNING:
            return
        amended = [data]

        def fn():
            return wf.amend_step(wf.find(Step, "./consume.py"), inp_paths=amended,
                                 ran_concurrently=lambda p, c: False)

        def res_(v):
            un, uf, chk = v
            return f"{hexlist(sorted(str(x) for x in un))}|{hexlist(sorted(str(x) for x in uf))}|{hexlist(sorted(chk))}"

        await self.tx(f"k amend {kkey('step', './consume.py')} {hexlist(amended)} . . . .", fn, res_)
        await self.step_op("completed", "./consume.py", "~", 1,
                           fn=lambda: wf.find(Step, "./consume.py").mark_completed(None, True),
                           result=lambda v: kdump.b01(v))
        ready = await self.q(lambda: all(wf.find(File, str(rec.path)).get_state() in (FileState.OUTDATED, FileState.BUILT)
                                         for rec in wf.find(Step, "produce").out_paths()))
        if not ready:
            await self.complete_ok("produce")
            return
        tok = self.newtok()
        await self.step_op("completed", "produce", tok, 0,
                           fn=lambda: wf.find(Step, "produce").mark_completed(kdump.step_token(tok), False),
                           result=lambda v: kdump.b01(v))
        for _ in range(2):
            await self.pop()

    async def replan(self):
        """A plan step has to run again (its script or an input changed): pending, dispatch, reset."""
        wf = self.wf
        plans = await self.q(lambda: [l for l in self.steps(None) if wf.find(Step, l).get_need() == Need.PLAN
                                      and wf.find(Step, l).get_state() in (StepState.SUCCEEDED, StepState.FAILED,
                                                                           StepState.PENDING)])
        if not plans:
            return
        step = self.r.choice(plans)
        await self.step_op("mark_pending", step, fn=lambda: wf.mark_step_pending(wf.find(Step, step)))
        if self.r.random() < 0.5:
            await self.step_op("delete_hash", step, fn=lambda: wf.find(Step, step).delete_hash())
        ans = await self.pop()
        if ":run:" in ans and kkey("step", step) in ans:
            await self.step_op("reset_rerun", step, fn=lambda: wf.find(Step, step).reset_for_rerun())

    async def recycle_under_glob(self):
        """A glob registered while a step is detached, matching one of its outputs, then the step is
        re-declared unchanged (full recycle): the declaration must be rejected like a fresh one."""
        r, wf = self.r, self.wf
        running = await self.q(lambda: self.steps(StepState.RUNNING))
        detached = await self.q(lambda: [l for l in self.decls if wf.find(Step, l) is not None
                                         and wf.find(Step, l).is_detached() and self.decls[l][4]])
        if not running or not detached:
            return
        label = r.choice(detached)
        cmd, wd, inp, env, out, vol, need, shell, res, ovr = self.decls[label]
        target = r.choice(list(out))
        pats = [p for p in PATTERNS if NamedGlob(p)._match_values(target) is not None]
        if not pats:
            return
        pattern = r.choice(pats)
        ng = NamedGlob(pattern)
        ng.extend([target] if r.random() < 0.5 else [])
        creator = r.choice(running)
        found = sorted(str(p) for p in ng.files())
        await self.tx(f"k nglob {kkey('step', creator)} {hexs(pattern)} {hexlist(found)}",
                      lambda: wf.register_nglob(wf.find(Step, creator), ng))

        def fn():
            return wf.define_step(wf.find(Step, creator), cmd, inp_paths=list(inp), env_deps=list(env),
                                  out_paths=list(out), vol_paths=list(vol), workdir=wd, need=need,
                                  resources=dict(res) or None, shell=shell, env_overrides=dict(ovr) or None)

        line = (f"k define {kkey('step', creator)} {hexs(cmd)} {hexs(wd)} {hexlist(inp)} {hexlist(env)} {hexlist(out)} "
                f"{hexlist(vol)} {need.name} {int(shell)} 0 {units_tok(res)} {pairs_tok(ovr)}")
        await self.tx(line, fn, lambda v: hexlist(sorted(v)))

    async def static(self):
        r, wf = self.r, self.wf
        running = await self.q(lambda: self.steps(StepState.RUNNING))
        if not running:
            return
        creator = r.choice(running)
        paths = self.pick_paths((1, 1, 2, 3))
        wanted = await self.q(lambda: self.files({FileState.UNDECLARED, FileState.MISSING}))
        if wanted and r.random() < 0.6:
            paths = r.sample(wanted, min(len(wanted), r.choice((1, 2, 3))))
        await self.tx(f"k static {kkey('step', creator)} {hexlist(paths)}",
                      lambda: wf.declare_static_files(wf.find(Step, creator), list(paths)),
                      lambda v: hexlist(sorted(v)))

    async def declstatic(self):
        """The body of `DirectorHandler.declare_static`: trees, files and patterns in one transaction."""
        r, wf = self.r, self.wf
        running = await self.q(lambda: self.steps(StepState.RUNNING))
        if not running:
            return
        creator = r.choice(running)
        trees = sorted(r.sample(DIRS[:4] + DIRS[5:], r.choice([0, 0, 1, 2])))
        files = self.pick_paths((0, 1, 2, 3))
        pats = []
        for pattern in r.sample(PATTERNS, r.choice([0, 1, 1, 2])):
            ng = NamedGlob(pattern)
            ng.extend(r.sample(PATHS, r.choice([0, 2, 4, 6])))
            pats.append((pattern, ng))

        def fn():
            cnode = wf.find(Step, creator)
            to_check = {}
            for t in trees:
                to_check.update(wf.register_static_tree(cnode, t))
            to_check.update(wf.declare_static_files(cnode, list(files)))
            for _, ng in pats:
                wf.register_nglob(cnode, ng)
            return to_check

        ptok = ";".join(f"{hexs(p)}:{hexlist(sorted(str(x) for x in ng.files()))}" for p, ng in pats) or "."
        await self.tx(f"k declstatic {kkey('step', creator)} {hexlist(trees)} {hexlist(files)} {ptok}", fn,
                      lambda v: hexlist(sorted(v)))

    async def tree(self):
        r, wf = self.r, self.wf
        running = await self.q(lambda: self.steps(StepState.RUNNING))
        if not running:
            return
        creator = r.choice(running)
        path = r.choice(DIRS) if not self.exotic or r.random() < 0.8 else r.choice([".", "", "/", ".stepup", "d/*"])
        await self.tx(f"k tree {kkey('step', creator)} {hexs(path)}",
                      lambda: wf.register_static_tree(wf.find(Step, creator), path),
                      lambda v: hexlist(sorted(v)))

    async def nglob(self):
        r, wf = self.r, self.wf
        running = await self.q(lambda: self.steps(StepState.RUNNING))
        if not running:
            return
        step = r.choice(running)
        pattern = r.choice(PATTERNS)
        ng = NamedGlob(pattern)
        ng.extend(r.sample(PATHS, r.choice([0, 2, 4, 6])))
        found = sorted(str(p) for p in ng.files())
        await self.tx(f"k nglob {kkey('step', step)} {hexs(pattern)} {hexlist(found)}",
                      lambda: wf.register_nglob(wf.find(Step, step), ng))

    async def amend(self):
        r, wf = self.r, self.wf
        running = await self.q(lambda: self.steps(StepState.RUNNING, attached=False))
        if not running:
            return
        step = r.choice(running)
        inp, out, vol = self.pick_paths((0, 1, 1, 2)), self.pick_paths((0, 0, 1)), self.pick_paths((0, 0, 0, 1))
        env = r.sample(ENVS, r.choice([0, 0, 1]))
        producers = await self.q(lambda: self.steps(None, attached=False))
        conc = [p for p in producers if r.random() < 0.3]

        def fn():
            snode = wf.find(Step, step)
            conc_ids = {wf.find(Step, c).i for c in conc}
            return wf.amend_step(snode, inp_paths=list(inp), env_deps=list(env), out_paths=list(out),
                                 vol_paths=list(vol), ran_concurrently=lambda p, c: p in conc_ids)

        def res(v):
            un, uf, chk = v
            return f"{hexlist(sorted(str(x) for x in un))}|{hexlist(sorted(str(x) for x in uf))}|{hexlist(sorted(chk))}"

        conc_tok = ",".join(kkey("step", c) for c in conc) or "."
        await self.tx(f"k amend {kkey('step', step)} {hexlist(inp)} {hexlist(env)} {hexlist(out)} {hexlist(vol)} "
                      f"{conc_tok}", fn, res)

    async def hashes(self, cause, paths, known_prob=0.8, same_prob=0.0):
        r, wf = self.r, self.wf
        if not paths:
            return
        upd = {}
        for p in paths:
            upd[p] = self.newtok() if r.random() < known_prob else None
        tok = ",".join(f"{hexs(p)}={'~' if t is None else t}" for p, t in upd.items())
        from stepup.core.hash import FileHash

        def fn():
            wf.update_file_hashes({p: (FileHash.unknown() if t is None else kdump.file_token(t))
                                   for p, t in upd.items()}, cause=cause)

        await self.tx(f"k hashes {cause.name} {tok}", fn)

    async def confirm(self):
        unconf = await self.q(lambda: self.files({FileState.UNCONFIRMED}))
        if unconf:
            await self.hashes(HashUpdateCause.CONFIRMED, self.r.sample(unconf, self.r.randint(1, len(unconf))), 0.9)

    async def external(self):
        r = self.r
        states = {FileState.CONFIRMED, FileState.MISSING, FileState.BUILT, FileState.OUTDATED}
        if self.exotic and r.random() < 0.3:
            states = set(FileState)
        cand = await self.q(lambda: self.files(states))
        if self.exotic and r.random() < 0.2:
            cand = cand + ["nonexistent.txt"]
        if cand:
            chosen = r.sample(cand, r.randint(1, min(3, len(cand))))
            if not self.exotic:
                # the director applies an EXTERNAL result only when the hash changed: a MISSING file
                # (unknown hash) can only become known
                missing = set(await self.q(lambda: self.files({FileState.MISSING})))
                known = [p for p in chosen if p in missing]
                rest = [p for p in chosen if p not in missing]
                if known:
                    await self.hashes(HashUpdateCause.EXTERNAL, known, 1.0)
                chosen = rest
            await self.hashes(HashUpdateCause.EXTERNAL, chosen, 0.7)

    async def pop(self):
        wf, sched = self.wf, self.sched
        implkit.reset_watchdog(implkit.WATCHDOGS[id(wf)])
        hook = getattr(self, "before_pop", None)
        if hook is not None:
            async with wf.db:
                hook()
        try:
            job = await sched.pop_next_job()
            if job is None:
                choice, ans = "~", "ok none"
            else:
                choice = kkey("step", job.step.label)
                async with wf.db:
                    st = job.step.get_state()
                ans = (f"ok {choice}:{'check' if st == StepState.CHECKING else 'run'}:"
                       f"{'runjob' if isinstance(job, RunJob) else 'validate'}")
        except Exception as exc:
            choice, ans = "~", "err " + implkit.classify_exc(exc)
        async with wf.db:
            ans += " " + self._digest()
        self.lines.append(f"k pop {choice}")
        self.impl.append(ans)
        self.ops.append("pop")
        await self.notify()
        return ans

    async def step_op(self, op, step, *extra, fn=None, result=lambda v: "-"):
        line = f"k {op} {kkey('step', step)}" + "".join(" " + str(e) for e in extra)
        return await self.tx(line, fn, result)

    async def run_step(self):
        """Advance one RUNNING or CHECKING step the way the executor does."""
        r, wf = self.r, self.wf
        running = await self.q(lambda: self.steps(StepState.RUNNING, attached=False))
        checking = await self.q(lambda: self.steps(StepState.CHECKING, attached=False))
        if not running and not checking:
            return
        if checking and (not running or r.random() < 0.5):
            step = r.choice(checking)
            k = r.random()
            complete = await self.q(lambda: all(
                wf.find(File, str(rec.path)).get_state() in (FileState.BUILT, FileState.VOLATILE)
                for rec in wf.find(Step, step).out_paths()) and
                all(wf.find(File, str(rec.path)).get_state() == FileState.VOLATILE
                    for rec in wf.find(Step, step).vol_paths()))
            if k < 0.5 and complete:  # skip succeeds (the executor requires every output on disk)
                tok = self.newtok()
                await self.step_op("completed", step, tok, 0,
                                   fn=lambda: wf.find(Step, step).mark_completed(kdump.step_token(tok), False),
                                   result=lambda v: kdump.b01(v))
            else:  # hash mismatch: reset and make pending
                await self.step_op("reset_rerun", step, fn=lambda: wf.find(Step, step).reset_for_rerun())
                await self.step_op("delete_hash", step, fn=lambda: wf.find(Step, step).delete_hash())
                await self.step_op("set_state", step, "PENDING",
                                   fn=lambda: wf.find(Step, step).set_state(StepState.PENDING))
            return
        leaves = await self.q(lambda: [s_ for s_ in running if wf.find(Step, s_).get_need() != Need.PLAN])
        step = r.choice(leaves) if leaves and r.random() < 0.8 else r.choice(running)
        outs = await self.q(lambda: [str(rec.path) for rec in wf.find(Step, step).out_paths()])
        k = r.random()
        if k < 0.75:  # success
            unchanged = r.random() < 0.3  # OUTDATED outputs rewritten with the same content: no hash update
            todo = await self.q(lambda: [p for p in outs if wf.find(File, p).get_state() == FileState.PLANNED or
                                         (wf.find(File, p).get_state() == FileState.OUTDATED and not unchanged)])
            await self.hashes(HashUpdateCause.SUCCEEDED, todo, 1.0)
            tok = self.newtok()
            await self.step_op("completed", step, tok, 0,
                               fn=lambda: wf.find(Step, step).mark_completed(kdump.step_token(tok), False),
                               result=lambda v: kdump.b01(v))
        else:  # failure, possibly wanting a deferral
            await self.hashes(HashUpdateCause.FAILED, r.sample(outs, r.randint(0, len(outs))), 0.5)
            defer = r.random() < 0.5
            await self.step_op("completed", step, "~", int(defer),
                               fn=lambda: wf.find(Step, step).mark_completed(None, defer),
                               result=lambda v: kdump.b01(v))

    async def reset_rerun(self):
        running = await self.q(lambda: self.steps(StepState.RUNNING, attached=False))
        if running:
            step = self.r.choice(running)
            await self.step_op("reset_rerun", step, fn=lambda: self.wf.find(Step, step).reset_for_rerun())

    async def hold_release(self):
        r, wf = self.r, self.wf
        pool = await self.q(lambda: self.steps(StepState.RUNNING, attached=False))
        if self.exotic and r.random() < 0.3:
            pool = await self.q(lambda: self.steps(None, attached=False))
        if not pool:
            return
        step = r.choice(pool)
        if r.random() < 0.55:
            await self.step_op("hold", step, fn=lambda: wf.find(Step, step).hold())
        else:
            await self.step_op("release", step, fn=lambda: wf.find(Step, step).release())

    async def mark_pending(self):
        pool = await self.q(lambda: self.steps(None, attached=False))
        if pool:
            step = self.r.choice(pool)
            await self.step_op("mark_pending", step,
                               fn=lambda: self.wf.mark_step_pending(self.wf.find(Step, step)))

    async def detach_any(self):
        """Not a request of the director: `Node.detach` on an arbitrary node, the root included (the
        CHECK constraints of the node table must refuse the root)."""
        wf = self.wf
        rows = await self.q(lambda: wf.db.execute("SELECT kind, label FROM node").fetchall())
        kind, label = self.r.choice(rows)
        self._legal_now = False

        def fn():
            from stepup.core.static_tree import StaticTree

            cls = {"file": File, "step": Step, "st": StaticTree}.get(kind)
            node = wf.root if kind == "root" else wf.find(cls, label)
            node.detach()

        await self.tx(f"k detach {kkey(kind, label)}", fn)

    async def simple(self, op, fn):
        await self.tx(f"k {op}", fn)

    async def coro_op(self, op, make_coro):
        """A request implemented by a coroutine of the code that opens its own transaction(s)."""
        wf = self.wf
        implkit.reset_watchdog(implkit.WATCHDOGS[id(wf)])
        try:
            await make_coro()
            ans = "ok -"
        except Exception as exc:
            ans = "err " + implkit.classify_exc(exc)
        async with wf.db:
            ans += " " + self._digest()
        self.lines.append(f"k {op}")
        self.impl.append(ans)
        self.ops.append(op)
        await self.notify()

    async def end_phase(self):
        from stepup.core.finalize import revert_optional_steps

        wf = self.wf
        if self.r.random() < 0.6:
            self.lines.append("k update_meta")
            try:
                async with wf.db:
                    self.sched._update_meta_safe()
                    self.sched._update_meta_after()
                    self.sched._update_meta_ready()
                ans = "ok -"
            except Exception as exc:
                ans = "err " + implkit.classify_exc(exc)
            async with wf.db:
                ans += " " + self._digest()
            self.impl.append(ans)
            self.ops.append("update_meta")
            await self.notify()
            await self.coro_op("revert_optional", lambda: revert_optional_steps(wf, SilentReporter()))
        await self.simple("delete_detached", lambda: wf.delete_detached())
        wf.to_be_deleted.clear()
        await self.simple("clear_queue", lambda: None)

    async def cycle_via_detached(self):
        """S builds o, T turns o into f; the plan runs again and only re-declares S, so T and f stay
        behind detached; S then amends f as an input: a dependency cycle through detached nodes, which
        must be rejected."""
        r, wf = self.r, self.wf
        running = await self.q(lambda: self.steps(StepState.RUNNING))
        if "./plan.py" not in running:
            return
        o, f = r.sample(PATHS, 2)
        for args in (("S", [], [o], Need.DEFAULT), ("T", [o], [f], Need.DEFAULT)):
            if not (await self.define_explicit("./plan.py", *args)).startswith("ok"):
                return
        await self.complete_ok("./plan.py")
        for label in ("S", "T"):
            if not await self.pop_until(label, limit=3):
                return
            await self.complete_ok(label)
        await self.step_op("mark_pending", "./plan.py", fn=lambda: wf.mark_step_pending(wf.find(Step, "./plan.py")))
        await self.step_op("delete_hash", "./plan.py", fn=lambda: wf.find(Step, "./plan.py").delete_hash())
        if not await self.pop_until("./plan.py", limit=3):
            return
        await self.step_op("reset_rerun", "./plan.py", fn=lambda: wf.find(Step, "./plan.py").reset_for_rerun())
        if not (await self.define_explicit("./plan.py", "S", [], [o], Need.DEFAULT)).startswith("ok"):
            return
        await self.step_op("mark_pending", "S", fn=lambda: wf.mark_step_pending(wf.find(Step, "S")))
        await self.step_op("delete_hash", "S", fn=lambda: wf.find(Step, "S").delete_hash())
        if not await self.pop_until("S", limit=3):
            return
        await self.step_op("reset_rerun", "S", fn=lambda: wf.find(Step, "S").reset_for_rerun())

        def fn():
            return wf.amend_step(wf.find(Step, "S"), inp_paths=[f], ran_concurrently=lambda p, c: False)

        def res_(v):
            un, uf, chk = v
            return f"{hexlist(sorted(str(x) for x in un))}|{hexlist(sorted(str(x) for x in uf))}|{hexlist(sorted(chk))}"

        await self.tx(f"k amend {kkey('step', 'S')} {hexlist([f])} . . . .", fn, res_)
        if r.random() < 0.5:
            await self.define_explicit("./plan.py", "T", [o], [f], Need.DEFAULT)
        for _ in range(2):
            await self.pop()

    async def retarget_optional(self):
        """An OPTIONAL step is built because its output is named as a target; the next director is
        started with other targets (or none): the step must no longer count as needed."""
        r, wf = self.r, self.wf
        running = await self.q(lambda: self.steps(StepState.RUNNING))
        if "./plan.py" not in running:
            return
        x, y = r.sample(PATHS, 2)
        for args in (("extra", [], [x], Need.OPTIONAL), ("main", [], [y], Need.DEFAULT)):
            if not (await self.define_explicit("./plan.py", *args)).startswith("ok"):
                return
        await self.complete_ok("./plan.py")
        await self.restart(force_targets=([x], []))
        for label in ("extra", "main"):
            if await self.pop_until(label, limit=3):
                await self.complete_ok(label)
        await self.restart(force_targets=r.choice([([], []), ([y], [])]))
        await self.end_phase()
        for _ in range(2):
            await self.pop()

    async def dir_target_bounds(self):
        """A directory target next to outputs whose labels are the bounds of its label range and near misses
        (`d0` is the exclusive upper bound of `d/`, `d.txt` and `d-x` share the name prefix): only the producers of
        what lies under the directory are needed."""
        r, wf = self.r, self.wf
        running = await self.q(lambda: self.steps(StepState.RUNNING))
        if "./plan.py" not in running:
            return
        d = r.choice(["d", "out", "d2"])
        inside = {"d": "d/c.txt", "out": "out/x", "d2": "d2/f.txt"}[d]
        outs = [inside, d + "0", d + ".txt", d + "-x", d + "0/z.txt"]
        r.shuffle(outs)
        for i, o in enumerate(outs[:r.randint(3, 5)]):
            need = Need.DEFAULT if r.random() < 0.8 else Need.OPTIONAL
            if not (await self.define_explicit("./plan.py", f"mk{i}", [], [o], need)).startswith("ok"):
                return
        await self.complete_ok("./plan.py")
        await self.restart(force_targets=([], [d + "/"]))
        for _ in range(r.randint(2, 6)):
            await self.pop()
        await self.end_phase()

    async def restart(self, force_targets=None):
        """What a new director does with the stored workflow before its first dispatch: a new
        `Workflow` (consistency check with repair) and `Scheduler` on the same database, possibly
        with other targets, interrupted steps reset, environment rescanned, targets reconciled."""
        import os

        from stepup.core.scheduler import Scheduler
        from stepup.core.startup import rescan_env_vars, reset_interrupted_steps
        from stepup.core.workflow import Workflow

        r = self.r
        old = self.wf
        if force_targets is not None or r.random() < 0.35:
            targets = r.sample(PATHS, r.choice([0, 0, 1, 2]))
            tdirs = [d.rstrip("/") + "/" for d in r.sample(DIRS[:4], r.choice([0, 0, 0, 1]))]
            # the project root as the directory target, now and then (no extra draw: the stream of every
            # existing case stays what it was)
            tdirs = ["./" if d == "d2/" and i_case_parity(self) else d for d in tdirs]
            if force_targets is not None:
                targets, tdirs = list(force_targets[0]), list(force_targets[1])
            self.targets, self.tdirs = targets, tdirs
            self.lines.append(f"k retarget {hexlist(sorted(targets))} {hexlist(sorted(tdirs))}")
            async with old.db:
                self.impl.append("ok - " + self._digest())
            self.ops.append("retarget")
            await self.notify()
        wf = Workflow(old.db, dir_queue=None, defer_cap=self.cap, targets=self.targets, target_dirs=self.tdirs)
        implkit.WATCHDOGS[id(wf)] = implkit.WATCHDOGS[id(old)]
        self.wf = wf
        await self.coro_op("check_consistency", lambda: wf.initialize())
        sched = Scheduler(wf, db=old.db)
        await sched.initialize(self.res_spec)
        self.sched = sched
        await self.coro_op("reset_interrupted", lambda: reset_interrupted_steps(wf, SilentReporter()))
        if r.random() < 0.5:
            name = r.choice(ENVS)
            if name in self.env and r.random() < 0.5:
                del self.env[name]
                os.environ.pop(name, None)
            else:
                self.env[name] = r.choice(["x", "y", "z"])
                os.environ[name] = self.env[name]
            self.lines.append(f"k setenv {pairs_tok(self.env)}")
            async with wf.db:
                self.impl.append("ok - " + self._digest())
            self.ops.append("setenv")
            await self.notify()
            await self.coro_op("rescan_env", lambda: rescan_env_vars(wf, SilentReporter()))
        ans = await self.tx("k reconcile", lambda: wf.reconcile_targets())
        if not ans.startswith("ok"):
            # The director refuses to start with these targets: the user starts it again without.
            self.targets = []
            self.lines.append(f"k retarget . {hexlist(sorted(self.tdirs))}")
            async with wf.db:
                self.impl.append("ok - " + self._digest())
            self.ops.append("retarget")
            await self.notify()
            wf = Workflow(old.db, dir_queue=None, defer_cap=self.cap, targets=(), target_dirs=self.tdirs)
            implkit.WATCHDOGS[id(wf)] = implkit.WATCHDOGS[id(old)]
            self.wf = wf
            await self.coro_op("check_consistency", lambda: wf.initialize())
            self.sched = Scheduler(wf, db=old.db)
            await self.sched.initialize(self.res_spec)
            await self.tx("k reconcile", lambda: wf.reconcile_targets())

    SCENARIOS = ("nested_chain", "deferred_wakeup", "resource_race", "detached_completion", "rerole",
                 "amended_consumer_rerun", "hold_recycle", "shrink_resources", "retarget_optional", "cycle_via_detached",
                 "hold_running_recycled", "deferred_on_detached_input", "plan_need_demotion", "duplicate_definition",
                 "self_define_detached", "dir_target_bounds", "rerole_same_step")

    async def generate(self, cm, nops: int, scenario: str | None = None):
        """A history: boot, then (in the well-formed stream) one directed scenario with probability
        0.64 or the one asked for, then `nops` random requests."""
        r = self.r
        await self.reset(cm)
        await self.define(boot=True)
        await self.pop()
        if scenario is not None:
            await getattr(self, scenario)()
        elif not self.exotic:
            k = r.random()
            if k < 0.2:
                await self.nested_chain()
            elif k < 0.3:
                await self.deferred_wakeup()
            elif k < 0.38:
                await self.resource_race()
            elif k < 0.46:
                await self.detached_completion()
            elif k < 0.52:
                await self.rerole()
            elif k < 0.58:
                await self.amended_consumer_rerun()
            elif k < 0.64:
                await self.hold_recycle()
            elif k < 0.68:
                await self.shrink_resources()
            elif k < 0.72:
                await self.retarget_optional()
            elif k < 0.76:
                await self.cycle_via_detached()
            elif k < 0.80:
                await self.hold_running_recycled()
            elif k < 0.84:
                await self.deferred_on_detached_input()
            elif k < 0.88:
                await self.plan_need_demotion()
        menu = [(self.define, 20), (self.static, 8), (self.declstatic, 5), (self.tree, 4), (self.nglob, 4),
                (self.amend, 8), (self.recycle_under_glob, 3),
                (self.confirm, 12), (self.external, 6), (self.pop, 18), (self.run_step, 18),
                (self.reset_rerun, 3), (self.hold_release, 5), (self.mark_pending, 2), (self.end_phase, 3),
                (self.restart, 3)]
        if self.exotic:
            menu.append((self.detach_any, 2))
        fns = [f for f, w in menu for _ in range(w)]
        for _ in range(nops):
            await r.choice(fns)()


async def run_scenarios(ctx, observer_factory, scenarios, *, quick=8, thorough=120, nops=25, salt="scenario"):
    """Directed part of a property's oracle: each named scenario `quick`/`thorough` times, followed
    by a short random tail, with the property's observer on the real database; the histories are
    also compared with the model (a disagreement is reported like any other)."""
    import contextlib

    import common

    n = quick if ctx.tier == "quick" else thorough
    for name in scenarios:
        for i in range(n):
            r = ctx.rng(salt, name, i)
            run_ = KernelRun(r, exotic=False)
            run_.observers = [observer_factory(ctx, run_)]
            async with contextlib.AsyncExitStack() as cm:
                await run_.generate(cm, nops, scenario=name)
            ctx.stats.count("scenario:" + name)
            bad = compare(run_, common.run_driver(run_.lines))
            ctx.stats.evaluations += len(run_.lines)
            if bad is not None:
                import kcorr

                ctx.disagree("kernel:scenario:" + name,
                             {"scenario": [name, i], "request_index": bad,
                              "requests": [kcorr.decode_line(x) for x in run_.lines[: bad + 1]][-12:],
                              "protocol_lines": run_.lines[: bad + 1]}, "model", run_.impl[bad])


class SilentReporter:
    """Stands in for `ReporterClient`: the report lines are not part of the kernel state."""

    async def __call__(self, *args, **kwargs):
        return None


async def run_sequence(r, nops: int, exotic: bool = False, keep_dumps: bool = False) -> KernelRun:
    import contextlib

    run = KernelRun(r, exotic=exotic)
    run.keep_dumps = keep_dumps
    async with contextlib.AsyncExitStack() as cm:
        await run.generate(cm, nops)
        run.final_dump = await run.dump()
    return run


def compare(run: KernelRun, answers: list[str]):
    """Index and details of the first request on which model and implementation differ."""
    for i, (a, b) in enumerate(zip(answers, run.impl)):
        if a != b:
            return i
    return None
