"""Implementation-side oracles on the real workflow database (independent of the Lean model).

Each function loads the tables into plain Python structures and decides one family of
invariants from their definitions; it returns a list of human-readable violations.
"""

from __future__ import annotations

import re

from stepup.core.enums import FILE_ROLE_BY_STATE, FileRole, FileState, Need, StepState

ACTIVE = (StepState.RUNNING.value, StepState.SUCCEEDED.value)


class Snapshot:
    """The tables of one database state, by node id."""

    def __init__(self, wf):
        db = wf.db
        self.nodes = {i: (kind, label, creator, bool(det))
                      for i, kind, label, creator, det in db.execute("SELECT i, kind, label, creator, detached FROM node")}
        self.files = {n: (st, h) for n, st, h in db.execute("SELECT node, state, hash FROM file")}
        cols = ("node, state, need, deferred, defer_count, _holding, _safe, _safe_ignoring_hold, _implied_need, "
                "_has_hash, _ready, _check_safe, _check_after, _check_ready")
        self.steps = {row[0]: dict(zip(cols.split(", ")[1:], row[1:])) for row in db.execute(f"SELECT {cols} FROM step")}
        self.hashes = {n for (n,) in db.execute("SELECT node FROM step_hash")}
        self.deps = [(i, s, k) for i, s, k in db.execute("SELECT i, source, sink FROM dependency")]
        self.dyn = {i for (i,) in db.execute("SELECT i FROM dynamic_dep")}
        self.nglobs = [(n, pat, rx) for n, pat, rx in db.execute("SELECT node, pattern, regex FROM nglob")]
        self.resources = {}
        for n, name, units in db.execute("SELECT node, name, units FROM step_resource"):
            self.resources.setdefault(n, {})[name] = units
        self.avail = dict(db.execute("SELECT name, units FROM available_resource")) \
            if db.execute("SELECT 1 FROM sqlite_temp_master WHERE name = 'available_resource'").fetchone() else None
        self.targets = {str(p) for p in wf.targets}
        self.target_dirs = {str(p) for p in wf.target_dirs}
        self.root = next(i for i, n in self.nodes.items() if n[0] == "root")

    def key(self, i):
        kind, label = self.nodes[i][:2]
        return f"{kind}:{label}"

    def sources(self, i):
        return [(d, s) for d, s, k in self.deps if k == i]

    def sinks(self, i):
        return [(d, k) for d, s, k in self.deps if s == i]


def reachable_from_root(sn: Snapshot) -> set[int]:
    children = {}
    for i, (_, _, creator, _) in sn.nodes.items():
        if creator is not None and creator != i:
            children.setdefault(creator, []).append(i)
    seen, todo = {sn.root}, [sn.root]
    while todo:
        for c in children.get(todo.pop(), []):
            if c not in seen:
                seen.add(c)
                todo.append(c)
    return seen


CREATOR_KINDS = {"file": {"step", "st", "root"}, "step": {"step", "root"}, "st": {"step"}}
DEP_KINDS = {("file", "step"), ("step", "file"), ("st", "file")}


def graph_invariants(sn: Snapshot) -> list[str]:
    """I1-I3, I7 of DESIGN section 9/C09."""
    bad = []
    reach = reachable_from_root(sn)
    for i, (kind, label, creator, det) in sn.nodes.items():
        if det == (i in reach):
            bad.append(f"I1 detached={det} but reachable-from-root={i in reach}: {sn.key(i)}")
        if kind != "root" and creator is not None:
            if creator not in sn.nodes:
                bad.append(f"I2 dangling creator: {sn.key(i)}")
            elif sn.nodes[creator][0] not in CREATOR_KINDS.get(kind, set()):
                bad.append(f"I2 creator kind {sn.nodes[creator][0]} -> {kind}: {sn.key(i)}")
        if kind == "file":
            if i not in sn.files:
                bad.append(f"I7 file node without file row: {sn.key(i)}")
            elif sn.files[i][0] == FileState.UNDECLARED.value and not det:
                bad.append(f"I3 UNDECLARED file is attached: {sn.key(i)}")
        if kind == "step" and i not in sn.steps:
            bad.append(f"I7 step node without step row: {sn.key(i)}")
    adj = {}
    for d, s, k in sn.deps:
        if s not in sn.nodes or k not in sn.nodes:
            bad.append(f"I2 dangling dependency {d}")
            continue
        if (sn.nodes[s][0], sn.nodes[k][0]) not in DEP_KINDS:
            bad.append(f"I2 dependency kinds {sn.key(s)} -> {sn.key(k)}")
        adj.setdefault(s, []).append(k)
    for d in sn.dyn:
        if d not in {x for x, _, _ in sn.deps}:
            bad.append(f"I7 dynamic_dep row {d} without dependency")
    # acyclicity (iterative DFS with colours)
    colour = {}
    for start in adj:
        if start in colour:
            continue
        stack = [(start, iter(adj.get(start, [])))]
        colour[start] = 1
        while stack:
            node, it = stack[-1]
            nxt = next(it, None)
            if nxt is None:
                colour[node] = 2
                stack.pop()
            elif colour.get(nxt) == 1:
                bad.append(f"I2 dependency cycle through {sn.key(nxt)}")
                stack.clear()
            elif nxt not in colour:
                colour[nxt] = 1
                stack.append((nxt, iter(adj.get(nxt, []))))
    # creator chains of all nodes are acyclic (no cycle cut off from the root)
    for i in sn.nodes:
        seen = set()
        cur = i
        while cur is not None and cur != sn.root:
            if cur in seen:
                bad.append(f"I2 creator cycle through {sn.key(cur)}")
                break
            seen.add(cur)
            cur = sn.nodes[cur][2]
    return bad


HASHED = {FileState.CONFIRMED.value, FileState.BUILT.value, FileState.OUTDATED.value}
UNHASHED = {FileState.MISSING.value, FileState.PLANNED.value, FileState.VOLATILE.value}


def state_invariants(sn: Snapshot) -> list[str]:
    """I5 of DESIGN section 9/C09."""
    bad = []
    for i, (st, h) in sn.files.items():
        if st in HASHED and h is None:
            bad.append(f"I5 {FileState(st).name} file without hash: {sn.key(i)}")
        if st in UNHASHED and h is not None:
            bad.append(f"I5 {FileState(st).name} file with a hash: {sn.key(i)}")
    for i, s in sn.steps.items():
        if bool(s["_has_hash"]) != (i in sn.hashes):
            bad.append(f"I5 _has_hash={s['_has_hash']} but step_hash row present={i in sn.hashes}: {sn.key(i)}")
        if s["deferred"] and s["state"] != StepState.PENDING.value:
            bad.append(f"I5 deferred step is {StepState(s['state']).name}: {sn.key(i)}")
        if s["_safe_ignoring_hold"] < s["_safe"]:
            bad.append(f"I5 _safe_ignoring_hold < _safe: {sn.key(i)}")
        if s["_holding"] > 0 and s["state"] != StepState.RUNNING.value:
            bad.append(f"I5 holding step is {StepState(s['state']).name}: {sn.key(i)}")
        if s["state"] in (StepState.RUNNING.value, StepState.FAILED.value) and i in sn.hashes:
            bad.append(f"I5 {StepState(s['state']).name} step has a stored hash: {sn.key(i)}")
    return bad


def succeeded_outputs(sn: Snapshot) -> list[str]:
    """I4 in the form `Workflow._check_consistency` tests it at every restart: an attached output of a
    SUCCEEDED step is BUILT or VOLATILE."""
    bad = []
    ok = (FileState.BUILT.value, FileState.VOLATILE.value)
    for i, s in sn.steps.items():
        if s["state"] != StepState.SUCCEEDED.value:
            continue
        for _, f in sn.sinks(i):
            if f in sn.files and not sn.nodes[f][3] and sn.files[f][0] not in ok:
                bad.append(f"I4 {FileState(sn.files[f][0]).name} output of the SUCCEEDED step {sn.key(i)}: {sn.key(f)}")
    return bad


def declaration_recorded(sn: Snapshot, line: str) -> list[str]:
    """After an ACCEPTED `k define ...` request: the database records what was declared: the step
    exists and is attached, every declared output is an attached file in the OUTPUT role created by
    the step, every declared volatile output one in the VOLATILE role, and the stored resource
    requirement is the declared one."""
    from common import unhexlist, unhexs

    t = line.split(" ")
    cmd, wd = unhexs(t[3]), unhexs(t[4])
    label = cmd if wd == "." else f"{cmd}  # wd={wd}"
    outs, vols = sorted(set(unhexlist(t[7]))), sorted(set(unhexlist(t[8])))
    declared_res = {} if t[12] == "." else {unhexs(a): int(b) for a, b in (e.split("=") for e in t[12].split(","))}
    step = next((j for j, n in sn.nodes.items() if n[0] == "step" and n[1] == label), None)
    bad = []
    if step is None or sn.nodes[step][3]:
        return [f"C08 accepted definition of {label} left no attached step"]
    by_label = {n[1]: j for j, n in sn.nodes.items() if n[0] == "file"}
    for paths, role in ((outs, FileRole.OUTPUT), (vols, FileRole.VOLATILE)):
        for p in paths:
            f = by_label.get(p)
            if f is None or sn.nodes[f][3] or f not in sn.files:
                bad.append(f"C08 declared {role.name} {p} of {label} is not an attached file")
                continue
            stored = FILE_ROLE_BY_STATE.get(FileState(sn.files[f][0]))
            if stored != role:
                bad.append(f"C08 {p} was declared {role.name} by {label} but is recorded as "
                           f"{FileState(sn.files[f][0]).name}")
            elif sn.nodes[f][2] != step:
                bad.append(f"C08 {p} was declared by {label} but is owned by {sn.key(sn.nodes[f][2]) if sn.nodes[f][2] else None}")
    if sn.resources.get(step, {}) != declared_res:
        bad.append(f"C12 {label} was defined with resources {declared_res}, the stored requirement is "
                   f"{sn.resources.get(step, {})}")
    return bad


def ownership_invariants(sn: Snapshot) -> list[str]:
    """C08: one owner per path, trees own what is beneath them, globs match no product."""
    bad = []
    trees = [(i, n[1]) for i, n in sn.nodes.items() if n[0] == "st" and not n[3]]
    for a, la in trees:
        for b, lb in trees:
            if a != b and lb.startswith(la):
                bad.append(f"C08 nested static trees: {la} contains {lb}")
    boot = [i for i, n in sn.nodes.items() if n[0] == "step" and n[2] == sn.root]
    if len(boot) > 1:
        bad.append(f"C08 more than one boot step: {[sn.key(i) for i in boot]}")
    for i, (kind, label, creator, det) in sn.nodes.items():
        if kind != "file" or det or i not in sn.files:
            continue
        st = sn.files[i][0]
        role = FILE_ROLE_BY_STATE.get(FileState(st))
        if role is None:
            bad.append(f"C08 attached file without a role: {label}")
            continue
        if creator is None or creator not in sn.nodes:
            bad.append(f"C08 attached file without creator: {label}")
            continue
        owners = [t for t, tl in trees if label.startswith(tl)]
        if owners and creator not in owners:
            bad.append(f"C08 file under static tree {sn.nodes[owners[0]][1]} is owned by {sn.key(creator)}: {label}")
        if role in (FileRole.OUTPUT, FileRole.VOLATILE):
            if sn.nodes[creator][0] != "step":
                bad.append(f"C08 product owned by a non-step: {label}")
            for n, pat, rx in sn.nglobs:
                if not sn.nodes[n][3] and re.compile(rx).fullmatch(label):
                    bad.append(f"C08 glob ({pat}) of {sn.key(n)} matches product {label}")
            producers = [s for d, s in sn.sources(i) if sn.nodes[s][0] == "step"]
            if producers != [creator]:
                bad.append(f"C08 product {label} created by {sn.key(creator)} but built by "
                           f"{[sn.key(p) for p in producers]}")
    return bad


# ---------------------------------------------------------------------------------------------
# Scheduling specifications (C10, C11, C12), computed from scratch
# ---------------------------------------------------------------------------------------------


def creator_chain_steps(sn: Snapshot, i: int):
    """The step ancestors of node i along creator links, nearest first (stops at the root)."""
    out, cur, seen = [], sn.nodes[i][2], set()
    while cur is not None and cur != sn.root and cur not in seen:
        seen.add(cur)
        if sn.nodes[cur][0] == "step":
            out.append(cur)
        cur = sn.nodes[cur][2]
    return out


def safe_spec(sn: Snapshot, i: int, ignore_hold: bool) -> bool:
    for a in creator_chain_steps(sn, i):
        s = sn.steps[a]
        if s["state"] not in ACTIVE:
            return False
        if not ignore_hold and s["_holding"] != 0:
            return False
    return True


def input_blocks(sn: Snapshot, dep_i: int, src: int) -> bool:
    """An input blocks its consumer: volatile; amended and attached but not yet (re)built;
    declared up front and not an available file."""
    st = sn.files[src][0]
    det = sn.nodes[src][3]
    if st == FileState.VOLATILE.value:
        return True
    if dep_i in sn.dyn:
        return (not det) and st in (FileState.PLANNED.value, FileState.OUTDATED.value)
    return det or st not in (FileState.BUILT.value, FileState.CONFIRMED.value)


def ready_spec(sn: Snapshot, i: int) -> bool:
    return not any(input_blocks(sn, d, s) for d, s in sn.sources(i) if sn.nodes[s][0] == "file")


def implied_need_spec(sn: Snapshot) -> dict[int, int]:
    """The need implied by declared need, targets and attached consumers, for attached steps."""
    memo: dict[int, int] = {}

    def regular_outputs(i):
        return [sn.nodes[k][1] for d, k in sn.sinks(i)
                if sn.nodes[k][0] == "file" and not sn.nodes[k][3] and sn.files[k][0] != FileState.VOLATILE.value]

    def need(i, stack=()):
        if i in memo:
            return memo[i]
        if i in stack:
            return Need.OPTIONAL.value
        s = sn.steps[i]
        val = s["need"]
        outs = regular_outputs(i)
        if any(o in sn.targets for o in outs):
            val = max(val, Need.TARGET.value)
        elif s["need"] == Need.DEFAULT.value and any(d == "./" or o.startswith(d) for o in outs for d in sn.target_dirs):
            # (the project root, spelled "./" as a directory target, contains every label)
            val = max(val, Need.TARGET.value)
        for _, f in sn.sinks(i):
            for _, c in sn.sinks(f):
                if sn.nodes[c][0] == "step" and not sn.nodes[c][3]:
                    val = max(val, need(c, stack + (i,)))
        memo[i] = val
        return val

    for i, n in sn.nodes.items():
        if n[0] == "step" and not n[3] and i in sn.steps:
            need(i)
    return memo


def resources_free(sn: Snapshot, i: int) -> bool:
    if sn.avail is None:
        return True
    for name, units in sn.resources.get(i, {}).items():
        if name not in sn.avail:
            return False
        used = sum(r.get(name, 0) for j, r in sn.resources.items()
                   if j in sn.steps and sn.steps[j]["state"] == StepState.RUNNING.value)
        if sn.avail[name] - used < units:
            return False
    return True


def has_unavailable_dynamic_input(sn: Snapshot, i: int) -> bool:
    """`Step.has_unavailable_dynamic_input`, the condition under which a step is deferred."""
    ok = (FileState.CONFIRMED.value, FileState.BUILT.value)
    return any(d in sn.dyn and src in sn.files and sn.files[src][0] not in ok for d, src in sn.sources(i))


def stale_deferred(sn: Snapshot, threshold: int) -> set[int]:
    """Deferred steps whose reason is gone (no dynamic input is unavailable) and that satisfy every
    other dispatch condition: nothing will ever wake them up, they are starved."""
    return {i for i in eligible_spec(sn, threshold, ignore_deferred=True)
            if sn.steps[i]["deferred"] and not has_unavailable_dynamic_input(sn, i)}


def eligible_spec(sn: Snapshot, threshold: int, ignore_deferred: bool = False) -> set[int]:
    """The steps that may be dispatched now, from the definition (C10)."""
    needs = implied_need_spec(sn)
    out = set()
    for i, n in sn.nodes.items():
        if n[0] != "step" or n[3] or i not in sn.steps:
            continue
        s = sn.steps[i]
        if s["state"] != StepState.PENDING.value or (s["deferred"] and not ignore_deferred):
            continue
        if needs[i] <= max(threshold, Need.OPTIONAL.value):
            continue
        if not ready_spec(sn, i):
            continue
        has_hash = i in sn.hashes
        if not (safe_spec(sn, i, False) or (has_hash and safe_spec(sn, i, True))):
            continue
        if not (has_hash or resources_free(sn, i)):
            continue
        out.add(i)
    return out


def resource_invariants(sn: Snapshot) -> list[str]:
    """C12: RUNNING steps never hold more than what is available, nor an undefined resource."""
    bad = []
    if sn.avail is None:
        return bad
    used: dict[str, int] = {}
    for i, s in sn.steps.items():
        if s["state"] == StepState.RUNNING.value:
            for name, units in sn.resources.get(i, {}).items():
                used[name] = used.get(name, 0) + units
                if name not in sn.avail:
                    bad.append(f"C12 RUNNING step requires undefined resource {name}: {sn.key(i)}")
    for name, u in used.items():
        if name in sn.avail and u > sn.avail[name]:
            bad.append(f"C12 RUNNING steps hold {u} of {sn.avail[name]} units of {name}")
    return bad


def cache_invariants(sn: Snapshot) -> list[str]:
    """CacheInv of DESIGN 9/C10: every stale cached scheduling column is covered by a flag that
    makes the next metadata refresh recompute it (attached steps only)."""
    bad = []
    needs = implied_need_spec(sn)

    def downstream_flagged(i, seen):
        if i in seen:
            return False
        seen.add(i)
        if sn.steps[i]["_check_after"]:
            return True
        for _, f in sn.sinks(i):
            for _, c in sn.sinks(f):
                if sn.nodes[c][0] == "step" and not sn.nodes[c][3] and c in sn.steps and downstream_flagged(c, seen):
                    return True
        return False

    for i, n in sn.nodes.items():
        if n[0] != "step" or n[3] or i not in sn.steps:
            continue
        s = sn.steps[i]
        if not s["_check_ready"] and bool(s["_ready"]) != ready_spec(sn, i):
            bad.append(f"CacheInv _ready={s['_ready']} of '{n[1]}' differs from its definition and _check_ready is clear")
        stale_safe = (bool(s["_safe"]) != safe_spec(sn, i, False)
                      or bool(s["_safe_ignoring_hold"]) != safe_spec(sn, i, True))
        if stale_safe:
            chain = [i] + creator_chain_steps(sn, i)
            if not any(sn.steps[a]["_check_safe"] for a in chain if a in sn.steps):
                bad.append(f"CacheInv _safe/_safe_ignoring_hold of '{n[1]}' differ from their definitions and no "
                           f"step of its creator chain is flagged _check_safe")
        if s["_implied_need"] != needs[i] and not downstream_flagged(i, set()):
            bad.append(f"CacheInv _implied_need={s['_implied_need']} of '{n[1]}' differs from its definition "
                       f"{needs[i]} and no step downstream is flagged _check_after")
    return bad
