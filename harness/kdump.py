"""Canonical dump of the real workflow database, in the format of `lean/StepupModel/K/Dump.lean`.

Node ids never appear: nodes are identified by `kind:hex(label)`, rows are sorted, file hashes and
step hashes are mapped to the small integer tokens the harness created them from.
"""

from __future__ import annotations

import json

from common import hexlist, hexs

from stepup.core.enums import FileState, Need, StepState
from stepup.core.hash import FileHash, StepHash

FNV_OFFSET = 14695981039346656037
FNV_PRIME = 1099511628211
MASK = (1 << 64) - 1


def fnv1a(text: str) -> int:
    h = FNV_OFFSET
    for b in text.encode("utf-8", "surrogatepass"):
        h = ((h ^ b) * FNV_PRIME) & MASK
    return h


def key(kind: str, label: str) -> str:
    return f"{kind}:{hexs(label)}"


def file_token(tok: int) -> FileHash:
    """The FileHash that stands for token `tok` (content identity)."""
    digest = tok.to_bytes(32, "big")
    return FileHash(digest, 0o100644, 1000.0 + tok, 10 + tok, 7)


def token_of_file_hash(hash_json: str | None) -> str:
    if hash_json is None:
        return "~"
    fh = FileHash.from_json(hash_json)
    if fh.is_unknown:
        return "~"
    return str(int.from_bytes(fh.digest, "big"))


def step_token(tok: int) -> StepHash:
    return StepHash(tok.to_bytes(32, "big"), None, (tok + 1).to_bytes(32, "big"), None)


def token_of_step_hash(hash_json: str | None) -> str:
    if hash_json is None:
        return "~"
    sh = StepHash.from_json(hash_json)
    return str(int.from_bytes(sh.inp_digest, "big"))


def b01(x) -> str:
    return "1" if x else "0"


def dump_lines(wf) -> list[str]:
    db = wf.db
    nodes = {}
    for i, kind, label, creator, detached in db.execute("SELECT i, kind, label, creator, detached FROM node"):
        nodes[i] = (kind, label, creator, detached)
    lines = []
    files = {n: (st, h) for n, st, h in db.execute("SELECT node, state, hash FROM file")}
    steps = {}
    cols = ("node, state, need, deferred, defer_count, _holding, shell, _safe, _check_safe, _safe_ignoring_hold, "
            "_implied_need, _tail_time, _check_after, _has_hash, _ready, _check_ready, env_overrides")
    for row in db.execute(f"SELECT {cols} FROM step"):
        steps[row[0]] = row[1:]
    hashes = dict(db.execute("SELECT node, hash FROM step_hash"))
    envs: dict[int, list] = {}
    for n, name, value, dyn in db.execute("SELECT node, name, value, dynamic FROM env_var"):
        envs.setdefault(n, []).append(f"{hexs(name)}={'~' if value is None else hexs(value)}:{b01(dyn)}")
    res: dict[int, list] = {}
    for n, name, units in db.execute("SELECT node, name, units FROM step_resource"):
        res.setdefault(n, []).append(f"{hexs(name)}={units}")
    ngs: dict[int, list] = {}
    for n, pattern, data in db.execute("SELECT node, pattern, data FROM nglob ORDER BY i"):
        from stepup.core.cattrs import json_converter
        from stepup.core.nglob import NamedGlob

        ng = json_converter.structure(json.loads(data), NamedGlob)
        ngs.setdefault(n, []).append(f"{hexs(pattern)}:{hexlist(sorted(str(p) for p in ng.files()))}")
    for i, (kind, label, creator, detached) in nodes.items():
        ck = "~" if creator is None else key(nodes[creator][0], nodes[creator][1])
        head = f"N {key(kind, label)} creator={ck} det={b01(detached)}"
        if kind == "file":
            if i not in files:
                head += " NOFILEROW"
            else:
                st, h = files[i]
                head += f" st={FileState(st).name} h={token_of_file_hash(h)}"
        elif kind == "step":
            if i not in steps:
                head += " NOSTEPROW"
            else:
                (st, need, deferred, dc, hold, shell, safe, csafe, snh, ineed, tail, cafter, hh, ready, cready,
                 ovr) = steps[i]
                ovr_items = sorted(f"{hexs(k)}={hexs(v)}" for k, v in (json.loads(ovr).items() if ovr else []))
                tail_s = str(int(tail)) if float(tail).is_integer() else repr(tail)
                head += (f" st={StepState(st).name} need={Need(need).name} def={b01(deferred)} dc={dc} hold={hold}"
                         f" sh={b01(shell)} safe={b01(safe)} csafe={b01(csafe)} snh={b01(snh)} ineed={Need(ineed).name}"
                         f" tail={tail_s} cafter={b01(cafter)} hh={b01(hh)} ready={b01(ready)} cready={b01(cready)}"
                         f" hash={token_of_step_hash(hashes.get(i))} env=[{','.join(sorted(envs.get(i, [])))}]"
                         f" res=[{','.join(sorted(res.get(i, [])))}] ovr=[{','.join(ovr_items)}]"
                         f" ng=[{';'.join(sorted(ngs.get(i, [])))}]")
        lines.append(head)
    lines.sort()
    dyn = {i for (i,) in db.execute("SELECT i FROM dynamic_dep")}
    deps = []
    for i, src, snk in db.execute("SELECT i, source, sink FROM dependency"):
        deps.append(f"D {key(nodes[src][0], nodes[src][1])} {key(nodes[snk][0], nodes[snk][1])} dyn={b01(i in dyn)}")
    deps.sort()
    tbd = []
    for path, fh in wf.to_be_deleted.items():
        tok = "~" if fh is None else str(int.from_bytes(fh.digest, "big"))
        tbd.append(f"T {hexs(str(path))} {tok}")
    tbd.sort()
    return lines + deps + tbd


def digest(wf) -> str:
    return str(fnv1a("\n".join(dump_lines(wf))))
