"""Regression of the checks against every registered seeded breaking change.

usage: python3 harness/seedall.py [ID-n ...] [-j N]
For each /verif/seeded/<ID>-<n>/patch.diff: a scratch worktree of /repo HEAD with the patch applied
(git apply, 3-way, or patch with fuzz), its own copy of the Lean project, `./check <ID> --tier
quick` against it; the worktree is removed afterwards.  Prints one line per seed and exits 1 when a
seed is not caught.  /repo itself is never modified.
"""

from __future__ import annotations

import concurrent.futures
import json
import os
import shutil
import subprocess
import sys
import time

VERIF = os.path.dirname(os.path.dirname(os.path.abspath(__file__)))
sys.path.insert(0, os.path.join(VERIF, "harness"))
from seedtool import apply_patch, sh  # noqa: E402


def one(name: str):
    pid = name.split("-")[0]
    patch = f"{VERIF}/seeded/{name}/patch.diff"
    wt = f"/tmp/seedall-{name}-{os.getpid()}"
    sh(f"git -C /repo worktree remove --force {wt}")
    shutil.rmtree(wt, ignore_errors=True)
    if sh(f"git -C /repo worktree add {wt} HEAD").returncode != 0:
        return name, "worktree-failed", [], 0.0
    t0 = time.time()
    try:
        if apply_patch(wt, patch).returncode != 0:
            return name, "patch-does-not-apply", [], 0.0
        shutil.copytree(os.environ.get("VERIF_LEAN_SRC", f"{VERIF}/lean"), f"{wt}/_lean", ignore=shutil.ignore_patterns("Audit_*"))
        env = dict(os.environ, VERIF_REPO=wt, VERIF_LEAN_DIR=f"{wt}/_lean", VERIF_WORK=f"{wt}/_work",
                   VERIF_EVIDENCE=f"{wt}/_evidence")
        r = subprocess.run(["./check", pid, "--tier", "quick"], cwd=VERIF, env=env, capture_output=True, text=True)
        sigs = []
        for ln in r.stdout.splitlines():
            if ln.startswith("VIOLATION"):
                path = ln.split("replay=")[1].split(" ")[0]
                try:
                    sigs.append(json.load(open(path)).get("signature", "?"))
                except Exception:
                    sigs.append("?")
        verdict = "caught" if r.returncode == 1 and sigs else f"MISSED(exit {r.returncode})"
        if sigs and all(s == "broken-obligation" for s in sigs):
            verdict = "caught(no-failing-input-found)"
        return name, verdict, sorted(set(sigs))[:4], time.time() - t0
    finally:
        sh(f"git -C /repo worktree remove --force {wt}")
        shutil.rmtree(wt, ignore_errors=True)


def main():
    args = [a for a in sys.argv[1:] if not a.startswith("-")]
    jobs = int(sys.argv[sys.argv.index("-j") + 1]) if "-j" in sys.argv else 4
    if "-j" in sys.argv:
        args = [a for a in args if a != str(jobs)]
    names = args or sorted(d for d in os.listdir(f"{VERIF}/seeded") if os.path.exists(f"{VERIF}/seeded/{d}/patch.diff"))
    missed = 0
    with concurrent.futures.ThreadPoolExecutor(jobs) as pool:
        for name, verdict, sigs, wall in pool.map(one, names):
            print(f"{name:8s} {verdict:32s} {wall:6.1f}s  {', '.join(sigs)}", flush=True)
            missed += verdict.startswith("MISSED") or verdict in ("patch-does-not-apply", "worktree-failed")
    sys.exit(1 if missed else 0)


if __name__ == "__main__":
    main()
