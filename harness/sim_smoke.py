#!/usr/bin/env python3
"""Smoke test of the simulated director (not a property check).

Runs, on the unchanged /repo, in well under a minute:
 (a) a 5-step project to success, printing the graph;
 (b) a no-op rebuild that executes zero commands;
 (c) an edit of one source that rebuilds only its cone;
 (d) two different schedules giving the same canonical graph text;
 (e) a crash after every commit index of a small build, each followed by a restart that reaches
     the same final graph and files as the uninterrupted run;
 (f) a watch-mode rebuild;
plus a few generated histories from projgen. Exit status 0 when everything holds.
"""

from __future__ import annotations

import os
import sys

if __name__ == "__main__" and os.environ.get("PYTHONHASHSEED") != "0":
    # Set iteration order of str sets is part of what the real code does; pin it for replays.
    os.execve(sys.executable, [sys.executable, *sys.argv], {**os.environ, "PYTHONHASHSEED": "0"})

import faulthandler
import random
import time

if __name__ == "__main__":
    faulthandler.dump_traceback_later(110, exit=True)

sys.path.insert(0, os.path.dirname(os.path.abspath(__file__)))

import projgen  # noqa: E402
from simdirector import (  # noqa: E402
    A,
    FifoSchedule,
    LifoSchedule,
    ListSchedule,
    Project,
    RandomSchedule,
    SimDirector,
)

FAILURES: list[str] = []


def check(cond: bool, what: str):
    print(("  ok   " if cond else "  FAIL ") + what)
    if not cond:
        FAILURES.append(what)


def five_steps() -> Project:
    return Project(
        scripts={
            "./plan.py": [
                A.static("src/a.txt", "src/b.txt"),
                A.step("cc a", inp=["src/a.txt"], out=["out/a.o"]),
                A.step("cc b", inp=["src/b.txt"], out=["out/b.o"]),
                A.step("ld", inp=["out/a.o", "out/b.o"], out=["out/prog"]),
                A.step("test", inp=["out/prog"], out=["out/report.txt"], env=["SIM_MODE"]),
            ],
        },
        files={"src/a.txt": "A1\n", "src/b.txt": "B1\n"},
        env={"SIM_MODE": "fast"},
    )


def small() -> Project:
    return Project(
        scripts={
            "./plan.py": [
                A.static("src/a.txt"),
                A.step("gen", inp=["src/a.txt"], out=["out/gen.txt"]),
                A.step("use", inp=["out/gen.txt"], out=["out/use.txt"], vol=["out/use.log"]),
            ],
        },
        files={"src/a.txt": "A1\n"},
    )


def three() -> Project:
    return Project(
        scripts={
            "./plan.py": [
                A.static("src/a.txt", "src/b.txt"),
                A.step("cc a", inp=["src/a.txt"], out=["out/a.o"]),
                A.step("cc b", inp=["src/b.txt"], out=["out/b.o"]),
                A.step("ld", inp=["out/a.o", "out/b.o"], out=["out/prog"]),
            ],
        },
        files={"src/a.txt": "A1\n", "src/b.txt": "B1\n"},
    )


def strip_digests(graph: str) -> str:
    return "\n".join(
        line for line in graph.split("\n") if line[:20].strip() not in ("inp_digest", "out_digest")
    )


def main() -> int:
    t_start = time.perf_counter()
    cwd = os.getcwd()

    print("(a) five steps to success")
    with SimDirector(five_steps(), seed=1) as sim:
        t0 = time.perf_counter()
        first = sim.build(njob=2)
        dt_first = time.perf_counter() - t0
        print(first.graph_canon)
        check(first.ok, f"return code 0 (got {first.status} {first.returncode!r})")
        check(
            sorted(first.commands) == ["./plan.py", "cc a", "cc b", "ld", "test"],
            f"five commands executed: {first.commands}",
        )
        check(first.log == [], "no warnings logged by stepup")
        check(b"SIM_MODE=fast" in first.files["out/report.txt"], "outputs are functions of inputs")

        print("(b) no-op rebuild")
        t0 = time.perf_counter()
        again = sim.build(njob=2)
        dt_noop = time.perf_counter() - t0
        check(again.ok and again.commands == [], f"zero commands executed: {again.commands}")
        check(again.graph_canon == first.graph_canon, "graph text unchanged")
        check(again.file_meta == first.file_meta, "mtime and inode of every file unchanged")

        print("(c) edit one source")
        sim.write("src/a.txt", "A2\n")
        cone = sim.build(njob=2)
        check(cone.ok, "return code 0")
        check(
            sorted(cone.commands) == ["cc a", "ld", "test"],
            f"only the cone of src/a.txt reran: {cone.commands}",
        )
        check(cone.files["out/b.o"] == first.files["out/b.o"], "out/b.o untouched")
        check(cone.files["out/prog"] != first.files["out/prog"], "out/prog changed")

    print("(d) two schedules, one graph")
    results = []
    for njob, schedule in ((1, FifoSchedule()), (3, LifoSchedule()), (2, RandomSchedule(7))):
        with SimDirector(five_steps(), seed=2) as sim:
            results.append(sim.build(njob=njob, schedule=schedule))
    check(all(r.ok for r in results), "all schedules succeed")
    check(len({tuple(r.trace) for r in results}) == 3, "the interleavings differ")
    check(len({r.graph_canon for r in results}) == 1, "same canonical graph text")
    check(len({tuple(sorted(r.files.items())) for r in results}) == 1, "same files")
    with SimDirector(five_steps(), seed=2) as sim:
        replay = sim.build(njob=2, schedule=ListSchedule(results[2].trace))
    check(replay.trace == results[2].trace and replay.graph == results[2].graph, "trace replays")

    print("(e) crash after every commit, then restart")
    for name, make, strict_graph in (("three steps", three, True), ("with volatile", small, False)):
        with SimDirector(make(), seed=3) as sim:
            reference = sim.build(njob=2, schedule=FifoSchedule())
        check(reference.ok, f"{name}: uninterrupted run succeeds with {reference.ncommit} commits")
        bad, digest_only = [], []
        t0 = time.perf_counter()
        for k in range(1, reference.ncommit + 1):
            with SimDirector(make(), seed=3) as sim:
                crashed = sim.build(njob=2, schedule=FifoSchedule(), crash_after_commit=k)
                restart = sim.build(njob=2, schedule=FifoSchedule(), strict=True)
            fine = (
                crashed.status == "crashed"
                and crashed.ncommit == k
                and crashed.post_crash_commits == 0
                and restart.ok
                and restart.files == reference.files
            )
            if fine and restart.graph_canon != reference.graph_canon:
                if strict_graph or strip_digests(restart.graph_canon) != strip_digests(
                    reference.graph_canon
                ):
                    fine = False
                else:
                    digest_only.append(k)
            if not fine:
                bad.append((k, crashed.status, restart.status, restart.returncode, restart.error))
        dt_crash = (time.perf_counter() - t0) / max(1, reference.ncommit)
        check(not bad, f"{name}: {reference.ncommit} crash points all recover: {bad[:3]}")
        if digest_only:
            # Known behaviour of the real code, see notes/simdirector.md ("surprises"): a step
            # that runs while its creator re-runs can be recorded with a step hash that does not
            # cover an input that was UNCONFIRMED at its completion.
            print(f"  note {name}: same graph except step digests after crash points {digest_only}")
    with SimDirector(small(), seed=3) as sim:
        crashed = sim.build(njob=2, crash_in_step=("gen", 1))
        restart = sim.build(njob=2)
    check(
        crashed.status == "crashed" and restart.ok and restart.files == reference.files,
        "kill inside a step, then restart",
    )

    print("(f) watch mode")
    with SimDirector(five_steps(), seed=4) as sim:
        built = sim.build(njob=2, watch=True)
        check(built.ok and built.watching, f"built, now watching {built.watched_dirs}")
        rebuilt = sim.watch_rebuild({"src/b.txt": "B2\n"})
        check(rebuilt.ok and rebuilt.watching, "rebuild phase succeeded")
        check(("UPDATED", "src/b.txt") in rebuilt.tags("UPDATED"), "the watcher saw the edit")
        check(
            sorted(rebuilt.commands) == ["cc b", "ld", "test"],
            f"only the cone of src/b.txt reran: {rebuilt.commands}",
        )
        idle = sim.watch_rebuild({})
        check(idle.ok and idle.commands == [], "rebuild without edits does nothing")
        final = sim.shutdown()
        check(final.status == "done" and not final.watching, "shutdown")
        restarted = sim.build(njob=2)
        check(
            restarted.ok and restarted.commands == [] and restarted.graph_canon == final.graph_canon,
            "restart after the watch session is a no-op",
        )

    print("(g) generated histories")
    t0 = time.perf_counter()
    nbuild = 0
    statuses: dict[str, int] = {}
    for seed in range(12):
        rng = random.Random(seed)
        model = projgen.gen_model(rng)
        history = projgen.gen_history(rng, model, crash_prob=0.2, watch_prob=0.25)
        for result in projgen.run_history(projgen.render(model), history.events, seed=seed):
            nbuild += 1
            statuses[result.status] = statuses.get(result.status, 0) + 1
    dt_hist = time.perf_counter() - t0
    check(
        set(statuses) <= {"done", "crashed"},
        f"{nbuild} build phases of 12 histories: {statuses}",
    )
    _, invalid = projgen.gen_project(5, invalid="conflict")
    with SimDirector(invalid) as sim:
        rejected = sim.build()
    check(
        rejected.status == "done" and not rejected.ok and any(r.rpc_errors for r in rejected.runs),
        "a conflicting output is rejected by the director",
    )

    check(os.getcwd() == cwd, "working directory restored")
    print(
        f"timing: first build {dt_first * 1e3:.0f} ms, no-op rebuild {dt_noop * 1e3:.0f} ms, "
        f"crash+restart {dt_crash * 1e3:.0f} ms per crash point, "
        f"histories {dt_hist / max(1, nbuild) * 1e3:.0f} ms per build phase, "
        f"total {time.perf_counter() - t_start:.1f} s"
    )
    if FAILURES:
        print(f"FAILED: {len(FAILURES)} check(s)")
        return 1
    print("all smoke checks passed")
    return 0


if __name__ == "__main__":
    sys.exit(main())
