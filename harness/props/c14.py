"""C14: a watch-mode rebuild is equivalent to a restart.

Correspondence
  * kernel scopes startup/propagation (what both reactions end in: `update_file_hashes` EXTERNAL,
    `process_nglob_changes` / `persist_nglob_matches`, `reset_interrupted_steps`);
  * the model of `Watcher.record_change` (`c14 fold`): the real coroutine of a real `Watcher` on a real
    `Workflow` (states reached by kernel request sequences: attached files in every state, static trees,
    glob registrations with recorded matches) is driven with generated item sequences (updates,
    deletions, DELETED_PARENT, with and without `during_build`, paths with and without nodes, items
    that cancel each other) and the two sets are compared after every item;
  * the model of what is re-hashed and applied afterwards (`c14 applied`): in simulated sessions the
    calls `get_file_hashes` / `update_file_hashes` / `process_nglob_changes` of the watcher and the
    `update_file_hashes` calls of `startup.rescan_files` are logged (harness-side wrappers) and compared
    with `watchApplied` / `prunedUpdated` / `restartApplied` on the file rows and disk hashes.

Oracle (independent of the model): the property itself.  One project, one edit sequence, two simulated
directors on two copies of the tree with the same schedule: (W) `build(watch=True)`, then
`watch_rebuild(edits)` per round; (R) `build()`, then per round the same edits and a fresh `build()`
(a new director process on the same database).  After every round: outputs on disk, canonical graph and
return code must agree.  Edits: change, delete, delete-then-recreate (same / other content),
change-then-restore, touch, new and removed glob matches, static-tree files, removed / recreated /
moved directories, new directories with and without files, tampered and removed outputs, and edits of
static files made while the previous build phase was still running (`external=`).
"""

from __future__ import annotations

import asyncio
import contextlib
import copy
import json
import os
import re

import common
import kcorr
from common import Finding, hexlist, hexs

from stepup.core.enums import Change, FileState

PID = "C14"
LEVEL = "proof"
ASSUMPTIONS = [
    "completeness and ordering of inotify delivery, watch installation races and event coalescing are runtime "
    "behaviour outside the model; the oracle uses the simulated director's inotify mapping (measured on this kernel)",
    "the translation of inotify events into change items (AsyncInotifyWrapper.change_loop) is executed for real in "
    "the oracle but not modelled in Lean",
    "that the order in which single-file EXTERNAL updates are applied does not matter is decided by the oracle",
    "edits made while a build phase is running are restricted to static files, as the property states",
    "the environment of a watching director is fixed when it starts (environment edits are not part of the property)",
    "what an INCOMPLETE build phase leaves behind depends on the order in which steps were dispatched, which differs "
    "between a watch rebuild and a restart (a restart has extra startup work): the oracle runs with --keep-going, compares "
    "outputs, full graph and return code after every complete phase, and return code plus the states of the attached "
    "nodes after an incomplete one; a phase that drained is compared after the following (settling) rebuild",
    "the session pairs run with one job slot: with more, a pending step can be dispatched while its pending creator "
    "re-runs (known C03/C05 behaviour) and the outcome depends on the moment of dispatch, i.e. on the schedule, which "
    "necessarily differs between a watch rebuild and a restart",
    "edits during a build phase are made in the first phase only, where both directors execute the same code path with "
    "the same schedule, so that the edit falls at the same logical moment in both",
]
SCOPES = {"startup", "propagation"}


# ---------------------------------------------------------------------------------------------
# record_change: real Watcher on real workflows versus the model
# ---------------------------------------------------------------------------------------------

EXTRA_PATHS = ["d/new.txt", "zz.txt", "out/new", "d/sub/h.txt", "new/dir/f.txt", "d/c.txt.bak"]
DIR_ARGS = ["d", "d/sub", "d2", "out", "new", "d/", ".", "", "d/su"]


class SilentReporter:
    def __init__(self):
        self.events = []

    async def __call__(self, tag, text="", pages=None):
        self.events.append((tag, str(text)))


def tables_of(wf, universe):
    """The rows `change_is_relevant` / `relevant_paths_under` read, taken from the tables directly."""
    from stepup.core.cattrs import json_converter
    from stepup.core.nglob import NGLOB_REGEX_FLAGS, NamedGlob

    db = wf.db
    files = [(label, FileState(st).name) for label, st in db.execute(
        "SELECT node.label, file.state FROM node JOIN file ON file.node = node.i "
        "WHERE node.kind = 'file' AND NOT node.detached ORDER BY node.i")]
    matches, regexes = [], []
    for data, regex in db.execute("SELECT nglob.data, nglob.regex FROM nglob JOIN node ON node.i = nglob.node "
                                  "WHERE NOT node.detached ORDER BY nglob.i"):
        ng = json_converter.structure(json.loads(data), NamedGlob)
        matches.extend(str(p) for p in ng.files())
        regexes.append(re.compile(regex, NGLOB_REGEX_FLAGS))
    accepted = [p for p in universe if any(rx.fullmatch(p) for rx in regexes)]
    return files, matches, accepted


def sets_str(w) -> str:
    key = lambda s: s.encode("utf-8", "surrogatepass")  # noqa: E731
    return f"u={hexlist(sorted(w.updated, key=key))}|d={hexlist(sorted(w.deleted, key=key))}"


def gen_events(r, universe, nev):
    evs = []
    for _ in range(nev):
        k = r.random()
        db = r.random() < 0.3
        if k < 0.18:
            evs.append((Change.DELETED_PARENT, r.choice(DIR_ARGS), db))
        elif evs and k < 0.4:
            # an item about a path that already had one: the cancelling sequences
            _, p, _ = r.choice(evs)
            if p in DIR_ARGS and p not in universe:
                p = r.choice(universe)
            evs.append((r.choice([Change.UPDATED, Change.DELETED]), p, db))
        else:
            evs.append((r.choice([Change.UPDATED, Change.DELETED]), r.choice(universe), db))
    return evs


async def fold_correspondence(ctx, nseq: int, nops: int, salt: str):
    import corr_kernel
    from path import Path
    from stepup.core.watcher import Watcher

    universe = corr_kernel.PATHS + EXTRA_PATHS
    lines, expect = [], []
    letter = {Change.UPDATED: "U", Change.DELETED: "D", Change.DELETED_PARENT: "P"}
    for i in range(nseq):
        r = ctx.rng(salt, i)
        run_ = corr_kernel.KernelRun(r, exotic=False)
        fns = [getattr(run_, name) for name, w in (("define", 18), ("static", 10), ("declstatic", 10), ("tree", 6),
                                                  ("nglob", 10), ("amend", 6), ("confirm", 14), ("external", 8),
                                                  ("pop", 14), ("run_step", 14), ("end_phase", 2), ("restart", 2))
               for _ in range(w)]
        async with contextlib.AsyncExitStack() as cm:
            await run_.reset(cm)
            await run_.define(boot=True)
            await run_.pop()
            for k in range(nops):
                await r.choice(fns)()
                if k % 12 != 11 and k != nops - 1:
                    continue
                wf = run_.wf
                async with wf.db:
                    files, matches, accepted = tables_of(wf, universe)
                evs = gen_events(r, universe, r.randint(4, 14))
                watcher = Watcher(workflow=wf, db=wf.db, reporter=SilentReporter(), dir_queue=asyncio.Queue(),
                                  executor=None, hash_queue=None, njob=1)
                outs = []
                try:
                    for change, path, db in evs:
                        async with wf.db:
                            await asyncio.wait_for(watcher.record_change(change, Path(path), during_build=db), 20)
                        outs.append(sets_str(watcher))
                        if watcher.updated & watcher.deleted:
                            ctx.finding(Finding(PID, "watcher-sets-overlap", f"updated and deleted share "
                                                f"{sorted(watcher.updated & watcher.deleted)}",
                                                {"events": [(c.name, p, d) for c, p, d in evs], "files": files}))
                except Exception as exc:  # noqa: BLE001
                    outs.append(f"error {type(exc).__name__}: {exc}")
                ftok = ",".join(f"{hexs(lab)}:{st}" for lab, st in files) or "."
                etok = ",".join(f"{letter[c]}:{hexs(p)}:{int(d)}" for c, p, d in evs)
                lines.append(f"c14 fold {ftok} {hexlist(matches)} {hexlist(accepted)} {etok}")
                expect.append((";".join(outs), {"sequence_seed": [ctx.seed, salt, i], "after_request": k,
                                                "events": [(c.name, p, d) for c, p, d in evs],
                                                "attached_files": files, "glob_matches": matches}))
                relevant_kinds = (sum(1 for _, st in files if st not in ("PLANNED", "VOLATILE")), len(matches),
                                  len(accepted))
                for (c, p, d), o in zip(evs, outs):
                    ctx.stats.case(("fold", c.name, d, o, relevant_kinds), nontrivial=o != "u=.|d=.")
                    ctx.stats.count("fold-item-" + c.name + ("-during-build" if d else ""))
        ctx.stats.programs += 1
    if lines:
        answers = common.run_driver(lines)
        for line, ans, (want, where) in zip(lines, answers, expect):
            ctx.stats.count("model-fold-requests")
            if ans != want:
                ctx.disagree("c14:record_change", {"request": line[:2500], **where}, ans[:2500], want[:2500])
        ctx.stats.sample({"request": lines[0][:400], "answer": answers[0][:400]})


# ---------------------------------------------------------------------------------------------
# Simulated sessions: projects, edits, the watch-versus-restart oracle
# ---------------------------------------------------------------------------------------------


def gen_watch_project(r, safe: bool = False, sub_glob: bool = False):
    """A project whose plan globs directories and recursive patterns, reads an input nobody declares,
    uses a static tree, and has an optional and (sometimes) a failing step."""
    from simdirector import A, Project, plan_file

    files = {"src/a.txt": "a v0\n", "src/b.txt": "b v0\n", "mods/one/x.txt": "one\n", "rec/top.md": "top\n",
             "rec/sub/deep.md": "deep\n", "data/x.dat": "x v0\n", "data/y.dat": "y v0\n", "g/x0.in": "g0\n",
             "data/sub/p.dat": "p v0\n", "data/sub/q.dat": "q v0\n",
             "rec/hold/readme.txt": "a directory below the recursive pattern that holds no match yet\n"}
    plan = [A.static("src/a.txt", "src/b.txt", "data/")]
    feats = []
    if r.random() < 0.7:
        # matches inside the static tree: justified by the tree, no node of their own (no step reads them)
        feats.append("tree-glob")
        plan.append(A.foreach("data/sub/${*n}.dat", [A.step("note ${n}", inp=[], out=["out/note_${n}.txt"])],
                              static=False))
    if r.random() < 0.7:
        feats.append("dir-glob")
        plan.append(A.foreach("mods/${*n}/", [A.step("pack ${n}", inp=[], out=["out/pack_${n}.txt"])]))
    if r.random() < 0.7:
        feats.append("recursive-glob")
        plan.append(A.foreach("rec/**/${*n}.md", [A.step("md ${n}", inp=["${path}"], out=["out/md_${n}.txt"])]))
    plan.append(A.foreach("g/${*n}.in", [A.step("conv ${n}", inp=["${path}"], out=["out/g_${n}.o"])]))
    plan.append(A.step("cc a", inp=["src/a.txt"], out=["out/a.o"]))
    plan.append(A.step("cc b", inp=["src/b.txt", "out/a.o"], out=["out/b.o"]))
    scripts = {}
    if r.random() < 0.5 and not safe:
        feats.append("undeclared-glob-input")
        plan.append(A.step("late", inp=["g/late.in"], out=["out/late.txt"]))
    if r.random() < 0.6:
        feats.append("tree-amend")
        plan.append(A.step("use data", inp=["src/a.txt"], out=["out/data.txt"]))
        scripts["use data"] = [A.read_declared(), A.amend(inp=["data/x.dat"]), A.read("data/x.dat"),
                               A.write_declared()]
    if r.random() < 0.4:
        feats.append("optional")
        plan.append(A.step("opt", inp=["out/a.o"], out=["out/opt.txt"], optional=True))
    if r.random() < 0.3:
        feats.append("failing")
        plan.append(A.step("boom", inp=["src/b.txt"], out=["out/boom.txt"]))
        scripts["boom"] = [A.read_declared(), A.exit(1)]
    if sub_glob:
        # a sub-plan with a static input of its own that globs a directory: the step that holds the pattern can
        # be made pending (and unable to run) by removing that input
        feats.append("sub-glob")
        files["src/list.txt"] = "list v0\n"
        files["g2/m0.in"] = "m0\n"
        sub = [A.foreach("g2/${*n}.in", [A.step("take ${n}", inp=["${path}"], out=["out/t_${n}.txt"])])]
        scripts["./gen.py"] = sub
        files["gen.py"] = plan_file(sub, note="c14")
        plan.insert(1, A.static("gen.py", "src/list.txt"))
        plan.append(A.step("./gen.py", inp=["gen.py", "src/list.txt"], plan=True))
    scripts["./plan.py"] = plan
    files["plan.py"] = plan_file(plan, note="c14")
    return Project(scripts=scripts, files=files, env={}), feats


def gen_edit(r, files, dirs, root, in_build: bool, safe: bool = False, initial=None, only_kind=None,
             only_dir=None):
    """One edit (a short list of primitive edits) valid on the tree `files`/`dirs`."""
    gone = sorted(p for p in (initial or {}) if p not in files and p != "plan.py")
    srcs = sorted(p for p in files if not p.startswith("out/") and p not in ("plan.py", "sub_plan.py"))
    statics = sorted(p for p in srcs if p.split("/")[0] in ("src", "data", "g", "rec"))
    outs = sorted(p for p in files if p.startswith("out/"))
    topdirs = sorted(d for d in dirs if "/" not in d and d not in ("out", ".stepup", "."))
    subdirs = sorted(d for d in dirs if "/" in d and not d.startswith("out") and not d.startswith(".stepup"))

    def text(p):
        return files[p].decode("utf-8", "replace")

    n = r.randint(0, 10**6)

    if in_build:
        kinds = ["change", "delete", "del_recreate_same", "del_recreate_diff", "change_restore", "touch",
                 "move_static_subdir", "move_static_subdir"]
    else:
        kinds = ["change", "change", "delete", "del_recreate_same", "del_recreate_diff", "change_restore", "touch",
                 "add_glob", "add_tree_file", "rmtree", "rmtree_recreate", "mkdir_plain", "mkdir_matching",
                 "new_dir_with_file", "move_dir_back", "move_dir", "move_file", "tamper_out", "delete_out",
                 "create_missing", "delete_create_other", "restore_deleted", "restore_deleted",
                 "new_match_in_existing_dir", "write_under_moved_dir", "write_under_moved_dir"]
    if safe:
        # stay away from the four known classes (new / removed / vanished matched directories, a created
        # file that is an undeclared input and a glob match) so that other differences are not masked
        kinds = [k for k in kinds if k not in ("mkdir_matching", "new_dir_with_file", "move_dir", "create_missing",
                                               "new_match_in_existing_dir")]
        topdirs = [d for d in topdirs if d != "mods"]
        subdirs = [d for d in subdirs if not d.startswith("mods")]
    if only_kind is not None:
        kinds = [only_kind]
    kind = r.choice(kinds)
    pool = statics if in_build else srcs
    if kind == "move_static_subdir":
        cands = [d for d in subdirs if d.split("/")[0] in ("data", "rec") and (only_dir is None or d == only_dir)]
        if cands:
            d = r.choice(cands)
            return kind, [("move", d, d.replace("/", "_") + f"_away{n}")]
        return "none", []
    if kind == "change" and pool:
        p = r.choice(pool)
        return kind, [("write", p, text(p) + f"+{n}\n")]
    if kind == "delete" and pool:
        return kind, [("remove", r.choice(pool))]
    if kind == "del_recreate_same" and pool:
        p = r.choice(pool)
        return kind, [("remove", p), ("write", p, text(p))]
    if kind == "del_recreate_diff" and pool:
        p = r.choice(pool)
        return kind, [("remove", p), ("write", p, text(p) + "#\n")]
    if kind == "change_restore" and pool:
        p = r.choice(pool)
        return kind, [("write", p, "temporary\n"), ("write", p, text(p))]
    if kind == "touch" and pool:
        return kind, [("touch", r.choice(pool))]
    if kind == "restore_deleted" and gone:
        p = r.choice(gone)
        c = initial[p]
        c = c.decode("utf-8", "replace") if isinstance(c, bytes) else c
        return kind, [("write", p, c if r.random() < 0.5 else c + f"restored {n}\n")]
    if kind == "new_match_in_existing_dir" and "rec/hold" in dirs:
        return kind, [("write", f"rec/hold/h{r.randint(0, 2)}.md", f"held {n}\n")]
    if kind == "add_glob":
        return kind, [("write", f"g/n{r.randint(0, 3)}.in", f"new {n}\n")]
    if kind == "add_tree_file":
        return kind, [("write", f"data/extra{r.randint(0, 2)}.dat", f"extra {n}\n")]
    if kind == "rmtree" and (topdirs or subdirs):
        return kind, [("rmtree", r.choice(topdirs + subdirs))]
    if kind == "rmtree_recreate" and (topdirs or subdirs):
        d = r.choice(topdirs + subdirs)
        sub = sorted(p for p in files if p.startswith(d + "/"))
        return kind, [("rmtree", d)] + [("write", p, files[p]) for p in sub]
    if kind == "mkdir_plain":
        return kind, [("mkdir", r.choice(["zz", "src/newdir", "data/nd", "g/sub"]))]
    if kind == "mkdir_matching":
        return kind, [("mkdir", f"mods/m{r.randint(0, 2)}")]
    if kind == "new_dir_with_file":
        return kind, [("write", r.choice([f"rec/nd{r.randint(0, 2)}/page.md", f"mods/w{r.randint(0, 2)}/x.txt",
                                          "g/sub/y.in"]), f"fresh {n}\n")]
    if kind == "move_dir_back" and (topdirs or subdirs):
        d = only_dir if only_dir in topdirs + subdirs else r.choice(topdirs + subdirs)
        if not os.path.exists(os.path.join(root, d + "_tmp")):
            return kind, [("move", d, d + "_tmp"), ("move", d + "_tmp", d)]
    if kind == "move_dir" and (topdirs or subdirs):
        d = r.choice(topdirs + subdirs)
        dst = f"{d}_m{n}"
        return kind, [("move", d, dst)]
    if kind == "write_under_moved_dir":
        # the rename and the write happen before the director handles the rename: inotify reports the write
        # through the old watch, i.e. as an UPDATE of a path that no longer exists
        inside = sorted(p for p in files if p.startswith("data/sub/"))
        if inside and "data/sub" in dirs and r.random() < 0.4:
            # glob matches inside the static tree that no step reads: no node, not re-hashed
            p = r.choice(inside)
            dst = f"data/sub_w{n}"
            return kind, [("move", "data/sub", dst), ("write", dst + p[len("data/sub"):], text(p) + f"moved {n}\n")]
        cands = [p for p in statics if "/" in p and p.split("/")[0] in topdirs]
        if cands:
            p = r.choice(cands)
            d = p.split("/")[0]
            dst = f"{d}_w{n}"
            return kind, [("move", d, dst), ("write", dst + p[len(d):], text(p) + f"moved {n}\n")]
    if kind == "move_file" and srcs:
        p = r.choice(srcs)
        return kind, [("move", p, p + f".moved{n}")]
    if kind == "tamper_out" and outs:
        return kind, [("write", r.choice(outs), f"tampered {n}\n")]
    if kind == "delete_out" and outs:
        return kind, [("remove", r.choice(outs))]
    if kind == "create_missing":
        return kind, [("write", r.choice(["g/late.in", "src/does_not_exist.txt"]), f"created {n}\n")]
    if kind == "delete_create_other" and srcs:
        return kind, [("remove", r.choice(srcs)), ("write", f"g/n{r.randint(0, 3)}.in", f"other {n}\n")]
    return "none", []


def attached_states(canon: str | None) -> str:
    """The canonical graph restricted to attached nodes, without content digests: what remains
    comparable when a build did not complete (the leftovers of detached nodes and the bytes of
    half-built outputs depend on the order in which steps were dispatched)."""
    if not canon:
        return ""
    keep = []
    for block in canon.split("\n\n"):
        lines = block.split("\n")
        if not lines or lines[0].startswith("("):
            continue
        keep.append("\n".join(ln for ln in lines if "digest" not in ln and "(" not in ln.split("=", 1)[-1][:3]
                              and not re.search(r"\s\((file|step|st):", ln)))
    return "\n\n".join(keep)


def complete(rc) -> bool:
    return rc is not None and (rc.value & ~8) == 0


def diff_results(rW, rR):
    aspects, detail = [], {}
    if rW.status != rR.status:
        aspects.append("status")
        detail["status"] = (rW.status, (rW.error or "")[-400:], rR.status, (rR.error or "")[-400:])
    if rW.status == "done" and rR.status == "done":
        if rW.returncode != rR.returncode:
            aspects.append("returncode")
            detail["returncode"] = (repr(rW.returncode), repr(rR.returncode))
        if complete(rW.returncode) and complete(rR.returncode):
            gw, gr = rW.graph_canon, rR.graph_canon
            if rW.files != rR.files:
                aspects.append("outputs")
                detail["files"] = sorted(k for k in set(rW.files) | set(rR.files)
                                         if rW.files.get(k) != rR.files.get(k))[:12]
        else:
            gw, gr = attached_states(rW.graph_canon), attached_states(rR.graph_canon)
        if gw != gr:
            aspects.append("graph")
            a = set((gw or "").split("\n\n"))
            b = set((gr or "").split("\n\n"))
            detail["graph_only_watch"] = sorted(a - b)[:4]
            detail["graph_only_restart"] = sorted(b - a)[:4]
    return aspects, detail


def detached_view(sim) -> tuple[frozenset, tuple]:
    """What the watcher does not look at (known finding `watch-differs:change-while-detached`): the labels of
    detached file nodes and the compiled patterns registered by detached steps, in the committed database."""
    import re

    try:
        files = frozenset(l for (l,) in sim.query("SELECT label FROM node WHERE kind = 'file' AND detached"))
        regexes = tuple(re.compile(rx, re.DOTALL) for (rx,) in sim.query(
            "SELECT nglob.regex FROM nglob JOIN node ON node.i = nglob.node WHERE node.detached"))
        attached = tuple(re.compile(rx, re.DOTALL) for (rx,) in sim.query(
            "SELECT nglob.regex FROM nglob JOIN node ON node.i = nglob.node WHERE NOT node.detached"))
        attached_files = frozenset(l for (l,) in sim.query("SELECT label FROM node WHERE kind = 'file' AND NOT detached"))
    except Exception:  # noqa: BLE001
        return frozenset(), (), (), frozenset()
    return files, regexes, attached, attached_files


def classify(aspects, rW, rR, newdirs, reports_w=(), reports_r=(), exists=lambda p: False,
             old_edits=frozenset(), recent_edits=frozenset(), created=frozenset(), ever_watched=frozenset(),
             moved_dirs=frozenset(), exists_any=lambda p: True, detached=(frozenset(), (), (), frozenset())) -> str:
    if rW.status != "done" and rR.status == "done":
        err = rW.error or ""
        if "Unexpected file hash update" in err:
            return "watch-internal-error:unexpected-hash-update"
        if "_install_watch" in err or "iterdir" in err:
            return "watch-internal-error:vanished-directory"
        return "watch-internal-error" if rW.status == "error" else f"watch-{rW.status}"
    if rR.status != "done":
        return f"restart-{rR.status}"
    upd_r = {d.split(" ")[0] for t, d in list(reports_r) + rR.tags("UPDATED") if t == "UPDATED"}
    upd_w = {d.split(" ")[0] for t, d in list(reports_w) + rW.tags("UPDATED") if t == "UPDATED"}
    for p in upd_r - upd_w:
        for d in newdirs:
            if p.rstrip("/") == d or p.startswith(d + "/"):
                return "watch-new-directory-unreported"
    if any(p in created and os.path.dirname(p) not in newdirs and os.path.dirname(p) not in ever_watched
           for p in upd_r - upd_w):
        # a file CREATED in this round in a directory that existed before and that the director never
        # watched (it held no match when the pattern was registered), and no item for it
        return "watch-unwatched-directory-unreported"
    del_r = {d.split(" ")[0] for t, d in list(reports_r) + rR.tags("DELETED") if t == "DELETED"}
    del_w = {d.split(" ")[0] for t, d in list(reports_w) + rW.tags("DELETED") if t == "DELETED"}
    if any(p.endswith("/") and exists(p) for p in del_w - del_r):
        return "watch-new-directory-unreported"  # a directory that came back (moved away and back, re-created)
    if any(p.endswith("/") for p in del_r - del_w):
        return "watch-removed-directory-unreported"
    if aspects == ["graph"] and digest_only(rW, rR):
        return "watch-differs:inp_digest-only"
    if aspects == ["graph"] and order_only(rW, rR):
        return "watch-differs:external-update-order"
    stale = {p for p in (upd_r | del_r) - (upd_w | del_w) if p in old_edits and p not in recent_edits}
    if stale:
        # the restart's rescan noticed a change that was made in an EARLIER round (while the node was
        # detached, so that neither director cared then) and that the watcher has no item for
        return "watch-differs:change-while-detached"
    missed = {p for p in (upd_r | del_r) - (upd_w | del_w) if p in recent_edits}
    if missed and all((p in detached[0] or any(rx.fullmatch(p) for rx in detached[1]))
                      and p not in detached[3] and not any(rx.fullmatch(p) for rx in detached[2]) for p in missed):
        # (nothing ATTACHED records an interest in the path: no attached file node, no pattern of an attached step)
        # the same mechanism within one round: when the edit was made, the file node was detached, or the only
        # patterns that match the path belonged to detached steps (their creator had failed or was to run again)
        return "watch-differs:change-while-detached"
    if any(any(p.startswith(d + "/") for d in moved_dirs) and not exists_any(p) for p in upd_w - upd_r):
        # the watcher's last item about a path is an UPDATE although the path is gone: a write inside a
        # directory that had just been renamed, reported by inotify through the old watch, under the old path
        return "watch-update-under-moved-directory"
    return "watch-differs:" + "+".join(aspects)


def digest_only(rW, rR) -> bool:
    """The graphs differ in `inp_digest` lines of steps only (a step that completed while its re-running
    creator had one of its inputs UNCONFIRMED records a digest that does not cover that input)."""
    strip = lambda g: "\n".join(ln for ln in (g or "").split("\n") if "inp_digest" not in ln)  # noqa: E731
    return strip(rW.graph_canon) == strip(rR.graph_canon)


def order_only(rW, rR) -> bool:
    """Both phases are incomplete with the same status and the attached graphs differ only in steps that
    are SUCCEEDED on one side and PENDING on the other (their outputs BUILT / OUTDATED): what the order
    of two single-file EXTERNAL updates decides (a changed output does not make its consumers pending,
    a changed input of its producer does)."""
    if complete(rW.returncode) or complete(rR.returncode):
        return False
    a = {b.split("\n")[0]: b for b in attached_states(rW.graph_canon).split("\n\n")}
    b = {c.split("\n")[0]: c for c in attached_states(rR.graph_canon).split("\n\n")}
    if set(a) != set(b):
        return False
    for key in a:
        if a[key] == b[key]:
            continue
        la = [ln for ln in a[key].split("\n") if "state =" not in ln]
        lb = [ln for ln in b[key].split("\n") if "state =" not in ln]
        sa = {ln.split("=")[1].strip() for ln in a[key].split("\n") if "state =" in ln}
        sb = {ln.split("=")[1].strip() for ln in b[key].split("\n") if "state =" in ln}
        if la != lb or (sa | sb) not in ({"SUCCEEDED", "PENDING"}, {"BUILT", "OUTDATED"}):
            return False
    return True


def plain(edits):
    return [tuple(x.decode("utf-8", "replace") if isinstance(x, bytes) else x for x in e) for e in edits]


def run_pair(ctx, project, kw, rounds_fn, seed, where, applied_log=None):
    """Run the two directors side by side. `rounds_fn(round, simR)` yields (label, edits, external)."""
    from simdirector import FifoSchedule, RandomSchedule, SimDirector

    def sched():
        return FifoSchedule() if kw.get("njob", 1) == 1 or seed % 2 == 0 else RandomSchedule(seed)

    with SimDirector(copy.deepcopy(project), seed=seed) as simW, SimDirector(copy.deepcopy(project), seed=seed) as simR:
        history = []
        first = rounds_fn(0, simR)
        ext0 = first[2] if first else ()
        rW = simW.build(watch=True, schedule=sched(), external=list(ext0), **kw)
        rR = simR.build(schedule=sched(), external=list(ext0), **kw)
        if ext0:
            history.append({"round": 0, "external": [(k, plain(e)) for k, e in ext0]})
            ctx.stats.count("first-phases-with-edits-during-build")
            for _, e in ext0:
                ctx.stats.count("edit-during-build-" + ("move-subdir" if e and e[0][0] == "move" else "file"))
        aspects, detail = diff_results(rW, rR)
        if aspects or rW.status != "done":
            # the first phases are the same code path (the watcher only listens): a difference here is
            # not about this property
            ctx.stats.count("pairs-first-phase-differs")
            return
        ever_watched = set(rW.watched_dirs)
        nround = 0
        settle = 0
        pending_compare = False
        reports_w, reports_r = [], []
        since = len(history)  # first history entry that has not been followed by a successful comparison
        while True:
            nround += 1
            nxt = rounds_fn(nround, simR)
            if nxt is None:
                if not pending_compare or settle >= 2:
                    break
                settle += 1
                nxt = (["settle"], [], [])
            label, edits, external = nxt
            before = set(simR.dirs())
            files_before = set(simR.files())
            simR.apply(edits)
            newdirs = sorted(set(simR.dirs()) - before)
            created_now = sorted({e[1] for e in edits if e[0] == "write" and e[1] not in files_before})
            history.append({"round": nround, "kinds": label, "edits": plain(edits), "new_directories": newdirs,
                            "created": created_now,
                            "external": [(k, plain(e)) for k, e in external]})
            if applied_log is not None:
                applied_log.begin()
            detached_now = detached_view(simW)
            rW = simW.watch_rebuild(edits, schedule=sched(), external=list(external))
            rR = simR.build(schedule=sched(), external=list(external), **kw)
            if applied_log is not None:
                applied_log.end(where, nround)
            ctx.stats.case(("round", tuple(label), repr(rW.returncode), len(rW.commands), bool(external)),
                           nontrivial=bool(rW.commands) or rW.returncode != rR.returncode)
            for lab in label:
                ctx.stats.count("edit-" + lab)
            if external:
                ctx.stats.count("rounds-with-edits-during-build")
            if rW.status == "done" and rR.status == "done":
                src_w = {p: c for p, c in rW.files.items() if not p.startswith("out/")}
                src_r = {p: c for p, c in rR.files.items() if not p.startswith("out/")}
                if src_w != src_r:
                    # an edit scheduled for a decision one of the two phases never reached
                    ctx.stats.count("pairs-source-trees-diverged (harness artefact, case dropped)")
                    return
                drained = any(rc is not None and (rc.value & DRAINED) for rc in (rW.returncode, rR.returncode))
                if drained:
                    # a phase that drained stops at a schedule-dependent point: compare after the next round
                    ctx.stats.count("rounds-not-comparable-drained")
                    pending_compare = True
                    reports_w.extend(rW.tags("UPDATED", "DELETED"))
                    reports_r.extend(rR.tags("UPDATED", "DELETED"))
                    continue
            pending_compare = False
            ctx.stats.count("rounds-compared")
            aspects, detail = diff_results(rW, rR)
            watched_now = set(rW.watched_dirs)
            if aspects:
                sig = classify(aspects, rW, rR, newdirs_all(history[since:], newdirs), reports_w, reports_r,
                               lambda p: os.path.isdir(os.path.join(simR.root, p)),
                               edited_paths(history[:since]), edited_paths(history[since:]),
                               frozenset(p for h in history[since:] for p in h.get("created", [])),
                               frozenset(ever_watched),
                               frozenset(e[1] for h in history[since:] for e in h.get("edits", []) if e[0] == "move"),
                               lambda p: os.path.exists(os.path.join(simR.root, p)), detached_now)
                what = (f"after edits {label}: watch rebuild and restart differ in {'+'.join(aspects)} "
                        f"(watch: {rW.status} {rW.returncode!r} ran {rW.commands}; restart: {rR.status} "
                        f"{rR.returncode!r} ran {rR.commands})")
                ctx.finding(Finding(PID, sig, what, {**where, "history": history, "new_directories": newdirs,
                                                     "watch_items": [t for t in rW.tags("UPDATED", "DELETED")][:20],
                                                     "restart_reports": [t for t in rR.tags("UPDATED", "DELETED")][:20],
                                                     **detail}))
                ctx.stats.count("pairs-differ-" + sig)
                return
            reports_w, reports_r = [], []
            since = len(history)
            ever_watched |= watched_now
            if rW.status != "done":
                return


DRAINED = 32


def edited_paths(history) -> frozenset:
    out = set()
    for h in history:
        for e in list(h.get("edits", [])) + [x for _, ee in h.get("external", []) for x in ee]:
            out.update(str(x) for x in e[1:3] if isinstance(x, str) and "\n" not in x)
    return frozenset(out)


def newdirs_all(history, newdirs):
    """Directories that did not exist before the edits of this and the preceding (not compared) rounds."""
    out = set(newdirs)
    for h in history:
        out.update(h.get("new_directories", []))
    return sorted(out)


def sim_pairs(ctx, ncase: int, salt: str, only: int | None = None, applied_log=None):
    import projgen

    for i in (range(ncase) if only is None else [only]):
        r = ctx.rng(salt, i)
        family = r.choice(["projgen", "watchy", "watchy"])
        safe = r.random() < 0.5
        directed = None
        if family == "watchy" and r.random() < 0.4:
            directed = r.choice(["move-back-then-edit", "subdir-moved-during-build", "restore-input-with-new-match"])
            safe = True  # keep the known classes out of the way of the scenario
        if family == "projgen":
            model = projgen.gen_model(r, fail_prob=r.choice([0.0, 0.0, 0.2]))
            project = projgen.render(model)
            feats = ["projgen"]
            r.randint(1, 3)
            kw = {"njob": 1}
            if model.resources:
                kw["resources"] = model.resources
        else:
            project, feats = gen_watch_project(r, safe, sub_glob=directed == "restore-input-with-new-match")
            r.randint(1, 3)
            kw = {"njob": 1}
        # One job slot: with more, a pending step can be dispatched while its pending creator re-runs
        # (the known C03/C05 behaviour), and whether it completes before the creator detaches or re-declares
        # it depends on the moment of the dispatch. A watch rebuild and a restart are two different
        # schedules (a restart has extra startup work), so that dependence would show up here as a
        # difference that has nothing to do with watching. With one slot the order is the scheduler's own.
        # a phase that drains stops at a schedule-dependent point; failing steps do not drain with -k
        kw["keep_going"] = True
        nrounds = r.randint(1, 4)
        ext_case = r.random() < 0.3
        seed = r.randint(0, 10**6)
        where = {"case_seed": [ctx.seed, salt, i], "family": family, "features": feats, "options": dict(kw)}
        ctx.stats.programs += 1

        if safe:
            feats = feats + ["safe-edits"]
            where["features"] = feats

        initial = dict(project.files)
        # Directed scenarios (watchy family): (A) a watched directory is moved away and back within one
        # watch phase (both renames before any event is handled), and a file inside it is edited in a
        # LATER watch phase; (B) a sub-directory of a static directory (nodeless glob matches inside a
        # static tree, or declared files) is moved away while the first build phase is running.
        if directed is not None:
            feats = feats + [directed]
            where["features"] = feats
            nrounds = max(nrounds, 2)
        anchors = {"src": "src/a.txt", "g": "g/x0.in"}
        if "recursive-glob" in feats:
            anchors.update({"rec": "rec/top.md", "rec/sub": "rec/sub/deep.md"})
        if "tree-amend" in feats:
            anchors["data"] = "data/x.dat"
        state = {"moved_back": []}

        def rounds_fn(n, simR, r=r, nrounds=nrounds, ext_case=ext_case, safe=safe, initial=initial,
                      directed=directed, anchors=anchors, state=state):
            if n == 0:
                if directed == "subdir-moved-during-build":
                    files, dirs = simR.files(), simR.dirs()
                    only = "data/sub" if "tree-glob" in where["features"] and r.random() < 0.7 else None
                    _, e = gen_edit(r, files, dirs, simR.root, True, only_kind="move_static_subdir", only_dir=only)
                    return ("first", [], [(r.randint(6, 16), e)] if e else [])
                if ext_case:
                    files, dirs = simR.files(), simR.dirs()
                    _, e = gen_edit(r, files, dirs, simR.root, True)
                    return ("first", [], [(r.randint(3, 14), e)] if e else [])
                return ("first", [], [])
            if n > nrounds:
                return None
            labels, batch = [], []
            # edits are generated against the tree as it evolves: apply to a scratch view
            files, dirs = dict(simR.files()), list(simR.dirs())
            if directed == "restore-input-with-new-match" and n in (1, 2):
                # (C) the input of the step that holds a pattern is removed (the step is pending and cannot run),
                # then restored with the same content while a new file starts matching the pattern
                if n == 1:
                    return (["remove_glob_step_input"], [("remove", "src/list.txt")], [])
                return (["restore_input_and_new_match"],
                        [("write", "src/list.txt", "list v0\n"), ("write", "g2/m1.in", "m1\n")], [])
            if directed == "move-back-then-edit" and n == 1:
                d = r.choice(sorted(a for a in anchors if a in dirs))
                state["moved_back"].append(d)
                return (["move_dir_back"], [("move", d, d + "_tmp"), ("move", d + "_tmp", d)], [])
            if state["moved_back"] and r.random() < 0.75:
                # a later watch phase: a file inside a directory that was moved away and back
                d = r.choice(state["moved_back"])
                inside = sorted(p for p in files if p.startswith(d + "/"))
                target = anchors.get(d) if anchors.get(d) in files else (r.choice(inside) if inside else None)
                if target is not None:
                    k = r.random()
                    if k < 0.7:
                        batch.append(("write", target, files[target].decode("utf-8", "replace") + f"later {n}\n"))
                        files[target] = b"changed"
                    else:
                        batch.append(("remove", target))
                        files.pop(target)
                    labels.append("edit_in_moved_back_dir")
            for _ in range(r.randint(1, 3)):
                lab, e = gen_edit(r, files, dirs, simR.root, False, safe, initial)
                if not e:
                    continue
                ok = True
                for ed in e:  # keep the scratch view in step (enough for validity of later edits)
                    if ed[0] == "write":
                        files[ed[1]] = ed[2].encode() if isinstance(ed[2], str) else ed[2]
                        parts = ed[1].split("/")[:-1]
                        for j in range(1, len(parts) + 1):
                            if "/".join(parts[:j]) not in dirs:
                                dirs.append("/".join(parts[:j]))
                    elif ed[0] == "remove":
                        ok = ok and ed[1] in files
                        files.pop(ed[1], None)
                    elif ed[0] in ("rmtree", "move"):
                        src = ed[1]
                        ok = ok and (src in dirs or src in files)
                        moved = {p: c for p, c in files.items() if p == src or p.startswith(src + "/")}
                        for p in moved:
                            del files[p]
                        gone = [d for d in dirs if d == src or d.startswith(src + "/")]
                        dirs[:] = [d for d in dirs if d not in gone]
                        if ed[0] == "move":
                            ok = ok and ed[2] not in dirs and ed[2] not in files
                            for p, c in moved.items():
                                files[ed[2] + p[len(src):]] = c
                            dirs.extend(ed[2] + d[len(src):] for d in gone)
                    elif ed[0] == "mkdir":
                        parts = ed[1].split("/")
                        for j in range(1, len(parts) + 1):
                            if "/".join(parts[:j]) not in dirs:
                                dirs.append("/".join(parts[:j]))
                    elif ed[0] == "touch":
                        ok = ok and ed[1] in files
                if not ok:
                    break
                if lab == "move_dir_back":
                    state["moved_back"].append(e[0][1])
                labels.append(lab)
                batch.extend(e)
            # Edits during a build phase are only made in the first phase, which is the same code path in both
            # directors (same schedule, same logical moment); in later rounds a restart has extra startup
            # decisions, so "before the k-th decision" would be two different moments.
            external = []
            if not batch and not external:
                return (["none"], [], [])
            return (labels or ["none"], batch, external)

        try:
            run_pair(ctx, project, kw, rounds_fn, seed, where, applied_log)
        except Exception as exc:  # noqa: BLE001
            import traceback

            ctx.stats.count("pairs-harness-exception")
            ctx.extra.setdefault("harness_exceptions", []).append(
                {"case": where["case_seed"], "error": f"{type(exc).__name__}: {exc}",
                 "traceback": traceback.format_exc()[-1500:]})


# ---------------------------------------------------------------------------------------------
# Which hash results are applied: logs of simulated sessions versus the model
# ---------------------------------------------------------------------------------------------


class AppliedLog:
    """Wrappers around `Workflow.get_file_hashes` / `update_file_hashes` / `process_nglob_changes` and
    `startup.rescan_files` that record, per round, what the watcher and the restart looked at."""

    def __init__(self, ctx):
        self.ctx = ctx
        self.lines, self.expect = [], []
        self.reset()

    def reset(self):
        self.watch = None  # dict while a watch phase is being observed
        self.restart = None
        self.tokens = []

    def tok(self, fh) -> str:
        if fh is None or fh.is_unknown:
            return "~"
        for k, other in enumerate(self.tokens):
            if other == fh:
                return str(k)
        self.tokens.append(fh)
        return str(len(self.tokens) - 1)

    @contextlib.contextmanager
    def installed(self):
        from stepup.core import startup
        from stepup.core.enums import HashUpdateCause
        from stepup.core.workflow import Workflow

        log = self
        orig_get, orig_upd, orig_png, orig_rescan = (Workflow.get_file_hashes, Workflow.update_file_hashes,
                                                     Workflow.process_nglob_changes, startup.rescan_files)

        def node_rows(wf, paths=None):
            rows = wf.db.execute("SELECT node.label, node.detached, file.state, file.hash FROM node "
                                 "JOIN file ON file.node = node.i WHERE node.kind = 'file'").fetchall()
            return [row for row in rows if paths is None or row[0] in paths]

        def get_file_hashes(wf, paths, **kwargs):
            result = orig_get(wf, paths, **kwargs)
            import inspect

            caller = inspect.stack()[1].function
            if log.armed and caller == "run_once":
                from stepup.core.hash import FileHash

                rows = node_rows(wf, set(paths))
                disk = {}
                for label, _, _, h in rows:
                    old = FileHash.from_json(h)
                    try:
                        disk[label] = old.refreshed(label)
                    except Exception:  # noqa: BLE001
                        disk[label] = None
                watcher = log.current_watcher()
                present = sorted(p for p in map(str, paths) if os.path.lexists(p))
                log.watch = {"rows": rows, "disk": disk, "applied": [], "pruned": None, "present": present,
                             "updated": sorted(watcher.updated) if watcher else [],
                             "deleted": sorted(watcher.deleted) if watcher else []}
            return result

        def update_file_hashes(wf, file_hashes, *, cause):
            if log.armed and cause in (HashUpdateCause.EXTERNAL, HashUpdateCause.CONFIRMED):
                target = log.watch if (log.watch is not None and log.watch["pruned"] is None) else (
                    log.restart if (log.restart is not None and log.restart["open"]) else None)
                if target is not None:
                    for p, h in file_hashes.items():
                        target["applied"].append((str(p), cause.name, h))
            return orig_upd(wf, file_hashes, cause=cause)

        def process_nglob_changes(wf, deleted, updated):
            if log.armed and log.watch is not None and log.watch["pruned"] is None:
                log.watch["pruned"] = sorted(updated)
                log.watch["final_deleted"] = sorted(deleted)
            return orig_png(wf, deleted, updated)

        async def rescan_files(workflow, reporter, builder):
            if log.armed:
                from stepup.core.hash import FileHash

                async with workflow.db:
                    rows = node_rows(workflow)
                disk = {}
                for label, _, _, h in rows:
                    try:
                        disk[label] = FileHash.from_json(h).refreshed(label)
                    except Exception:  # noqa: BLE001
                        disk[label] = None
                log.restart = {"rows": rows, "disk": disk, "applied": [], "open": True}
            try:
                return await orig_rescan(workflow, reporter, builder)
            finally:
                if log.restart is not None:
                    log.restart["open"] = False

        Workflow.get_file_hashes = get_file_hashes
        Workflow.update_file_hashes = update_file_hashes
        Workflow.process_nglob_changes = process_nglob_changes
        startup.rescan_files = rescan_files
        self.armed = False
        try:
            yield self
        finally:
            Workflow.get_file_hashes = orig_get
            Workflow.update_file_hashes = orig_upd
            Workflow.process_nglob_changes = orig_png
            startup.rescan_files = orig_rescan

    def current_watcher(self):
        import simdirector

        session = simdirector._CURRENT
        handler = getattr(session, "handler", None) if session is not None else None
        return getattr(handler, "watcher", None)

    def begin(self):
        self.reset()
        self.armed = True

    def end(self, where, nround):
        self.armed = False
        from stepup.core.hash import FileHash

        def node_tok(rows):
            return ",".join(f"{hexs(lab)}:{int(not det)}:{FileState(st).name}:{self.tok(FileHash.from_json(h))}"
                            for lab, det, st, h in rows) or "."

        def disk_tok(disk):
            return ",".join(f"{hexs(p)}:{self.tok(h)}" for p, h in disk.items() if h is not None) or "."

        def applied_tok(applied):
            key = lambda x: x[0].encode("utf-8", "surrogatepass")  # noqa: E731
            return ",".join(f"{hexs(p)}:{c}:{self.tok(h)}" for p, c, h in sorted(applied, key=key)) or "."

        w, rs = self.watch, self.restart
        if w is not None and w["pruned"] is not None and all(v is not None for v in w["disk"].values()):
            key = lambda s: s.encode("utf-8", "surrogatepass")  # noqa: E731
            line = (f"c14 applied {node_tok(w['rows'])} {disk_tok(w['disk'])} {hexlist(w['updated'])} "
                    f"{hexlist(w['deleted'])} . {hexlist(w['present'])}")
            if any(p not in w["present"] and not any(row[0] == p for row in w["rows"]) for p in w["updated"]):
                self.ctx.stats.count("applied-watch-update-of-absent-nodeless-path")
            want = (f"watch={applied_tok(w['applied'])} pruned={hexlist(sorted(w['pruned'], key=key))} "
                    f"deleted={hexlist(sorted(w['final_deleted'], key=key))} restart=.")
            if set(w["final_deleted"]) - set(w["deleted"]):
                self.ctx.stats.count("applied-watch-update-of-vanished-path-moved-to-deleted")
            self.lines.append(line)
            self.expect.append((want, "watch", {**where, "round": nround}))
            self.ctx.stats.case(("applied-watch", len(w["rows"]), len(w["applied"]), len(w["updated"]), len(w["deleted"])),
                                nontrivial=bool(w["applied"]))
        if rs is not None and not rs["open"] and all(v is not None for v in rs["disk"].values()):
            paths = [row[0] for row in rs["rows"]]
            line = f"c14 applied {node_tok(rs['rows'])} {disk_tok(rs['disk'])} . . {hexlist(paths)} ."
            want = f"watch=. pruned=. deleted=. restart={applied_tok(rs['applied'])}"
            self.lines.append(line)
            self.expect.append((want, "restart", {**where, "round": nround}))
            self.ctx.stats.case(("applied-restart", len(rs["rows"]), len(rs["applied"])), nontrivial=bool(rs["applied"]))

    def compare(self):
        if not self.lines:
            return
        answers = common.run_driver(self.lines)
        for line, ans, (want, kind, where) in zip(self.lines, answers, self.expect):
            self.ctx.stats.count(f"model-applied-{kind}-requests")
            if ans != want:
                self.ctx.disagree(f"c14:applied-{kind}", {"request": line[:2500], **where}, ans[:2500], want[:2500])
        self.ctx.stats.sample({"request": self.lines[0][:400], "answer": answers[0][:400]})


def applied_correspondence(ctx, ncase: int, salt: str):
    log = AppliedLog(ctx)
    with log.installed():
        quiet = _QuietFindings(ctx)
        with quiet:
            sim_pairs(ctx, ncase, salt, applied_log=log)
    log.compare()


class _QuietFindings:
    """(Formerly: findings of the model-comparison pass were dropped; they are kept now.)"""

    def __init__(self, ctx):
        self.ctx = ctx

    def __enter__(self):
        self.saved = list(self.ctx.findings)

    def __exit__(self, *exc):
        # The sessions of this pass are as real as those of `search` (the log only observes): what the oracle
        # finds on them is reported too; a replay runs the same case without the log.
        pass


# ---------------------------------------------------------------------------------------------
# Entry points
# ---------------------------------------------------------------------------------------------


async def correspond(ctx):
    await kcorr.run(ctx, SCOPES, quick=(25, 60), thorough=(500, 80), salt="c14-kcorr")
    await fold_correspondence(ctx, ctx.budget(50, 1500), 48, "c14-fold")
    await asyncio.to_thread(applied_correspondence, ctx, ctx.budget(32, 600), "c14-applied")
    ctx.stats.rule = ("a case is one item given to Watcher.record_change (key: kind of change, during_build, the two sets "
                      "afterwards, number of relevant files / recorded matches / accepted paths of the workflow; "
                      "non-trivial: the sets are not both empty), one watch or restart round of a simulated session "
                      "(key: edit kinds, return code, number of executed commands), or one kernel request")


async def search(ctx):
    await asyncio.to_thread(sim_pairs, ctx, ctx.budget(96, 2500), "c14-oracle")


async def replay(ctx, detail):
    sig = detail.get("signature", "")
    d = detail.get("detail", detail)
    seed = d.get("case_seed")
    if seed:
        os.environ["VERIF_SEED"] = str(seed[0])
        await asyncio.to_thread(sim_pairs, ctx, 0, seed[1], seed[2])
    else:
        await search(ctx)
    return {"reproduced": any(f.signature == sig for f in ctx.findings), "signature": sig,
            "findings": [f.what for f in ctx.findings][:5]}
