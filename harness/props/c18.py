"""C18: 'under this directory' selects exactly the paths under it.

Correspondence: every prefix-selection call site of the implementation is run on generated label
sets and compared with the Lean model of that site (`P/Like.lean`); the LIKE matcher of the
model is also compared with SQLite on arbitrary patterns.  Oracle: the same call sites against
plain `str.startswith`, which is what the property states.
"""

from __future__ import annotations

import sqlite3

import common
import implkit
from common import Finding, hexlist, hexs, unhexlist
from implkit import HashUpdateCause, Need

PID = "C18"
LEVEL = "proof"
ASSUMPTIONS = [
    "SQLite's BINARY collation orders TEXT by UTF-8 bytes = code point order (model compares code points)",
    "file labels never end in '/' (File.adjust_label), so a selected label is a proper extension",
    "the Lean model of LIKE/ESCAPE, substr/length, str.startswith and Path(p)/'' is validated "
    "against SQLite/Python on generated inputs only",
]

ALPHABET = ["a", "A", "b", "B", "_", "%", "\\", ".", "0", "-", "é", "É", "x", " ", "~", "/0", "中"]


def component(r) -> str:
    while True:
        n = r.choice([1, 1, 2, 2, 3])
        c = "".join(r.choice(ALPHABET) for _ in range(n))
        c = c.replace("/", "")
        if c and c not in (".", "..") and not c.startswith(".stepup") and not c.endswith(" "):
            return c


def label_universe(r, n: int) -> tuple[list[str], list[str]]:
    """Directory names and file labels that share prefixes, case variants and LIKE wildcards."""
    base = [component(r) for _ in range(r.randint(2, 4))]
    dirs = set()
    for b in base:
        dirs.add(b)
        for v in (b.upper(), b.lower(), b + r.choice(ALPHABET).replace("/", ""), b[:-1] + "_" if len(b) > 1 else "_",
                  b[:-1] + "%" if len(b) > 1 else "%"):
            if v and v not in (".", "..") and r.random() < 0.5:
                dirs.add(v)
        if r.random() < 0.6:
            dirs.add(b + "/" + component(r))
    dirs = sorted(d for d in dirs if not d.startswith(".stepup") and not d.endswith(" "))
    labels = set()
    while len(labels) < n:
        d = r.choice(dirs)
        k = r.random()
        if k < 0.55:
            labels.add(d + "/" + component(r))
        elif k < 0.7:
            labels.add(d + "/" + component(r) + "/" + component(r))
        elif k < 0.74:
            labels.add(d + r.choice(["0", "0", ".", "-", "~", "/0"]))  # the range bounds themselves
        elif k < 0.8:
            labels.add(d + r.choice(["0", ".", "-", "x", "_"]) + component(r))  # sibling by name prefix
        elif k < 0.9:
            labels.add(d.swapcase() + "/" + component(r))
        else:
            labels.add(component(r))
    return dirs, sorted(labels)


class Case:
    __slots__ = ("site", "line", "impl", "inp", "expect")

    def __init__(self, site, line, impl, inp, expect):
        self.site, self.line, self.impl, self.inp, self.expect = site, line, impl, inp, expect


def canon(labels) -> str:
    return hexlist(sorted(set(str(x) for x in labels)))


def under(d: str, labels) -> list[str]:
    """The property itself: byte-exact, slash-terminated prefix; the project root (`./`, as `tui._normalize_targets`
    spells it) contains every root-relative label that does not climb out of it."""
    if d == "./":
        return sorted({l for l in labels if not l.startswith(("/", "../"))})
    return sorted({l for l in labels if l.startswith(d)})


async def site_like(r, n) -> list[Case]:
    """The LIKE matcher of the model against SQLite, arbitrary patterns, both case modes."""
    out = []
    con_ci = sqlite3.connect(":memory:")
    con_cs = sqlite3.connect(":memory:")
    con_cs.execute("PRAGMA case_sensitive_like = ON")
    chars = ["a", "A", "b", "%", "_", "\\", "é", "É", "/", "x"]
    for _ in range(n):
        pat = "".join(r.choice(chars) for _ in range(r.randint(0, 5)))
        s = "".join(r.choice(chars) for _ in range(r.randint(0, 5)))
        cs = r.random() < 0.5
        con = con_cs if cs else con_ci
        try:
            got = con.execute("SELECT ? LIKE ? ESCAPE '\\'", (s, pat)).fetchone()[0]
        except sqlite3.OperationalError:
            continue
        out.append(Case("like", f"c18 like {int(cs)} {hexs(chr(92))} {hexs(pat)} {hexs(s)}", str(int(bool(got))),
                        {"pattern": pat, "string": s, "cs": cs}, None))
    return out


async def site_pattern(r, n) -> list[Case]:
    from stepup.core.path import dir_range_upper
    from stepup.core.sqlite3 import prefix_clause
    from path import Path

    out = []
    for _ in range(n):
        dirs, _ = label_universe(r, 1)
        d = r.choice(dirs) + r.choice(["/", "/", ""])
        clause, pattern = prefix_clause("label", d)
        out.append(Case("prefix_clause", f"c18 pattern {hexs(d)}", hexs(pattern), {"prefix": d}, None))
        if "ESCAPE '\\'" not in clause or "LIKE ?" not in clause:
            out.append(Case("prefix_clause", f"c18 pattern {hexs(d)}", "clause:" + clause, {"prefix": d}, None))
        try:
            up = "some " + hexs(dir_range_upper(d))
        except ValueError:
            up = "none"
        out.append(Case("dir_range_upper", f"c18 upper {hexs(d)}", up, {"parent": d}, None))
        out.append(Case("path_slash", f"c18 addslash {hexs(d)}", hexs(str(Path(d) / "")), {"path": d}, None))
    return out


async def site_owning(r, n) -> list[Case]:
    out = []
    for _ in range(n):
        dirs, labels = label_universe(r, 8)
        async with implkit.workflow() as wf:
            async with wf.db:
                wf.define_step(wf.root, "boot", need=Need.PLAN)
                boot = wf.find(implkit.Step, "boot")
                for d in r.sample(dirs, min(len(dirs), 4)):
                    try:
                        wf.register_static_tree(boot, d)
                    except Exception:
                        pass
                trees = sorted(x for (x,) in wf.db.execute(
                    "SELECT label FROM node WHERE kind = 'st' AND NOT detached"))
                probes = labels + [d for d in dirs] + [d + "/" for d in dirs]
                for p in probes:
                    try:
                        st = wf._find_owning_static_tree(p)
                        got = canon([] if st is None else [st.label])
                    except Exception as exc:
                        got = "multi" if "Multiple" in str(exc) else "exc:" + implkit.classify_exc(exc)
                    expect = [t for t in trees if p.startswith(t)]
                    out.append(Case("find_owning_static_tree", f"c18 owning {hexs(p)} {hexlist(trees)}", got,
                                    {"path": p, "trees": trees}, ("owner", expect)))
    return out


def _model_multi(ans: str) -> str:
    """The implementation raises when more than one tree matches."""
    items = unhexlist(ans)
    return "multi" if len(items) > 1 else ans


async def site_register_tree(r, n) -> list[Case]:
    out = []
    for _ in range(n):
        dirs, labels = label_universe(r, 10)
        d = r.choice(dirs)
        async with implkit.workflow() as wf:
            async with wf.db:
                wf.define_step(wf.root, "boot", need=Need.PLAN)
                boot = wf.find(implkit.Step, "boot")
                static = [l for l in labels if r.random() < 0.5]
                loose = [l for l in labels if l not in static]
                wf.declare_static_files(boot, static)
                if loose:
                    wf.define_step(boot, "use", inp_paths=loose)  # detached UNDECLARED nodes
                try:
                    wf.register_static_tree(boot, d)
                except Exception as exc:
                    out.append(Case("register_static_tree", "", "exc:" + implkit.classify_exc(exc),
                                    {"dir": d, "labels": labels}, None))
                    continue
                rows = wf.db.execute(
                    "SELECT f.label FROM node AS f JOIN node AS c ON f.creator = c.i "
                    "WHERE f.kind = 'file' AND c.kind = 'st'"
                ).fetchall()
                got = canon(x for (x,) in rows)
                out.append(Case("register_static_tree", f"c18 undertree {hexs(d)} {hexlist(sorted(labels))}", got,
                                {"dir": d, "labels": labels}, ("set", under(d + "/", labels))))
    return out


async def site_relevant(r, n) -> list[Case]:
    from stepup.core.nglob import NamedGlob

    out = []
    for _ in range(n):
        dirs, labels = label_universe(r, 10)
        files = [l for l in labels if r.random() < 0.6]
        globs = [l for l in labels if l not in files or r.random() < 0.2]
        async with implkit.workflow() as wf:
            async with wf.db:
                wf.define_step(wf.root, "boot", need=Need.PLAN)
                boot = wf.find(implkit.Step, "boot")
                wf.declare_static_files(boot, files)
                ng = NamedGlob("**")
                ng.extend(globs)
                recorded = [str(p) for p in ng.files()]
                wf.register_nglob(boot, ng)
                for d in dirs:
                    for arg in (d, d + "/"):
                        got = canon(wf.relevant_paths_under(arg))
                        out.append(Case("relevant_paths_under",
                                        f"c18 relevant {hexs(arg)} {hexlist(sorted(files))} {hexlist(sorted(recorded))}",
                                        got, {"dir": arg, "files": files, "globs": recorded},
                                        ("set", under(d + "/", set(files) | set(recorded)))))
    return out


async def site_ranges(r, n) -> list[Case]:
    """has_regular_output_under, RECONCILE_TARGET_DIRS, UPDATE_CHECK_AFTER directory arm."""
    out = []
    for _ in range(n):
        dirs, labels = label_universe(r, 8)
        tdirs = [d + "/" for d in r.sample(dirs, min(len(dirs), 2))]
        # the bounds of the label range of each target themselves, and their neighbours, as outputs
        labels = sorted({*labels, *[td[:-1] + c for td in tdirs for c in ("0", ".", "/0") if r.random() < 0.7]})
        if r.random() < 0.2:
            # `stepup build ./`: the project root as the directory target
            tdirs, dirs = ["./"], [*dirs, "."]
        async with implkit.workflow(target_dirs=tdirs, with_scheduler=True) as (wf, sched):
            async with wf.db:
                wf.define_step(wf.root, "boot", need=Need.PLAN)
                boot = wf.find(implkit.Step, "boot")
                producers = {}
                for i, l in enumerate(labels):
                    try:
                        wf.define_step(boot, f"mk{i}", out_paths=[l])
                        producers[f"mk{i}"] = l
                    except Exception:
                        pass  # e.g. an output that would be a parent of another one is fine too
                outs = sorted(producers.values())
                # has_regular_output_under: one label at a time is decisive, the whole set is the site
                for d in dirs:
                    got = str(int(wf.has_regular_output_under(d + "/")))
                    exp = under(d + "/", outs)
                    out.append(Case("has_regular_output_under", f"c18 target {hexs(d + '/')} {hexlist(outs)}",
                                    got, {"dir": d + "/", "outputs": outs}, ("nonempty", exp)))
                # UPDATE_CHECK_AFTER directory arm: DEFAULT producers in range become TARGET
                sched._update_meta_safe()
                sched._update_meta_after()
                rows = wf.db.execute(
                    "SELECT node.label FROM step JOIN node ON node.i = step.node WHERE _implied_need = ?",
                    (Need.TARGET.value,),
                ).fetchall()
                elevated = sorted(producers[x] for (x,) in rows if x in producers)
                for td in tdirs:
                    sel = under(td, elevated)
                    other = [l for l in elevated if not any(l in under(t, elevated) for t in tdirs)]
                    out.append(Case("update_check_after_dir", f"c18 target {hexs(td)} {hexlist(outs)}",
                                    canon(sel), {"dir": td, "outputs": outs, "elevated": elevated},
                                    ("set", under(td, outs))))
                    if other:
                        out.append(Case("update_check_after_dir", "", "elevated-outside:" + canon(other),
                                        {"dir": td, "outputs": outs, "elevated": elevated}, ("set", [])))
                # RECONCILE_TARGET_DIRS: flags producers of outputs in range
                wf.db.execute("UPDATE step SET _check_after = 0")
                wf.reconcile_targets()
                rows = wf.db.execute(
                    "SELECT node.label FROM step JOIN node ON node.i = step.node WHERE _check_after"
                ).fetchall()
                flagged = sorted(producers[x] for (x,) in rows if x in producers)
                # steps whose implied need is TARGET are flagged too (first statement of reconcile)
                for td in tdirs:
                    sel = under(td, flagged)
                    out.append(Case("reconcile_target_dirs", f"c18 target {hexs(td)} {hexlist(outs)}",
                                    canon(sel), {"dir": td, "outputs": outs, "flagged": flagged},
                                    ("set", under(td, outs))))
                stray = [l for l in flagged if not any(l in under(t, flagged) for t in tdirs)]
                if stray:
                    out.append(Case("reconcile_target_dirs", "", "flagged-outside:" + canon(stray),
                                    {"dirs": tdirs, "outputs": outs, "flagged": flagged}, ("set", [])))
    return out


async def site_justified(r, n) -> list[Case]:
    out = []
    for _ in range(n):
        dirs, labels = label_universe(r, 8)
        trees = [d + "/" for d in r.sample(dirs, min(len(dirs), 2))]
        async with implkit.workflow() as wf:
            async with wf.db:
                wf.define_step(wf.root, "boot", need=Need.PLAN)
                boot = wf.find(implkit.Step, "boot")
                static = [l for l in labels if not any(l.startswith(t) for t in trees)]
                wf.declare_static_files(boot, static)
                for p in labels + [d + "/" for d in dirs]:
                    got = wf._is_justified_without_node(p, trees)
                    exp = any(p.startswith(t) for t in trees)
                    if p.endswith("/") and not exp:
                        exp = any(t.startswith(p) for t in trees) or bool(under(p, static))
                    # model: inside || (dir && (contains || range nonempty)), composed here from three ops
                    out.append(Case("is_justified_without_node", f"c18 inside {hexs(p)} {hexlist(trees)}",
                                    None, {"path": p, "trees": trees, "static": static, "impl": got}, ("bool", exp)))
    return out


async def site_clean(r, n) -> list[Case]:
    """`clean.search_matching_paths` on a read-only connection to a database file, as the
    `stepup clean` tool opens it (`tool.connect_graph_db` -> `connect(path, read_only=True)`)."""
    import os
    import shutil
    import tempfile

    from path import Path
    from stepup.core.clean import search_matching_paths
    from stepup.core.sqlite3 import DBSession, connect
    from stepup.core.workflow import Workflow

    out = []
    tmp = tempfile.mkdtemp(prefix="verif-c18-")
    try:
        for k in range(n):
            dirs, labels = label_universe(r, 10)
            dbpath = os.path.join(tmp, f"graph{k}.db")
            with DBSession.open(dbpath) as db:
                wf = Workflow(db, dir_queue=None)
                await wf.initialize()
                async with wf.db:
                    wf.define_step(wf.root, "boot", need=Need.PLAN)
                    boot = wf.find(implkit.Step, "boot")
                    wf.declare_static_files(boot, labels)
            con = connect(dbpath, read_only=True)
            try:
                for arg in dirs + r.sample(labels, 3):
                    got = canon(search_matching_paths(con, {Path(arg)}))
                    exp = sorted({l for l in labels if l == arg or l.startswith(arg + "/")})
                    out.append(Case("clean_search_matching_paths", f"c18 clean {hexs(arg)} {hexlist(sorted(labels))}",
                                    got, {"arg": arg, "labels": labels}, ("set", exp)))
            finally:
                con.close()
    finally:
        shutil.rmtree(tmp, ignore_errors=True)
    return out


SET_SITES = {"find_owning_static_tree", "register_static_tree", "relevant_paths_under", "update_check_after_dir",
             "reconcile_target_dirs", "clean_search_matching_paths"}

SITES = [
    (site_like, 1500, 20000),
    (site_pattern, 150, 2000),
    (site_owning, 25, 400),
    (site_register_tree, 60, 1000),
    (site_relevant, 25, 400),
    (site_ranges, 25, 400),
    (site_justified, 25, 400),
    (site_clean, 25, 400),
]


async def gather_cases(ctx) -> list[Case]:
    if getattr(ctx, "_c18_cases", None) is None:
        cases = []
        for fn, q, t in SITES:
            cases += await fn(ctx.rng(fn.__name__), ctx.budget(q, t))
        ctx._c18_cases = cases
    return ctx._c18_cases


def _justified_model(case: Case, answers: dict) -> str:
    return answers


async def correspond(ctx):
    cases = await gather_cases(ctx)
    ctx.stats.rule = ("label universes over an alphabet with upper/lower pairs, %, _, \\, ., 0, -, ~, space and "
                      "non-ASCII letters; a case is one (site, directory, label set); non-trivial = the selected set "
                      "is neither empty nor everything, or the site raised; distinct by (site, input)")
    # extra model ops for the composite site
    lines, index = [], []
    for c in cases:
        if c.site == "is_justified_without_node":
            p, trees, static = c.inp["path"], c.inp["trees"], c.inp["static"]
            lines += [f"c18 inside {hexs(p)} {hexlist(trees)}", f"c18 contains {hexs(p)} {hexlist(trees)}",
                      f"c18 range {hexs(p)} {hexlist(sorted(static))}"]
            index.append((c, 3))
        elif c.line:
            lines.append(c.line)
            index.append((c, 1))
        else:
            index.append((c, 0))
    answers = common.run_driver(lines) if lines else []
    pos = 0
    for c, k in index:
        ans = answers[pos:pos + k]
        pos += k
        ctx.stats.count(c.site)
        if c.site == "is_justified_without_node":
            inside, contains, rng_ = ans
            p = c.inp["path"]
            model = inside == "1" or (p.endswith("/") and (contains == "1" or rng_ != "."))
            impl = bool(c.inp["impl"])
            ctx.stats.case((c.site, p, tuple(c.inp["trees"]), tuple(c.inp["static"])), model)
            if model != impl:
                ctx.disagree(c.site, c.inp, model, impl)
            continue
        if k == 0:
            # the implementation did something the harness could not even phrase for the model
            ctx.stats.case((c.site, repr(c.inp)), True)
            if c.site == "register_static_tree" and c.impl.startswith("exc:graph"):
                ctx.stats.count("register_static_tree.rejected")
                continue
            ctx.disagree(c.site, c.inp, "(no model request)", c.impl)
            continue
        model = ans[0]
        if c.site in SET_SITES:
            model = canon(unhexlist(model))
        if c.site == "find_owning_static_tree":
            model = _model_multi(model)
        if c.site == "has_regular_output_under":
            model = "0" if model == "." else "1"
        nontrivial = model not in (".", "0", "none")
        ctx.stats.case((c.site, c.line), nontrivial)
        if model != c.impl:
            ctx.disagree(c.site, c.inp, model, c.impl)
        elif len(ctx.stats.samples) < 8 and nontrivial and ctx.stats.distribution[c.site] == 3:
            ctx.stats.sample({"site": c.site, "input": c.inp, "selected": c.impl})
    ctx.stats.programs = len(SITES)


def _oracle_check(c: Case):
    """Decide the property for one case on the implementation alone; None = holds."""
    if c.expect is None:
        return None
    kind, exp = c.expect
    if c.site == "is_justified_without_node":
        got = bool(c.inp["impl"])
        return None if got == exp else (got, exp)
    if kind == "set":
        got = sorted(unhexlist(c.impl)) if not c.impl.startswith(("exc:", "elevated", "flagged")) else c.impl
        return None if got == sorted(exp) else (got, sorted(exp))
    if kind == "nonempty":
        got = c.impl == "1"
        return None if got == bool(exp) else (got, bool(exp))
    if kind == "owner":
        if len(exp) > 1:
            return None if c.impl == "multi" else (c.impl, "multi")
        got = sorted(unhexlist(c.impl)) if not c.impl.startswith(("exc:", "multi")) else c.impl
        return None if got == sorted(exp) else (got, sorted(exp))
    return None


def _signature(c: Case, got, exp) -> str:
    """Classify a failing selection: which kind of path was wrongly in or out."""
    if isinstance(got, list) and isinstance(exp, list):
        extra = [x for x in got if x not in exp]
        missing = [x for x in exp if x not in got]
        d = c.inp.get("dir") or c.inp.get("arg") or c.inp.get("path") or ""
        if extra and all(x.lower().startswith(d.lower().rstrip("/")) and not x.startswith(d.rstrip("/")) for x in extra) \
                and not missing:
            return "like-ascii-case"
        return f"{c.site}:{'extra' if extra else ''}{'missing' if missing else ''}" + (":root-directory" if d == "./" else "")
    return f"{c.site}:wrong" + (":root-directory" if (c.inp.get("dir") == "./") else "")


async def search(ctx):
    """Oracle: each site against `str.startswith` on the slash-terminated directory."""
    cases = await gather_cases(ctx)
    for c in cases:
        bad = _oracle_check(c)
        if bad is None:
            continue
        got, exp = bad
        if c.site == "find_owning_static_tree" and isinstance(got, list) and isinstance(exp, list):
            # F12: the path is extended by '/' before the test; state the property for the extended path
            pass
        ctx.finding(Finding(PID, _signature(c, got, exp),
                            f"{c.site} selects {got!r}, the paths under the directory are {exp!r}",
                            {"site": c.site, "input": c.inp, "observed": got, "expected": exp}))


async def replay(ctx, detail):
    d = detail.get("detail", {})
    ctx.tier = "quick"
    cases = await gather_cases(ctx)
    hits = [c for c in cases if c.site == d.get("site") and _oracle_check(c) is not None]
    return {"reproduced": bool(hits), "site": d.get("site"),
            "example": hits[0].inp if hits else None}
