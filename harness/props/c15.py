"""C15: requests that change the workflow are applied atomically.

Correspondence: (1) kernel request sequences (declarations scope, including the composite
`declare_static` request that can fail at any internal stage): after a rejected request the model
keeps its state, and the implementation's digest must equal the model's; (2) the real `DBSession`
driven by several asyncio tasks under generated schedules against the session model;
(3) the regenerated handler-shape table.  Oracle: on the implementation alone, the canonical dump
after every rejected request equals the dump before it; concurrent transactions never interleave.
"""

from __future__ import annotations

import asyncio

import common
import implkit  # noqa: F401
import kcorr
from common import Finding

from stepup.core.sqlite3 import DBSession

PID = "C15"
LEVEL = "proof"
ASSUMPTIONS = [
    "SQLite applies or rolls back a transaction atomically (BEGIN IMMEDIATE .. COMMIT/ROLLBACK)",
    "'received in full is applied in full' at the connection level (handler tasks are not cancelled by a vanishing "
    "peer) is covered by the C16 check of rpc.py; here the request bodies and the session are modelled",
]
SCOPES = {"declarations", "scheduler", "completion", "propagation"}


class RollbackObserver:
    def __init__(self, ctx, run):
        self.ctx = ctx
        self.prev = None

    def __call__(self, run, op, line, ans):
        dump = run._last_dump
        if ans.startswith("err ") and self.prev is not None and op not in ("pop",):
            self.ctx.stats.count("oracle-rejected-requests")
            if dump != self.prev:
                diff = sorted(set(dump) ^ set(self.prev))[:6]
                self.ctx.finding(Finding(PID, f"rejected-request-left-traces:{op}",
                                         f"the rejected request '{kcorr.decode_line(line)[:140]}' changed the stored "
                                         f"workflow", {"changed_rows": diff,
                                                       "requests": [kcorr.decode_line(x) for x in run.lines][-12:],
                                                       "protocol_lines": list(run.lines)}))
        self.prev = dump


async def session_case(r, ntask: int, nops: int):
    """A random schedule of enter/exec/exit operations of `ntask` tasks on the real DBSession.

    Each task is an asyncio task executing its own list of operations; the harness decides which
    task performs its next operation by releasing one gate at a time, so the interleaving is the
    generated one.  Returns (schedule tokens, outcomes, committed rows)."""
    import sqlite3

    schedule = []
    outcomes = []
    with DBSession.open(":memory:") as db:
        async with db:
            db.execute("CREATE TABLE log(v INTEGER)")
        gates = {t: asyncio.Queue() for t in range(ntask)}
        done = asyncio.Queue()

        async def worker(t):
            inside = False
            while True:
                cmd = await gates[t].get()
                if cmd is None:
                    break
                kind, val = cmd
                try:
                    if kind == "e":
                        if inside:
                            await db.__aenter__()  # raises: nested request within the same task
                        if db._lock.locked() and not inside:
                            await done.put("w")  # would wait for the lock: do not block the harness
                            continue
                        await db.__aenter__()
                        inside = True
                        await done.put("d")
                    elif kind == "x":
                        db.execute("INSERT INTO log VALUES (?)", (val,))
                        await done.put("d")
                    elif kind in ("c", "r"):
                        if not inside:
                            # `__aexit__` is only ever called by `async with`, paired with `__aenter__`
                            await done.put("f")
                            continue
                        inside = False
                        if kind == "c":
                            await db.__aexit__(None, None, None)
                        else:
                            await db.__aexit__(ValueError, ValueError("boom"), None)
                        await done.put("d")
                except RuntimeError:
                    await done.put("f")
                except sqlite3.Error:
                    await done.put("f")
            if inside:
                await db.__aexit__(ValueError, ValueError("end"), None)

        tasks = [asyncio.create_task(worker(t)) for t in range(ntask)]
        val = 0
        for _ in range(nops):
            t = r.randrange(ntask)
            kind = r.choice(["e", "e", "x", "x", "x", "c", "r"])
            val += 1
            tok = f"{kind}:{t}:{val}" if kind == "x" else f"{kind}:{t}"
            await gates[t].put((kind, val))
            out = await asyncio.wait_for(done.get(), 5)
            schedule.append(tok)
            outcomes.append(out)
        for t in range(ntask):
            await gates[t].put(None)
        await asyncio.wait_for(asyncio.gather(*tasks), 5)
        async with db:
            rows = [v for (v,) in db.execute("SELECT v FROM log ORDER BY rowid")]
    return schedule, outcomes, rows


async def correspond(ctx):
    await kcorr.run(ctx, SCOPES, observers=[RollbackObserver], quick=(100, 60), thorough=(2000, 80),
                    exotic_share=0.35, salt="c15")
    # the session model against the real DBSession
    r = ctx.rng("session")
    lines, impl = [], []
    for i in range(ctx.budget(150, 3000)):
        sched, outs, rows = await session_case(r, r.choice([1, 2, 3]), r.choice([6, 10, 16]))
        lines.append("c15 session " + (",".join(sched) or "."))
        impl.append(",".join(outs) + " " + ",".join(str(v) for v in rows))
        ctx.stats.case(("session", lines[-1]), len(rows) > 0)
    for line, a, b in zip(lines, common.run_driver(lines), impl):
        ctx.stats.count("session-schedules")
        if a != b:
            ctx.disagree("DBSession", {"schedule": line}, a, b)
    ctx.stats.sample({"session_schedule": lines[0], "outcomes_and_committed_rows": impl[0]})


async def search(ctx):
    """Oracle on the implementation alone: statements of one transaction are contiguous in the log
    and only committed transactions appear."""
    r = ctx.rng("session-oracle")
    for i in range(ctx.budget(150, 3000)):
        sched, outs, rows = await session_case(r, 3, 16)
        # replay the schedule with plain Python bookkeeping of who holds the lock
        holder, pending, committed = None, [], []
        for tok, out in zip(sched, outs):
            parts = tok.split(":")
            kind, t = parts[0], int(parts[1])
            if out != "d":
                continue
            if kind == "e":
                holder, pending = t, []
            elif kind == "x":
                pending.append(int(parts[2]))
            elif kind == "c":
                committed += pending
                holder, pending = None, []
            elif kind == "r":
                holder, pending = None, []
        if rows != committed:
            ctx.finding(Finding(PID, "session-not-serial", "committed rows differ from the serial application of the "
                                "transactions that were left normally",
                                {"schedule": sched, "outcomes": outs, "rows": rows, "expected": committed}))


async def replay(ctx, detail):
    sig = detail.get("signature", "")
    await correspond(ctx)
    await search(ctx)
    return {"reproduced": any(f.signature == sig for f in ctx.findings), "signature": sig}
