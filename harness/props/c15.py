"""C15: requests that change the workflow are applied atomically.

Correspondence: (1) kernel request sequences (declarations scope, including the composite
`declare_static` request that can fail at any internal stage): after a rejected request the model
keeps its state, and the implementation's digest must equal the model's; (2) the real `DBSession`
driven by several asyncio tasks under generated schedules against the session model;
(3) the regenerated handler-shape table.  Oracle: on the implementation alone, the canonical dump
after every rejected request equals the dump before it; concurrent transactions never interleave.
"""

from __future__ import annotations

import asyncio

import common
import implkit  # noqa: F401
import kcorr
from common import Finding

from stepup.core.sqlite3 import DBSession

PID = "C15"
LEVEL = "proof"
ASSUMPTIONS = [
    "SQLite applies or rolls back a transaction atomically (BEGIN IMMEDIATE .. COMMIT/ROLLBACK)",
    "'received in full is applied in full' at the connection level is decided by the oracle shared with C16 "
    "(props.c16.applied_after_disconnect): real RPCServerConnections on in-memory streams and a virtual clock; a "
    "handler that waits on a future or on a lock (like a request waiting for the database session) after its "
    "request arrived in full, the requester going away in every way (EOF/half-close, reset, polite close message, "
    "close message then EOF, vanished with a lost writer, death in the middle of a later request, server stop) at "
    "every point (right after the request, after another reply, while the writer is blocked), one hour of virtual "
    "time, then the release: the handler must run to completion exactly once and a call on another connection "
    "must be answered; the request bodies and the session themselves are modelled here",
]
SCOPES = {"declarations", "scheduler", "completion", "propagation"}


class RollbackObserver:
    def __init__(self, ctx, run):
        self.ctx = ctx
        self.prev = None

    def __call__(self, run, op, line, ans):
        dump = run._last_dump
        if ans.startswith("err ") and self.prev is not None and op not in ("pop",):
            self.ctx.stats.count("oracle-rejected-requests")
            if dump != self.prev:
                diff = sorted(set(dump) ^ set(self.prev))[:6]
                self.ctx.finding(Finding(PID, f"rejected-request-left-traces:{op}",
                                         f"the rejected request '{kcorr.decode_line(line)[:140]}' changed the stored "
                                         f"workflow", {"changed_rows": diff,
                                                       "requests": [kcorr.decode_line(x) for x in run.lines][-12:],
                                                       "protocol_lines": list(run.lines)}))
        self.prev = dump


async def session_case(r, ntask: int, nops: int):
    """A random schedule of enter/exec/exit operations of `ntask` tasks on the real DBSession.

    Each task is an asyncio task executing its own list of operations; the harness decides which
    task performs its next operation by releasing one gate at a time, so the interleaving is the
    generated one.  Returns (schedule tokens, outcomes, committed rows)."""
    import sqlite3

    schedule = []
    outcomes = []
    with DBSession.open(":memory:") as db:
        async with db:
            db.execute("CREATE TABLE log(v INTEGER)")
        gates = {t: asyncio.Queue() for t in range(ntask)}
        done = asyncio.Queue()

        async def worker(t):
            inside = False
            while True:
                cmd = await gates[t].get()
                if cmd is None:
                    break
                kind, val = cmd
                try:
                    if kind == "e":
                        if inside:
                            await db.__aenter__()  # raises: nested request within the same task
                        if db._lock.locked() and not inside:
                            await done.put("w")  # would wait for the lock: do not block the harness
                            continue
                        await db.__aenter__()
                        inside = True
                        await done.put("d")
                    elif kind == "x":
                        db.execute("INSERT INTO log VALUES (?)", (val,))
                        await done.put("d")
                    elif kind in ("c", "r"):
                        if not inside:
                            # `__aexit__` is only ever called by `async with`, paired with `__aenter__`
                            await done.put("f")
                            continue
                        inside = False
                        if kind == "c":
                            await db.__aexit__(None, None, None)
                        else:
                            await db.__aexit__(ValueError, ValueError("boom"), None)
                        await done.put("d")
                except RuntimeError:
                    await done.put("f")
                except sqlite3.Error:
                    await done.put("f")
            if inside:
                await db.__aexit__(ValueError, ValueError("end"), None)

        tasks = [asyncio.create_task(worker(t)) for t in range(ntask)]
        val = 0
        for _ in range(nops):
            t = r.randrange(ntask)
            kind = r.choice(["e", "e", "x", "x", "x", "c", "r"])
            val += 1
            tok = f"{kind}:{t}:{val}" if kind == "x" else f"{kind}:{t}"
            await gates[t].put((kind, val))
            out = await asyncio.wait_for(done.get(), 5)
            schedule.append(tok)
            outcomes.append(out)
        for t in range(ntask):
            await gates[t].put(None)
        await asyncio.wait_for(asyncio.gather(*tasks), 5)
        async with db:
            rows = [v for (v,) in db.execute("SELECT v FROM log ORDER BY rowid")]
    return schedule, outcomes, rows


async def correspond(ctx):
    await kcorr.run(ctx, SCOPES, observers=[RollbackObserver], quick=(100, 60), thorough=(2000, 80),
                    exotic_share=0.35, salt="c15")
    # the session model against the real DBSession
    r = ctx.rng("session")
    lines, impl = [], []
    for i in range(ctx.budget(150, 3000)):
        sched, outs, rows = await session_case(r, r.choice([1, 2, 3]), r.choice([6, 10, 16]))
        lines.append("c15 session " + (",".join(sched) or "."))
        impl.append(",".join(outs) + " " + ",".join(str(v) for v in rows))
        ctx.stats.case(("session", lines[-1]), len(rows) > 0)
    for line, a, b in zip(lines, common.run_driver(lines), impl):
        ctx.stats.count("session-schedules")
        if a != b:
            ctx.disagree("DBSession", {"schedule": line}, a, b)
    ctx.stats.sample({"session_schedule": lines[0], "outcomes_and_committed_rows": impl[0]})


class _Stub:
    """Stands in for the builder / executor of a `DirectorHandler` (hash jobs are not run)."""

    def __init__(self):
        self.submitted = []
        self.hash_queue = self
        self.wake_job_loop = asyncio.Event()
        self.deferred = []

    def submit(self, path, old_hash, cause):
        self.submitted.append(path)

    async def run_promoted_hash_jobs(self, to_check, cause):
        import os

        from stepup.core.exceptions import HashFailedError

        self.submitted.extend(to_check)
        for path in to_check:
            if os.path.isdir(path):  # what `compute_file_digest` does with a directory
                raise HashFailedError(f"Cannot hash a directory: {path}")

    def defer(self, job_i, **kwargs):
        self.deferred.append(job_i)


PATHS = ["a.txt", "b.txt", "d/c.txt", "d/e.txt", "d/sub/g.txt", "out/x", "out/y", "o.bin"]


async def handler_case(ctx, i: int):
    """Requests of running steps through the real `DirectorHandler` coroutines (the functions the RPC
    server invokes), many of them built to be rejected at a late stage: a rejected request must leave
    the stored workflow exactly as it was."""
    import contextlib
    import os
    import tempfile

    import kdump
    from stepup.core.director import DirectorHandler
    from stepup.core.enums import Need

    r = ctx.rng("handler", i)
    found = []
    cwd = os.getcwd()
    tmp = tempfile.mkdtemp(prefix="c15-handler-")
    os.chdir(tmp)
    try:
        async with contextlib.AsyncExitStack() as cm:
            wf, sched = await cm.enter_async_context(implkit.workflow(with_scheduler=True))
            stub = _Stub()

            class Rep:
                async def __call__(self, *a, **k):
                    return None

            handler = DirectorHandler(scheduler=sched, workflow=wf, db=wf.db, reporter=Rep(), executor=stub,
                                      builder=stub, watcher=None, stop_event=asyncio.Event())
            async with wf.db:
                wf.define_step(wf.root, "./plan.py", need=Need.PLAN, _safe=True)
            with open("blk", "w") as fh:
                fh.write("a regular file\n")
            os.makedirs("d/sub", exist_ok=True)
            jobs = {}
            job = await sched.pop_next_job()
            jobs["./plan.py"] = job.job_i
            log = []
            for n in range(r.randint(6, 14)):
                async with wf.db:
                    before = kdump.dump_lines(wf)
                label = r.choice(sorted(jobs))
                job_i = jobs[label]
                kind = r.choice(["define", "define", "amend", "amend", "static", "static", "glob", "hold", "release"])
                paths = lambda k: r.sample(PATHS, r.choice(k))  # noqa: E731
                if kind == "define":
                    args = (f"s{r.randint(1, 5)}", paths((0, 1, 2)), sorted(set(r.sample(["V1", "V2"], r.choice((0, 1))))),
                            paths((0, 1, 2)), paths((0, 0, 1)))
                    call = handler.define_step(job_i, args[0], args[1], args[2], args[3], args[4], ".",
                                               r.choice([Need.DEFAULT.value, Need.OPTIONAL.value, Need.PLAN.value]),
                                               {}, False, None, None)
                elif kind == "amend":
                    args = [paths((0, 1, 2)), set(r.sample(["V1", "V2"], r.choice((0, 1)))), paths((0, 1, 2)), paths((0, 0, 1))]
                    k = r.random()
                    if k < 0.15:
                        args[2] = args[2] + ["blk/deep/o.txt"]  # `blk` is a regular file: the directory cannot be created
                    elif k < 0.3:
                        args[0] = args[0] + ["d/sub"]  # a directory (inside a static tree or not) named as a file input
                    args = tuple(args)
                    call = handler.amend_step(job_i, *args)
                elif kind == "static":
                    pats = []
                    for pat in r.sample(["*.txt", "d/*.txt", "out/*", "d/sub/*"], r.choice((0, 1, 1, 2))):
                        pats.append((pat, r.sample(PATHS, r.choice((0, 1, 2, 3)))))
                    async with wf.db:
                        products = [p for (p,) in wf.db.execute(
                            "SELECT label FROM node JOIN file ON file.node = node.i WHERE NOT detached AND state IN (15, 16, 17, 18)")]
                        claimed = {p for (p,) in wf.db.execute("SELECT label FROM node WHERE kind = 'file' AND NOT detached")}
                    free = [p for p in PATHS if p not in claimed]
                    if products and r.random() < 0.5:
                        # the trees and files of this request are acceptable, its last pattern is not:
                        # one of its matches is a file that a step builds
                        pats.append((r.choice(["*", "**"]), [r.choice(products)]))
                        args = ([], r.sample(free, min(len(free), r.choice((1, 2)))), pats)
                    else:
                        args = (sorted(r.sample(["d", "d/sub", "out"], r.choice((0, 0, 1, 2)))), paths((0, 1, 2)), pats)
                    call = handler.declare_static(job_i, *args)
                elif kind == "glob":
                    args = (r.choice(["*.txt", "d/*", "out/*"]), {}, r.sample(PATHS, r.choice((0, 1, 2, 3))))
                    call = handler.register_glob(job_i, *args)
                elif kind == "hold":
                    args = ()
                    call = handler.hold_dispatch(job_i)
                else:
                    args = ()
                    call = handler.release_dispatch(job_i)
                err = None
                try:
                    await asyncio.wait_for(call, 20)
                except Exception as exc:  # the RPC server sends any exception back to the step
                    err = f"{type(exc).__name__}: {exc}"
                async with wf.db:
                    after = kdump.dump_lines(wf)
                log.append([label, kind, repr(args)[:300], err])
                ctx.stats.count("handler-requests:" + kind)
                if err is not None:
                    ctx.stats.count("handler-requests-rejected:" + kind)
                    if after != before:
                        mech = ":hash-job-failed-after-commit" if err.startswith("HashFailedError") else ""
                        found.append((f"rejected-handler-request-left-traces:{kind}{mech}",
                                      f"the rejected {kind} request of '{label}' ({err[:120]}) changed the stored workflow",
                                      {"changed_rows": sorted(set(after) ^ set(before))[:8], "requests": log[-10:]}))
                        if not mech:
                            break
                # let the build make progress so that other steps can issue requests too
                if r.random() < 0.4:
                    job = await sched.pop_next_job()
                    if job is not None:
                        async with wf.db:
                            state = job.step.get_state().name
                        if state == "RUNNING":
                            jobs[job.step.label] = job.job_i
    finally:
        os.chdir(cwd)
        import shutil

        shutil.rmtree(tmp, ignore_errors=True)
    return found


async def search(ctx):
    """Oracle on the implementation alone: statements of one transaction are contiguous in the log
    and only committed transactions appear; a request rejected by a real `DirectorHandler`
    coroutine leaves no trace."""
    for i in range(ctx.budget(120, 3000)):
        for sig, what, detail in await handler_case(ctx, i):
            ctx.finding(Finding(PID, sig, what, {**detail, "case": {"verif_seed": ctx.seed, "salt": "handler", "index": i}}))
    # received in full is applied in full, even when the requester is gone long before the handler can run
    import props.c16 as c16

    await c16.applied_after_disconnect(ctx, PID)
    r = ctx.rng("session-oracle")
    for i in range(ctx.budget(150, 3000)):
        sched, outs, rows = await session_case(r, 3, 16)
        # replay the schedule with plain Python bookkeeping of who holds the lock
        holder, pending, committed = None, [], []
        for tok, out in zip(sched, outs):
            parts = tok.split(":")
            kind, t = parts[0], int(parts[1])
            if out != "d":
                continue
            if kind == "e":
                holder, pending = t, []
            elif kind == "x":
                pending.append(int(parts[2]))
            elif kind == "c":
                committed += pending
                holder, pending = None, []
            elif kind == "r":
                holder, pending = None, []
        if rows != committed:
            ctx.finding(Finding(PID, "session-not-serial", "committed rows differ from the serial application of the "
                                "transactions that were left normally",
                                {"schedule": sched, "outcomes": outs, "rows": rows, "expected": committed}))


async def replay(ctx, detail):
    sig = detail.get("signature", "")
    if detail.get("detail", {}).get("gone_case"):  # a scenario of the oracle shared with C16
        import props.c16 as c16

        return await c16.replay(ctx, detail)
    await correspond(ctx)
    await search(ctx)
    return {"reproduced": any(f.signature == sig for f in ctx.findings), "signature": sig}
