"""C03: a step only succeeds on inputs that were final while it ran.

Correspondence
* kernel scopes scheduler / completion / declarations / propagation (`kcorr`), with an observer that
  checks on the real database, at every dispatch, that the dispatched step has no blocking input;
* `B/Windows.lean` against the real `Scheduler.record_run_started / record_run_stopped /
  ran_concurrently / build_completed` on generated event sequences (clock with ties);
* `B/Exec.lean` against the real `Executor.execute_job` (with `_new_run`, `_compute_full_step_hash`,
  `_classify_execution`, `_report_run`), `Step.mark_completed`, and the real
  `DirectorHandler.amend_step` on a real `Workflow`/`Scheduler` with real files in a scratch
  directory; only the command (`launch_command`) and the hash thread are replaced.

Oracle (`search`): simulated builds (real director code) of generated projects whose steps read
every input when they start and once more right before they exit, under schedules that interleave
producer completion, consumer start, `amend` calls (before or after the first read) and external
edits of sources and of built files; for every step that is SUCCEEDED at the end and ran in that
build, what its last command read is compared with the content recorded for that input at the end
of the build; an input that changed between a command's two reads must end in FAIL + draining and
no later dispatch; a command must not start while a declared input is not available.
"""

from __future__ import annotations

import contextlib
import hashlib
import os
import random
import shutil
import sys
import tempfile
import time

HERE = os.path.dirname(os.path.dirname(os.path.abspath(__file__)))
if HERE not in sys.path:
    sys.path.insert(0, HERE)

import common  # noqa: E402
from common import Finding, hexlist, hexs  # noqa: E402

PID = "C03"
LEVEL = "proof"
ASSUMPTIONS = [
    "the executor's decision logic is modelled at the two hash points (before and after the command); content "
    "that changes and changes back between them (ABA) is not observable by the mechanism",
    "the tie of B/Exec.lean and B/Windows.lean to the code is the correspondence of this run (real Executor, "
    "Scheduler, Step, Workflow, DirectorHandler.amend_step; launch_command and the hash thread replaced)",
    "that the cached _ready column equals its definition for unflagged steps is C10's cache invariant (C10's oracle)",
    "whole-build statement (SUCCEEDED only on final inputs under all interleavings) is decided by the oracle on "
    "simulated builds; the simulated command reads its inputs at its start and once more before it exits",
]
SCOPES = {"scheduler", "completion", "declarations", "propagation"}

BUILT, CONFIRMED, VOLATILE, SUCCEEDED, RUNNING = 16, 14, 18, 23, 22


# ---------------------------------------------------------------------------------------------
# Kernel observer
# ---------------------------------------------------------------------------------------------


class DispatchObserver:
    def __init__(self, ctx, run):
        self.ctx = ctx

    def __call__(self, run, op, line, ans):
        legal = run.legal[-1]
        if not legal and ans.startswith("ok"):
            run.tainted = True
        if getattr(run, "tainted", False) or op != "pop" or not ans.startswith("ok") or ans.startswith("ok none"):
            return
        tok = line.split(" ")[2]
        if ":" not in tok:
            return
        label = bytes.fromhex(tok.split(":")[1]).decode()
        self.ctx.stats.count("oracle-dispatches-checked")
        rows = run.wf.db.execute(
            "SELECT f.label, f.detached, file.state, EXISTS(SELECT 1 FROM dynamic_dep WHERE dynamic_dep.i = dependency.i) "
            "FROM node AS s JOIN dependency ON dependency.sink = s.i JOIN node AS f ON f.i = dependency.source "
            "JOIN file ON file.node = f.i WHERE s.kind = 'step' AND s.label = ?", (label,)).fetchall()
        for path, detached, state, dyn in rows:
            blocking = state == VOLATILE or (dyn and not detached and state in (15, 17)) or \
                (not dyn and (detached or state not in (BUILT, CONFIRMED)))
            if blocking:
                import kcorr

                self.ctx.finding(Finding(PID, "dispatched-with-blocking-input",
                                         f"pop_next_job dispatched '{label}' although its input '{path}' "
                                         f"(state {state}, detached {detached}, dynamic {dyn}) blocks it",
                                         {"requests": [kcorr.decode_line(x) for x in run.lines][-15:],
                                          "protocol_lines": list(run.lines)}))


# ---------------------------------------------------------------------------------------------
# Correspondence 1: execution windows
# ---------------------------------------------------------------------------------------------


class _Clock:
    def __init__(self):
        self.t = 0

    def monotonic_ns(self):
        return self.t


def gen_events(r: random.Random, n: int):
    t = r.randint(0, 5)
    evs = []
    running = set()
    for _ in range(r.randint(2, 16)):
        t += r.choice([0, 0, 1, 1, 2, 5])
        k = r.random()
        if k < 0.06:
            evs.append(("x",))
            running.clear()
        elif k < 0.5 or not running:
            i = r.randint(1, n)
            evs.append(("s", i, t))
            running.add(i)
        else:
            i = r.choice(sorted(running)) if r.random() < 0.9 else r.randint(1, n)
            evs.append(("e", i, int(r.random() < 0.65), t))
            running.discard(i)
    return evs


async def corr_windows(ctx):
    import implkit
    import stepup.core.scheduler as scheduler_mod

    nseq = ctx.budget(400, 8000)
    clock = _Clock()
    saved = scheduler_mod.time
    scheduler_mod.time = clock
    lines, impl = [], []
    try:
        async with implkit.workflow(with_scheduler=True) as (wf, sched):
            for i in range(nseq):
                r = ctx.rng("win", i)
                n = r.randint(2, 4)
                evs = gen_events(r, n)
                sched.start_times.clear()
                sched.stop_times.clear()
                outs = []
                for ev in evs:
                    if ev[0] == "s":
                        clock.t = ev[2]
                        sched.record_run_started(ev[1])
                    elif ev[0] == "e":
                        clock.t = ev[3]
                        sched.record_run_stopped(ev[1], succeeded=bool(ev[2]))
                    else:
                        await sched.build_completed()

                    def tab(d):
                        return "+".join(f"{k}={v}" for k, v in sorted(d.items())) or "."

                    matrix = "".join("1" if sched.ran_concurrently(p, c) else "0"
                                     for p in range(1, n + 1) for c in range(1, n + 1))
                    outs.append(f"{tab(sched.start_times)}|{tab(sched.stop_times)}|{matrix}")
                lines.append(f"c03 win {n} " + ",".join(":".join(str(x) for x in ev) for ev in evs))
                impl.append(";".join(outs))
                ctx.stats.case(("win", tuple(evs)), len(evs) > 3)
                ctx.stats.count("windows:events", len(evs))
                if i < 2:
                    ctx.stats.sample({"window_events": evs, "answer": impl[-1][:200]})
    finally:
        scheduler_mod.time = saved
    answers = common.run_driver(lines)
    for line, a, b in zip(lines, answers, impl):
        if a != b:
            ctx.disagree("windows", line, a, b)
    ctx.stats.count("windows:sequences", nseq)


# ---------------------------------------------------------------------------------------------
# Correspondence 2: Executor.execute_job, Step.mark_completed, DirectorHandler.amend_step
# ---------------------------------------------------------------------------------------------


class _Reporter:
    def __init__(self):
        self.events = []

    async def __call__(self, tag, description, pages=None):
        self.events.append((str(tag), str(description)))

    def job_started(self, *a):
        pass

    def job_stopped(self, *a):
        pass

    async def update_progress(self, *a):
        pass


class _Files:
    """Files of the scratch directory with content ids and never-repeating mtimes."""

    def __init__(self):
        self.n = 0
        self.content: dict[str, int] = {}

    def write(self, path, cid):
        parent = os.path.dirname(path)
        if parent:
            os.makedirs(parent, exist_ok=True)
        with open(path, "w") as fh:
            fh.write(f"content {cid}\n" + "x" * cid)
        self.n += 1
        stamp = (1_600_000_000 + self.n) * 1_000_000_000
        os.utime(path, ns=(stamp, stamp))
        self.content[path] = cid

    def remove(self, path):
        with contextlib.suppress(FileNotFoundError):
            os.remove(path)
        self.content.pop(path, None)

    def disk(self):
        return dict(self.content)


def _tok(d: dict) -> str:
    return ",".join(f"{hexs(p)}={v}" for p, v in sorted(d.items())) or "."


async def exec_case(ctx, r: random.Random, index: int):
    """One scenario on the real executor; returns (protocol lines, implementation answers)."""
    import implkit  # noqa: F401
    import kdump
    import stepup.core.executor as executor_mod
    import stepup.core.scheduler as scheduler_mod
    from stepup.core.director import DirectorHandler
    from stepup.core.enums import FileState, HashUpdateCause, Need
    from stepup.core.exceptions import HashCancelledError
    from stepup.core.executor import Executor
    from stepup.core.file import File
    from stepup.core.hash import FileHash
    from stepup.core.outcome import ChildOutcome
    from stepup.core.scheduler import Scheduler
    from stepup.core.sqlite3 import DBSession
    from stepup.core.step import Step
    from stepup.core.workflow import Workflow

    files = _Files()
    keep_going = r.random() < 0.3
    cap = r.choice([100, 100, 100, 0, 1])
    sc = {
        "inputs": sorted(r.sample(["a.txt", "b.txt", "c.txt"], r.randint(1, 3))),
        "built_input": r.random() < 0.4,
        "outputs": ["o1.txt"] + (["o2.txt"] if r.random() < 0.3 else []),
        "pre_change": None, "post_change": None, "rc": 0 if r.random() < 0.85 else r.choice([1, 2]),
        "skip_output": r.random() < 0.15, "cancel_pre": r.random() < 0.04, "cancel_post": r.random() < 0.05,
        "amend": [], "unconfirm": None, "defer_direct": None, "race": None,
    }
    all_inputs = list(sc["inputs"]) + (["g.txt"] if sc["built_input"] else [])
    if r.random() < 0.12:
        sc["pre_change"] = (r.choice(all_inputs), r.choice(["edit", "remove"]))
    if r.random() < 0.2:
        sc["post_change"] = (r.choice(all_inputs), r.choice(["edit", "edit", "remove"]))
    if r.random() < 0.15:
        sc["unconfirm"] = r.choice(sc["inputs"])
    # another request touches the row of a changed input between the hash computation (outside a
    # transaction) and the transaction that records the change: re-declared, or recorded as gone
    if sc["pre_change"] is not None and r.random() < 0.5 and sc["pre_change"][0] != "g.txt":
        sc["race"] = (1, sc["pre_change"][0], "unconfirm" if sc["pre_change"][1] == "edit" or r.random() < 0.5 else "missing")
    elif sc["post_change"] is not None and r.random() < 0.5 and sc["post_change"][0] != "g.txt" \
            and sc["post_change"][0] != sc["unconfirm"]:
        sc["race"] = (2, sc["post_change"][0], "unconfirm" if sc["post_change"][1] == "edit" or r.random() < 0.5 else "missing")
    k = r.random()
    if k < 0.45:
        pool = ["d.txt", "data/x.dat", "g2.txt"] if r.random() < 0.55 else \
            ["d.txt", "data/x.dat", "data/missing.dat", "nowhere.txt", "late.txt", "g2.txt"]
        sc["amend"] = r.sample(pool, r.randint(1, 3))
    elif k < 0.55:
        sc["defer_direct"] = (["u1"] if r.random() < 0.6 else [], ["f1"] if r.random() < 0.6 else [])

    tmp = tempfile.mkdtemp(prefix="c03-exec-")
    cwd = os.getcwd()
    os.chdir(tmp)
    saved = (executor_mod.launch_command, executor_mod.ThreadWorker, Step.mark_completed, Workflow.update_file_hashes,
             Scheduler.record_run_stopped, Workflow.amend_step)
    obs = {"launched": False, "completed": [], "hash_updates": [], "stops": [], "amend": None, "carry": None,
           "checked": {}}
    phase = {"n": 0}
    try:
        for p in ["a.txt", "b.txt", "c.txt", "d.txt", "data/x.dat"]:
            files.write(p, 1)
        with DBSession.open(":memory:") as db:
            wf = Workflow(db, dir_queue=None, defer_cap=cap)
            await wf.initialize()
            sched = Scheduler(wf, db=db)
            await sched.initialize(None)
            reporter = _Reporter()
            ex = Executor(scheduler=sched, workflow=wf, db=db, reporter=reporter, explain_rerun=False,
                          keep_going=keep_going, live_progress=False, write_joblog=False, infra_env={})

            def fh(path):
                return FileHash.unknown().refreshed(path)

            async with db:
                wf.define_step(wf.root, "./plan.py", inp_paths=[], env_deps=[], out_paths=[], vol_paths=[], workdir=".",
                               need=Need.PLAN, resources=None, shell=False, env_overrides=None, _safe=True)
            job = await sched.pop_next_job()
            assert job is not None and job.step.label == "./plan.py"
            async with db:
                plan = wf.find(Step, "./plan.py")
                todo = wf.declare_static_files(plan, ["a.txt", "b.txt", "c.txt", "d.txt"])
                wf.update_file_hashes({p: fh(p) for p in todo}, cause=HashUpdateCause.CONFIRMED)
                wf.register_static_tree(plan, "data")
                if sc["built_input"] or "g2.txt" in sc["amend"]:
                    wf.define_step(plan, "prod", inp_paths=["a.txt"], env_deps=[], out_paths=["g.txt", "g2.txt"],
                                   vol_paths=[], workdir=".", need=Need.DEFAULT, resources=None, shell=False,
                                   env_overrides=None, _safe=False)
                wf.define_step(plan, "late", inp_paths=["a.txt"], env_deps=[], out_paths=["late.txt"], vol_paths=[],
                               workdir=".", need=Need.OPTIONAL, resources=None, shell=False, env_overrides=None,
                               _safe=False)
            prod_i = None
            if sc["built_input"] or "g2.txt" in sc["amend"]:
                pjob = await sched.pop_next_job()
                assert pjob is not None and pjob.step.label == "prod", pjob
                prod_i = pjob.step.i
                scheduler_mod.Scheduler.record_run_started(sched, prod_i)
                files.write("g.txt", 1)
                files.write("g2.txt", 1)
                async with db:
                    wf.update_file_hashes({"g.txt": fh("g.txt"), "g2.txt": fh("g2.txt")},
                                          cause=HashUpdateCause.SUCCEEDED)
                    wf.find(Step, "prod").mark_completed(kdump.step_token(5), False)
                sched.record_job_completed(pjob)
                prod_stopped_late = "g2.txt" in sc["amend"] and r.random() < 0.6
                if not prod_stopped_late:
                    sched.record_run_stopped(prod_i, succeeded=True)
            else:
                prod_stopped_late = False
            async with db:
                wf.define_step(wf.find(Step, "./plan.py"), "work", inp_paths=all_inputs, env_deps=[],
                               out_paths=sc["outputs"], vol_paths=[], workdir=".", need=Need.DEFAULT, resources=None,
                               shell=False, env_overrides=None, _safe=False)
            wjob = await sched.pop_next_job()
            assert wjob is not None and wjob.step.label == "work", wjob
            work_i = wjob.step.i
            recorded = {p: files.content[p] for p in all_inputs}
            dispatch_inputs = dict(recorded)

            # --- instrumentation
            orig_mark, orig_update, orig_stop, orig_amend = saved[2], saved[3], saved[4], saved[5]

            def mark(step, new_hash, wants_defer):
                res = orig_mark(step, new_hash, wants_defer)
                if step.label == "work":
                    obs["completed"].append((new_hash is not None, bool(wants_defer), bool(res)))
                return res

            def update(self_, hashes, *, cause):
                if obs.get("recording"):
                    obs["hash_updates"].append((cause.name, sorted(hashes)))
                return orig_update(self_, hashes, cause=cause)

            def stop(self_, step_i, *, succeeded):
                if step_i == work_i:
                    obs["stops"].append(bool(succeeded))
                return orig_stop(self_, step_i, succeeded=succeeded)

            def amend(self_, step, **kw):
                res = orig_amend(self_, step, **kw)
                if step.label == "work":
                    obs["amend"] = (sorted(res[0]), sorted(res[1]), sorted(res[2]))
                return res

            Step.mark_completed = mark
            Workflow.update_file_hashes = update
            Scheduler.record_run_stopped = stop
            Workflow.amend_step = amend

            class FakeWorker:
                def __init__(self, *, work, job_i):
                    self.work, self.job_i = work, job_i

                async def run_in_thread(self):
                    import threading

                    phase["n"] += 1
                    if (phase["n"] == 1 and sc["cancel_pre"]) or (phase["n"] == 2 and sc["cancel_post"]):
                        raise HashCancelledError("cancelled")
                    result = self.work(threading.Event())
                    if sc["race"] is not None and sc["race"][0] == phase["n"]:
                        _, rpath, rkind = sc["race"]
                        was, obs["recording"] = obs.get("recording"), False  # not a write of the executor
                        async with db:
                            f = wf.find(File, rpath)
                            if rkind == "unconfirm":
                                f.detach()
                                wf.declare_static_files(wf.find(Step, "./plan.py"), [rpath])
                            else:
                                wf.update_file_hashes({rpath: FileHash.unknown()}, cause=HashUpdateCause.FAILED)
                        obs["recording"] = was
                        obs["raced"] = rpath
                    return result

                def interrupt(self, sig):
                    pass

                def suspend(self):
                    pass

                def resume(self):
                    pass

            class FakeBuilder:
                async def run_promoted_hash_jobs(self, paths_hashes, cause):
                    async with db:
                        wf.update_file_hashes({p: old.refreshed(p) for p, old in paths_hashes.items()}, cause=cause)

                class wake_job_loop:  # noqa: N801
                    @staticmethod
                    def set():
                        pass

            handler = type("H", (), {})()
            handler.db, handler.scheduler, handler.workflow, handler.executor, handler.builder = db, sched, wf, ex, FakeBuilder()

            def change(spec):
                path, how = spec
                if how == "edit":
                    files.write(path, files.content.get(path, 1) + 1)
                else:
                    files.remove(path)

            async def launch(command, *, shell, env, cwd, mp_ctx, run):
                obs["launched"] = True
                if sc["unconfirm"] is not None:
                    async with db:
                        f = wf.find(File, sc["unconfirm"])
                        f.detach()
                        wf.declare_static_files(wf.find(Step, "./plan.py"), [sc["unconfirm"]])
                if prod_stopped_late:
                    sched.record_run_stopped(prod_i, succeeded=True)
                if sc["amend"]:
                    obs["carry"] = await DirectorHandler.amend_step(handler, run.job_i, sorted(sc["amend"]), set(), [], [])
                    async with db:
                        for p in obs["amend"][2]:
                            st = wf.find(File, p).get_state()
                            obs["checked"][p] = "c" if st == FileState.CONFIRMED else "b" if st == FileState.BUILT else "o"
                if sc["defer_direct"] is not None:
                    ex.defer(run.job_i, unavailable=set(sc["defer_direct"][0]), unfresh=set(sc["defer_direct"][1]))
                for out in sc["outputs"]:
                    if not (sc["skip_output"] and out == sc["outputs"][-1]):
                        files.write(out, 7)
                if sc["post_change"] is not None:
                    change(sc["post_change"])
                return ChildOutcome(sc["rc"], "", "")

            executor_mod.launch_command = launch
            executor_mod.ThreadWorker = FakeWorker
            if sc["pre_change"] is not None:
                change(sc["pre_change"])
            disk_pre = files.disk()
            obs["recording"] = True
            await wjob.coro(ex)
            obs["recording"] = False
            disk_post = files.disk()
            async with db:
                final_state = wf.find(Step, "work").get_state().name
            # --- what the model is told
            amend_unav, amend_unfresh = [], []
            defer_called = False
            lines, answers = [], []
            if obs["amend"] is not None:
                u, f, chk = obs["amend"]
                checked = ",".join(f"{hexs(p)}={obs['checked'][p]}" for p in chk) or "."
                lines.append(f"c03 carry {hexlist(u)} {hexlist(f)} {checked}")
                run_unav = sorted(set(u) | {p for p in chk if obs["checked"][p] == "o"})
                answers.append(f"{int(bool(obs['carry']))} {hexlist(run_unav)} {hexlist(f)}")
                if not obs["carry"]:
                    amend_unav, amend_unfresh = run_unav, f
                    defer_called = True
            if sc["defer_direct"] is not None and obs["launched"]:
                defer_called = True
                amend_unav = sorted(set(amend_unav) | set(sc["defer_direct"][0]))
                amend_unfresh = sorted(set(amend_unfresh) | set(sc["defer_direct"][1]))
            completion = dict(recorded)
            if sc["unconfirm"] is not None and obs["launched"]:
                completion.pop(sc["unconfirm"], None)
            if obs["amend"] is not None:
                for p in sc["amend"]:
                    ok = p in ("d.txt",) or (p == "data/x.dat") or (p == "g2.txt")
                    if ok and p not in obs["amend"][0]:
                        completion[p] = 1
            interrupted = obs["completed"][-1][2] if obs["completed"] else False
            lines.append("c03 exec " + " ".join([
                _tok(dispatch_inputs), _tok({p: disk_pre[p] for p in disk_pre}), str(int(sc["cancel_pre"])), str(sc["rc"]),
                str(int(defer_called)), hexlist(amend_unav), hexlist(amend_unfresh), _tok(completion), hexlist(sc["outputs"]),
                _tok(disk_post), str(int(sc["cancel_post"])), "9", str(int(interrupted)), str(int(keep_going)),
                hexlist([obs["raced"]] if obs.get("raced") else [])]))
            if len(obs["completed"]) != 1:
                answers.append(f"completions={obs['completed']}")
            else:
                has_hash, wants_defer, _ = obs["completed"][0]
                inputs_set = set(all_inputs) | set(sc["amend"])
                failed_inputs = sorted({p for cause, paths in obs["hash_updates"] if cause == "FAILED"
                                        for p in paths if p in inputs_set})
                out_cause = "-"
                if obs["launched"]:
                    out_calls = [c for c, paths in obs["hash_updates"] if all(p in sc["outputs"] for p in paths)
                                 and c in ("SUCCEEDED", "FAILED")]
                    out_cause = "S" if out_calls and out_calls[-1] == "SUCCEEDED" else "F"
                drain_unexpected = any(t == "ERROR" and "unexpected input changes" in d for t, d in reporter.events)
                tags = [t for t, d in reporter.events if t in ("SUCCESS", "FAIL", "DEFERRED") and d == "work"]
                answers.append(f"{int(obs['launched'])} {'9' if has_hash else '~'} {int(wants_defer)} "
                               f"{hexlist(failed_inputs)} {out_cause} {int(drain_unexpected)} "
                               f"{tags[-1] if tags else '?'} {int(sched.draining)}")
            ctx.stats.count("exec:final-state:" + final_state)
            ctx.stats.count("exec:tag:" + (answers[-1].split(" ")[6] if len(answers[-1].split(" ")) > 6 else "?"))
            ctx.stats.case(("exec", lines[-1]), obs["launched"])
            if index < 2:
                ctx.stats.sample({"exec_scenario": {k: v for k, v in sc.items()}, "model_request": lines[-1][:300],
                                  "implementation": answers[-1]})
            # the kernel-side link: SUCCEEDED in the database iff the completion carried a hash
            if obs["completed"] and (final_state == "SUCCEEDED") != obs["completed"][-1][0]:
                ctx.finding(Finding(PID, "state-hash-mismatch", f"step 'work' is {final_state} although mark_completed "
                                    f"{'got' if obs['completed'][-1][0] else 'did not get'} a step hash",
                                    {"scenario": sc}))
            return lines, answers, sc
    finally:
        (executor_mod.launch_command, executor_mod.ThreadWorker, Step.mark_completed, Workflow.update_file_hashes,
         Scheduler.record_run_stopped, Workflow.amend_step) = saved
        os.chdir(cwd)
        shutil.rmtree(tmp, ignore_errors=True)


async def corr_exec(ctx):
    import asyncio

    n = ctx.budget(250, 4000)
    all_lines, all_answers, scs = [], [], []
    for i in range(n):
        r = ctx.rng("exec", i)
        try:
            lines, answers, sc = await asyncio.wait_for(exec_case(ctx, r, i), timeout=30)
        except AssertionError as exc:
            ctx.stats.count("exec:setup-skipped")
            if os.environ.get("VERIF_DEBUG"):
                common.log("exec setup skipped", repr(exc))
            continue
        all_lines += lines
        all_answers += answers
        scs += [sc] * len(lines)
    out = common.run_driver(all_lines) if all_lines else []
    def canon(line, ans):
        if line.startswith("c03 carry"):  # the two lists are sets in the code
            parts = ans.split(" ")
            return " ".join([parts[0]] + [",".join(sorted(p.split(","))) for p in parts[1:]])
        return ans

    for line, a, b, sc in zip(all_lines, out, all_answers, scs):
        if canon(line, a) != canon(line, b):
            ctx.disagree("executor" if line.startswith("c03 exec") else "amend-handler",
                         {"request": line, "scenario": sc}, a, b)
    ctx.stats.count("exec:scenarios", n)


async def correspond(ctx):
    import kcorr

    await kcorr.run(ctx, SCOPES, observers=[DispatchObserver], salt="c03", quick=(80, 60), thorough=(1500, 80))
    await corr_windows(ctx)
    await corr_exec(ctx)
    ctx.stats.rule = (ctx.stats.rule + " | " if ctx.stats.rule else "") + (
        "windows: event sequences of 2-16 record_run_started/stopped/end-of-phase events over 2-4 step ids with "
        "repeated time stamps, compared after every event (tables and the full ran_concurrently matrix); executor: "
        "scenarios over 1-3 static and one built input, changed/removed inputs before and during the command, "
        "non-zero exit, missing output, cancelled hashing, inputs re-declared (UNCONFIRMED) during the run, amend "
        "of confirmed / tree / missing / undeclared / planned / concurrently-built inputs, direct defer; a case is "
        "one scenario, non-trivial when the command ran")


# ---------------------------------------------------------------------------------------------
# Oracle on simulated builds (runs in simpool workers)
# ---------------------------------------------------------------------------------------------


def _rng(*salt) -> random.Random:
    h = hashlib.sha256(repr(salt).encode()).digest()
    return random.Random(int.from_bytes(h[:8], "big"))


def make_spec(seed, index: int, tier: str) -> dict:
    r = _rng("c03-spec", seed, index)
    return {
        "id": [seed, index],
        "model_seed": r.randrange(1 << 30),
        "nstep": r.choice([3, 4, 4, 5, 6]),
        "njob": r.choice([2, 2, 3, 4]),
        "sched_seed": r.randrange(1 << 16),
        "mode": r.choice(["fresh", "fresh", "rebuild", "rebuild", "after-crash", "after-crash"]),
        "crash_at": r.randint(4, 45),
        "nexternal": r.choice([0, 1, 1, 2, 3]),
        "ext_seed": r.randrange(1 << 30),
        "style_seed": r.randrange(1 << 30),
        "keep_going": r.random() < 0.25,
    }


def c03_project(model, style_seed: int):
    """The model with explicit scripts: read every input, amend (before or after a first read of the
    amended path), idle for a few scheduling points, read everything once more, write the outputs."""
    import projgen
    from simdirector import A

    r = random.Random(style_seed)
    project = projgen.render(model)
    styles = {}
    for step in model.steps:
        style = r.choice(["pre", "posthoc", "posthoc"]) if step.amend_inp else "-"
        styles[step.cmd] = style
        actions = [A.read(p) for p in step.inp] + [A.getenv(e) for e in step.env]
        if step.amend_inp:
            if style == "posthoc":
                actions.extend(A.read(p, required=False) for p in step.amend_inp)
                actions.append(A.nop())
            actions.append(A.amend(inp=list(step.amend_inp)))
            actions.extend(A.read(p) for p in step.amend_inp)
        if step.fail:
            actions.append(A.exit(1))
        if step.amend_out:
            actions.append(A.amend(out=list(step.amend_out)))
        actions.extend(A.nop() for _ in range(r.randint(1, 3)))
        actions.extend(A.read(p, required=False) for p in step.inp + step.amend_inp)
        outs = step.out + step.vol + step.amend_out
        if outs and not step.amend_out and r.random() < 0.35:
            # a tool that rewrites its outputs in place with the same final content whatever it read:
            # a rerun reproduces identical outputs, and a reader in between sees the partial file
            styles[step.cmd] = styles[step.cmd] + "+const"
            actions.extend(A.write(p, f"partial {p}\n") for p in outs)
            actions.append(A.nop())
            actions.extend(A.write(p, f"constant content of {p}\n") for p in outs)
        else:
            actions.extend(A.write(p) for p in outs)
        project.scripts[step.cmd] = actions
    ext = model.glob_out_ext

    def conv(ctx):
        name = ctx.label.split(" ", 1)[1]
        yield A.read(f"g/{name}.in")
        yield A.nop()
        yield A.read(f"g/{name}.in", required=False)
        yield A.write(f"out/g_{name}.{ext}")

    conv.version = ext
    project.rules = [(r"conv \S+", conv)]
    return project, styles


def densify_amends(model, r: random.Random):
    """More amended inputs than `projgen` draws, preferring outputs of earlier steps (freshness)."""
    earlier: list[str] = [o for _, o in model.glob_steps()]
    for step in model.steps:
        if not step.amend_inp and r.random() < 0.5:
            pool = [p for p in earlier if p not in step.inp] or [p for p in sorted(model.static) + sorted(model.tree)
                                                                 if p not in step.inp]
            if pool:
                step.amend_inp = [r.choice(pool)]
                used = {p for st in model.steps for p in st.inp + st.amend_inp}
                fresh_tree = [p for p in sorted(model.tree) if p not in used]
                if fresh_tree and r.random() < 0.5:
                    # ... together with a file of the static tree that nobody has used yet: it is adopted by
                    # this very request and still UNCONFIRMED when the handler decides
                    step.amend_inp.append(r.choice(fresh_tree))
        earlier.extend(step.all_outputs())


class BuildWatch:
    """Committed step and file states, edges and logical time after every transaction."""

    def __init__(self):
        self.samples = []

    def __call__(self, sim, k):
        session = sim.session
        t = session.clock.t if session is not None else 0
        steps = dict(sim.query("SELECT label, state FROM node JOIN step ON step.node = node.i"))
        files = {lbl: (st, det, creator) for lbl, st, det, creator in sim.query(
            "SELECT f.label, file.state, f.detached, c.label FROM node AS f JOIN file ON file.node = f.i "
            "LEFT JOIN node AS c ON c.i = f.creator AND c.kind = 'step'")}
        deps = sim.query(
            "SELECT s.label, f.label, EXISTS(SELECT 1 FROM dynamic_dep WHERE dynamic_dep.i = dependency.i) "
            "FROM dependency JOIN node AS f ON f.i = dependency.source AND f.kind = 'file' "
            "JOIN node AS s ON s.i = dependency.sink AND s.kind = 'step'")
        self.samples.append((k, t, steps, files, deps))

    def before(self, t):
        last = None
        for sample in self.samples:
            if sample[1] < t:
                last = sample
            else:
                break
        return last


def _completion_tags(events):
    """Per label, the completion tags in order; a FAIL that was not preceded by a START of that label is
    an early failure (`_new_run`).  Returns (runs: label -> [tag of the n-th started command], drained_at)."""
    open_runs: dict[str, int] = {}
    tags: dict[str, list] = {}
    drained_at = None
    starts_after_drain = []
    for idx, (tag, desc, _pages) in enumerate(events):
        if tag == "START":
            tags.setdefault(desc, []).append(None)
            open_runs[desc] = len(tags[desc]) - 1
            if drained_at is not None:
                starts_after_drain.append(desc)
        elif tag in ("SUCCESS", "FAIL", "DEFERRED"):
            if desc in open_runs:
                tags[desc][open_runs.pop(desc)] = tag
        elif tag == "ERROR" and "draining due to unexpected input changes" in desc and drained_at is None:
            drained_at = idx
    return tags, drained_at, starts_after_drain


def run_build_case(spec: dict) -> dict:
    import projgen
    import simcases
    from simdirector import RandomSchedule, SimDirector
    from stepup.core.hash import FileHash

    t0 = time.time()
    findings: list[dict] = []
    counts: dict[str, int] = {}

    def count(key, n=1):
        counts[key] = counts.get(key, 0) + n

    def finding(signature, what, **detail):
        if all(f["signature"] != signature for f in findings):
            findings.append({"signature": signature, "what": what, "detail": {"spec": spec, **detail}})

    r = random.Random(spec["model_seed"])
    model = projgen.gen_model(r, nstep=spec["nstep"])
    densify_amends(model, random.Random(spec["style_seed"] ^ 0x5A5A))
    project, styles = c03_project(model, spec["style_seed"])
    rx = random.Random(spec["ext_seed"])
    sources = sorted(model.sources())
    outputs = model.available_outputs()

    def externals():
        result = []
        for _ in range(spec["nexternal"]):
            k = rx.randint(0, 90)
            kind = rx.random()
            if kind < 0.8 or not outputs:
                path = rx.choice(sources)
                result.append((k, {path: f"edited {rx.randrange(1000)} while the build runs\n"}))
            elif kind < 0.93:
                result.append((k, {rx.choice(outputs): f"tampered {rx.randrange(1000)}\n"}))
            else:
                result.append((k, {rx.choice(sources): None}))
        return result

    watch = BuildWatch()
    with SimDirector(project, seed=spec["sched_seed"]) as sim:
        kw = {"njob": spec["njob"], "resources": model.resources, "keep_going": spec["keep_going"]}
        if spec["mode"] == "rebuild":
            first = sim.build(**kw, schedule=RandomSchedule(spec["sched_seed"] + 1))
            count("first-build:" + first.status)
            for path in rx.sample(sources, min(len(sources), rx.choice([1, 2, 3]))):
                sim.write(path, "edited between the builds\n")
            if rx.random() < 0.4:
                sim.set_script("./plan.py", list(project.scripts["./plan.py"]) + [("nop",)])
        elif spec["mode"] == "after-crash":
            crashed = sim.build(**kw, schedule=RandomSchedule(spec["sched_seed"] + 1),
                                crash_after_commit=spec["crash_at"])
            count("crashed-build:" + crashed.status)
        ext = externals()
        # what the amend handler saw when it answered "carry on": read from the committed database in the same
        # event-loop turn in which the handler returns (nothing can commit in between)
        from stepup.core.director import DirectorHandler

        amend_obs = []
        orig_amend_handler = DirectorHandler.amend_step

        async def amend_seen(self_, job_i, inp_paths, *rest):
            answer = await orig_amend_handler(self_, job_i, inp_paths, *rest)
            if answer is True and inp_paths:
                marks = ",".join("?" for _ in inp_paths)
                rows = sim.query(f"SELECT label, state, detached FROM node JOIN file ON file.node = node.i "
                                 f"WHERE label IN ({marks})", tuple(str(p) for p in inp_paths))
                try:
                    label = self_.scheduler.get_job_step(job_i).label
                except Exception:  # noqa: BLE001
                    label = f"job {job_i}"
                amend_obs.append((label, sim.session.clock.t if sim.session is not None else -1,
                                  [str(p) for p in inp_paths], rows))
            return answer

        DirectorHandler.amend_step = amend_seen
        try:
            res = sim.build(**kw, schedule=RandomSchedule(spec["sched_seed"]), external=ext, on_commit=watch)
        finally:
            DirectorHandler.amend_step = orig_amend_handler
        count("builds")
        count("build-status:" + res.status + ":" + (str(res.returncode.value) if res.returncode is not None else "x"))
        count("commands", len(res.runs))
        build_failed = res.status != "done"
        recorded = {}
        fstate = {}
        for label, state, hash_json, detached in [] if build_failed else sim.query(
                "SELECT label, state, hash, detached FROM node JOIN file ON file.node = node.i"):
            fstate[label] = (state, detached)
            recorded[label] = None if hash_json is None else FileHash.from_json(hash_json).digest.hex()
        step_state = {} if build_failed else dict(
            sim.query("SELECT label, state FROM node JOIN step ON step.node = node.i WHERE NOT detached"))
        inputs: dict[str, list] = {}
        for s_label, f_label, dyn in [] if build_failed else sim.query(
                "SELECT s.label, f.label, EXISTS(SELECT 1 FROM dynamic_dep WHERE dynamic_dep.i = dependency.i) "
                "FROM dependency JOIN node AS f ON f.i = dependency.source AND f.kind = 'file' "
                "JOIN node AS s ON s.i = dependency.sink AND s.kind = 'step' WHERE NOT s.detached"):
            inputs.setdefault(s_label, []).append((f_label, dyn))

    # F9 first: what follows from it is not reported separately
    row_watch = simcases.RowWatch()
    row_watch.samples = [(k, t, steps) for k, t, steps, _, _ in watch.samples]
    reset = row_watch.windows_not_running(res.runs)
    twice = simcases.jobs_in_flight_twice(res.jobs)
    odd = simcases.job_state_anomalies(row_watch.samples, res.jobs)
    if reset or twice or odd:
        count("builds-with-row-reset-under-running-command")
        if reset:
            r0 = reset[0]
            text = (f"the command of step '{r0['step']}' (job {r0['job']}) was running (logical time {r0['window']}) "
                    f"while its step row was in state {r0['state']} at commit {r0['commit']}")
        elif twice:
            r0 = twice[0]
            text = (f"step '{r0['step']}' had two jobs in flight at once (jobs {r0['jobs']}, kinds {r0['kinds']}, "
                    f"logical times {r0['windows']})")
        else:
            r0 = odd[0]
            text = (f"the row of step '{r0['step']}' went through the states {r0['states']} while its {r0['kind']} "
                    f"job {r0['job']} was in flight (logical time {r0['window']})")
        finding("running-step-row-reset",
                f"{text}: its re-running creator redefined the step while a job of it was in flight; the build ended "
                f"with status {res.status}", resets=reset[:3], twice=twice[:3], external=ext,
                error=(res.error or "")[-1200:])
        return {"findings": findings, "counts": counts, "wall": time.time() - t0}
    if build_failed:
        import re as _re

        m = _re.search(r"Unexpected file hash update: cause=(\w+) path=\S+ state=(\w+)", res.error or "")
        sig = f"build-error:hash-update-{m.group(1)}-on-{m.group(2)}" if m else "build-" + res.status
        finding(sig, f"the build ended with status {res.status}: "
                f"{(res.error or '').strip().splitlines()[-1] if (res.error or '').strip() else ''}",
                error=(res.error or "")[-2000:], external=ext)
        return {"findings": findings, "counts": counts, "wall": time.time() - t0}

    tags, drained_at, starts_after_drain = _completion_tags(res.events)
    # (a) SUCCEEDED steps versus what their last command read
    def input_history(path, run):
        """States of `path` at the commits inside the window in which the command ran."""
        return [files.get(path, (None, 1, None))[0] for _, t, _, files, _ in watch.samples if run.start <= t <= (run.end or t)]

    def unchecked(path, run):
        """The input was, at some commit while the command ran, in a state that the completion's hash check
        skips (anything but BUILT / CONFIRMED: re-declared and UNCONFIRMED, OUTDATED because its producer
        became pending, ...)."""
        return any(st not in (BUILT, CONFIRMED) for st in input_history(path, run) if st is not None)

    last_run = {}
    for run in res.runs:
        last_run[run.label] = run
    flagged_steps = set()
    for label, run in sorted(last_run.items()):
        if step_state.get(label) != SUCCEEDED:
            continue
        count("succeeded-steps-checked")
        declared = dict(inputs.get(label, []))
        by_path: dict[str, list] = {}
        for path, digest in run.reads:
            if path in declared:
                by_path.setdefault(path, []).append(digest)
        for path, digests in by_path.items():
            count("reads-compared", len(digests))
            if recorded.get(path) is None:
                count("reads-of-inputs-without-record-at-end")
                continue
            if len(set(digests)) > 1:
                continue  # changed underneath the command: oracle (b)
            digest = digests[0]
            if recorded.get(path) != digest:
                cause = "input-unchecked-at-completion" if unchecked(path, run) else "record-updated-during-run"
                for a_label, t_amend, _paths, rows in amend_obs:
                    if a_label == label and run.start <= t_amend <= (run.end or t_amend):
                        for a_path, st, det in rows:
                            if a_path == path and (det or st not in (BUILT, CONFIRMED)):
                                sname = {12: "UNCONFIRMED", 13: "MISSING", 15: "PLANNED", 17: "OUTDATED",
                                         11: "UNDECLARED"}.get(st, str(st))
                                cause = "amend-accepted-while-input-" + ("detached" if det else sname)
                flagged_steps.add(label)
                finding("succeeded-on-stale-input:" + cause,
                        f"step '{label}' is SUCCEEDED at the end of the build; its last command read '{path}' with "
                        f"content {str(digest)[:12]} but the content recorded for that input at the end of the build "
                        f"is {str(recorded.get(path))[:12]} (dynamic={bool(declared[path])}, amend style "
                        f"{styles.get(label, '-')}, states of the input while the command ran: "
                        f"{sorted(set(x for x in input_history(path, run) if x is not None))})",
                        step=label, path=path, read=digest, recorded=recorded.get(path),
                        external=ext, reads=run.reads, events=[list(e[:2]) for e in res.events][-40:])
    # (b) an input that changed between two reads of one command: FAIL, drain, no later dispatch
    for run in res.runs:
        if run.end is None:
            continue
        seen: dict[str, str | None] = {}
        last_seen: dict[str, str | None] = {}
        changed = []
        for path, digest in run.reads:
            if path in seen and seen[path] != digest and seen[path] is not None:
                changed.append(path)
            seen.setdefault(path, digest)
            last_seen[path] = digest
        if not changed:
            continue
        count("commands-with-input-changed-underneath")
        label_tags = tags.get(run.label, [])
        tag = label_tags[run.attempt - 1] if run.attempt - 1 < len(label_tags) else None
        # the step's amended inputs count only when the amend was accepted before the last read: it was,
        # because a rejected amend ends the script
        if tag == "SUCCESS" and run.label in flagged_steps:
            count("input-change-not-failed-already-reported-as-stale-input")
        elif tag == "SUCCESS":
            # who moved the record: a re-confirmation, another step's failure handling, or nobody at all
            if unchecked(changed[0], run):
                cause = "input-unchecked-at-completion"
            elif recorded.get(changed[0]) != seen[changed[0]]:
                cause = "record-updated-during-run"
            else:
                cause = "change-ignored"
            finding("succeeded-on-stale-input:" + cause,
                    f"'{changed[0]}' changed between two reads of the command of step '{run.label}' (attempt "
                    f"{run.attempt}) and the step was reported SUCCESS instead of failing and draining (states of the "
                    f"input while the command ran: "
                    f"{sorted(set(x for x in input_history(changed[0], run) if x is not None))})",
                    step=run.label, reads=run.reads, external=ext, events=[list(e[:2]) for e in res.events][-40:])
        elif tag == "FAIL" and run.returncode == 0:
            count("input-change-detected-fail")
            if drained_at is None:
                finding("no-drain-after-input-change",
                        f"'{changed[0]}' changed under the running step '{run.label}', which failed, but the scheduler "
                        f"was not drained", step=run.label, external=ext,
                        events=[list(e[:2]) for e in res.events][-40:])
    if drained_at is not None:
        count("builds-drained")
        # the job whose completion drained the scheduler, and jobs dispatched after it was retired
        drainers = [run for run in res.runs if run.end is not None and
                    (tags.get(run.label, [None] * run.attempt)[run.attempt - 1:run.attempt] == ["FAIL"])]
        jobs = {j.job_i: j for j in res.jobs}
        for run in drainers[:1]:
            jf = jobs.get(run.job_i)
            if jf is None or jf.completed is None:
                continue
            late = [j.label for j in res.jobs if j.dispatched > jf.completed]
            if late and not spec["keep_going"]:
                finding("dispatch-after-drain", f"jobs {late} were dispatched after the job of '{run.label}' that "
                        f"drained the scheduler had been retired", external=ext,
                        events=[list(e[:2]) for e in res.events][-40:])
    # (d) freshness: an amend must not accept a BUILT input whose producer completed successfully after the
    # amending command had started (the consumer may have read the file before it was rebuilt)
    amended = {}
    for step in model.steps:
        amended[step.cmd] = list(step.amend_inp)
    for run in res.runs:
        for index, t_amend, name, result in run.actions:
            if name != "amend" or result is not True:
                continue
            sample = watch.before(t_amend + 1)
            files_then = sample[3] if sample is not None else {}
            for path in amended.get(run.label, []):
                st, det, prod = files_then.get(path, (None, 1, None))
                if st != BUILT or det or prod is None or prod == run.label:
                    continue  # the freshness rule is about BUILT outputs of other steps
                count("accepted-amends-of-built-inputs")
                for prun in res.runs:
                    label_tags = tags.get(prun.label, [])
                    ptag = label_tags[prun.attempt - 1] if prun.attempt - 1 < len(label_tags) else None
                    if prun.label == prod and prun.end is not None and ptag == "SUCCESS" and \
                            run.start < prun.end < t_amend:
                        finding("amend-accepted-input-built-during-run",
                                f"step '{run.label}' (command started at logical time {run.start}) amended the input "
                                f"'{path}' at time {t_amend} and was told to carry on, although its producer '{prod}' "
                                f"finished a successful run at time {prun.end}, after the amending command had started: "
                                f"ran_concurrently did not report it", step=run.label, path=path, producer=prod,
                                external=ext, events=[list(e[:2]) for e in res.events][-40:])
    # (e) statistics only: inputs of accepted amends that were not available when the handler answered.  The
    # property speaks about the outcome ("runs again later instead of succeed"), which oracle (a) decides; the
    # observation is used there to name the mechanism.
    for label, t_amend, paths, rows in amend_obs:
        for path, st, det in rows:
            count("accepted-amends-inputs-checked")
            if det or st not in (BUILT, CONFIRMED):
                count("accepted-amends-with-an-input-unavailable-at-the-answer")
    # (c) no command starts before its declared inputs are available
    for run in res.runs:
        sample = watch.before(run.start)
        if sample is None:
            continue
        _, _, steps_then, files_then, deps_then = sample
        for s_label, f_label, dyn in deps_then:
            if s_label != run.label or dyn:
                continue
            count("start-inputs-checked")
            state, detached, creator = files_then.get(f_label, (None, 1, None))
            if detached or state not in (BUILT, CONFIRMED):
                name = {12: "UNCONFIRMED", 13: "MISSING", 15: "PLANNED", 17: "OUTDATED", 11: "UNDECLARED"}.get(state, str(state))
                cause = "creator-rerun" if detached or state == 12 else "producer-repending" if state in (15, 17) \
                    else name
                finding("command-started-after-input-invalidated:" + cause,
                        f"the command of step '{run.label}' (attempt {run.attempt}) started at logical time {run.start} "
                        f"while its declared input '{f_label}' was {'detached, ' if detached else ''}in state {name}",
                        step=run.label, path=f_label, external=ext,
                        events=[list(e[:2]) for e in res.events][-40:])
            elif state == BUILT and creator is not None and steps_then.get(creator) != SUCCEEDED:
                finding("command-started-input-built-by-unfinished-step",
                        f"the command of step '{run.label}' started while its input '{f_label}' was BUILT but its "
                        f"producer '{creator}' was in state {steps_then.get(creator)}", step=run.label, path=f_label,
                        external=ext)
    return {"findings": findings, "counts": counts, "wall": time.time() - t0, "mode": spec["mode"],
            "shape": [len(model.steps), sum(1 for s in model.steps if s.amend_inp), spec["nexternal"]]}


def api_amend_oracle(ctx):
    """The step's side of `amend()` (the simulated director replaces `api.py`, so this glue is exercised here with
    the real function and a captured RPC client): when the director answers that the inputs are not available the
    call raises `InputNotFoundError` and remembers nothing (a later call asks again); when it answers "carry on" but
    an input is not on disk the call raises too; a directory is rejected before anything is sent."""
    import apicap
    from stepup.core.exceptions import InputNotFoundError

    with apicap.project(files=("tool.py", "src.txt", "late.txt")) as base:
        # 1. "not available": raises, and the same request is sent again by the next call
        client = apicap.make_client(answers={"amend_step": False})
        with apicap.step_process(base, client=client) as (api, _):
            outcomes = []
            for _ in range(2):
                try:
                    api.amend(inp=["late.txt"], env=["VAR_X"])
                    outcomes.append("returned")
                except InputNotFoundError:
                    outcomes.append("InputNotFoundError")
                except Exception as exc:  # noqa: BLE001
                    outcomes.append(type(exc).__name__)
            nsent = sum(1 for c in client.calls if c[0] == "amend_step")
        ctx.stats.count("api-amend:refused")
        if outcomes != ["InputNotFoundError", "InputNotFoundError"] or nsent != 2:
            ctx.finding(Finding(PID, "amend-refusal-ignored-by-client",
                                f"the director answered carry_on=False twice; amend() {outcomes}, requests sent: {nsent} "
                                "(a refused amendment must stop the step and must be asked again)",
                                {"outcomes": outcomes, "requests": nsent}))
        # 2. "carry on" although the file is not there (e.g. removed since): the client still refuses to go on
        client = apicap.make_client(answers={"amend_step": True})
        with apicap.step_process(base, client=client) as (api, _):
            try:
                api.amend(inp=["nowhere.txt"])
                got = "returned"
            except Exception as exc:  # noqa: BLE001
                got = type(exc).__name__
        ctx.stats.count("api-amend:accepted-but-missing")
        if got == "returned":
            ctx.finding(Finding(PID, "amend-accepted-input-missing-on-disk",
                                "amend(inp='nowhere.txt') returned although the file does not exist", {"outcome": got}))
        # 3. accepted and present: returns, and the same amendment is not sent twice
        client = apicap.make_client(answers={"amend_step": True})
        with apicap.step_process(base, client=client) as (api, _):
            try:
                api.amend(inp=["src.txt"], out=["made.txt"])
                api.amend(inp=["src.txt"], out=["made.txt"])
                got = "returned"
            except Exception as exc:  # noqa: BLE001
                got = type(exc).__name__
            nsent = sum(1 for c in client.calls if c[0] == "amend_step")
        ctx.stats.count("api-amend:accepted")
        if got != "returned" or nsent != 1:
            ctx.finding(Finding(PID, "amend-accepted-client-misbehaves",
                                f"an accepted amendment repeated: {got}, requests sent {nsent}", {"outcome": got, "requests": nsent}))
        # 3b. what the client remembers is which FILE was announced, not how it was spelled: from a working
        # directory below the root, a second file whose spelling from there equals the root-relative label of
        # the first must still be announced, and another spelling of the first file must not be sent again
        for f in ("data.txt", "sub/data.txt"):
            with open(os.path.join(base, f), "w") as fh:
                fh.write("d")
        client = apicap.make_client(answers={"amend_step": True})
        with apicap.step_process(base, cwd_rel="sub", client=client) as (api, _):
            try:
                api.amend(inp=["data.txt"])          # sub/data.txt
                api.amend(inp=["../data.txt"])       # data.txt: another file
                api.amend(inp=["../sub/data.txt"])   # sub/data.txt again, spelled differently
                got = "returned"
            except Exception as exc:  # noqa: BLE001
                got = type(exc).__name__
            sent = [sorted(str(x) for x in c[1][1]) for c in client.calls if c[0] == "amend_step"]
        ctx.stats.count("api-amend:spellings-below-the-root")
        if got != "returned" or sent != [["sub/data.txt"], ["data.txt"]]:
            ctx.finding(Finding(PID, "amend-history-confuses-files",
                                f"from sub/: amend('data.txt'), amend('../data.txt'), amend('../sub/data.txt') {got}; the director "
                                f"was told about {sent}, expected [['sub/data.txt'], ['data.txt']] (an input that is never "
                                "announced is never checked, hashed or linked)", {"outcome": got, "sent": sent}))
        # 4. a directory as a dynamic input is rejected before the director hears of it
        client = apicap.make_client(answers={"amend_step": True})
        with apicap.step_process(base, client=client) as (api, _):
            try:
                api.amend(inp=["sub/"])
                got = "returned"
            except Exception as exc:  # noqa: BLE001
                got = type(exc).__name__
            nsent = sum(1 for c in client.calls if c[0] == "amend_step")
        ctx.stats.count("api-amend:directory")
        if got == "returned" or nsent:
            ctx.finding(Finding(PID, "amend-directory-input-accepted",
                                f"amend(inp='sub/') {got}, requests sent {nsent}", {"outcome": got, "requests": nsent}))


def orphaned_supplier_case(ctx):
    """A static file declared by a sub-plan; in the next build the top-level plan no longer calls the sub-plan,
    and a step (run again because its own source changed) announces that file with `amend()` while nothing in the
    workflow provides it any more (the file node is detached, its creator gone): the step must not be recorded as
    SUCCEEDED on it."""
    import copy

    from simdirector import A, FifoSchedule, Project, SimDirector, plan_file

    sub = [A.static("data/table.txt")]
    report = [A.read_declared(), A.amend(inp=["data/table.txt"]), A.read("data/table.txt"), A.write_declared()]
    v1 = [A.static("src/r.txt", "sub.py"), A.step("./sub.py", inp=["sub.py"], plan=True),
          A.step("report", inp=["src/r.txt"], out=["out/report.txt"])]
    v2 = [A.static("src/r.txt"), A.step("report", inp=["src/r.txt"], out=["out/report.txt"])]
    project = Project(scripts={"./plan.py": v1, "./sub.py": sub, "report": report},
                      files={"src/r.txt": "r1\n", "sub.py": plan_file(sub, note="sub"), "data/table.txt": "t\n",
                             "plan.py": plan_file(v1, note="v1")})
    where = {"scenario": "orphaned-supplier", "reproduce": "harness/props/c03.py: orphaned_supplier_case(ctx)"}
    with SimDirector(copy.deepcopy(project), seed=3) as sim:
        res = sim.build(njob=1, schedule=FifoSchedule())
        if res.status != "done" or not res.ok:
            ctx.stats.count("scenario:orphaned-supplier:first-build-" + res.status)
            return
        sim.apply([("script", "./plan.py", v2, ""), ("write", "plan.py", plan_file(v2, note="v2")),
                   ("write", "src/r.txt", "r2\n")])
        res = sim.build(njob=1, schedule=FifoSchedule(), keep_going=True)
        ctx.stats.count("scenario:orphaned-supplier")
        if res.status != "done":
            return
        rows = sim.query("SELECT step.state FROM step JOIN node ON node.i = step.node WHERE node.label = 'report' AND NOT node.detached")
        supplier = sim.query("SELECT node.detached, node.creator FROM node WHERE node.kind = 'file' AND node.label = 'data/table.txt'")
        from stepup.core.enums import StepState
        succeeded = bool(rows) and rows[0][0] == StepState.SUCCEEDED.value
        provided = bool(supplier) and not supplier[0][0]
        if succeeded and not provided and "report" in res.commands:
            ctx.finding(Finding(PID, "succeeded-on-input-nobody-provides",
                                "'report' announced data/table.txt with amend() in a build in which no attached declaration "
                                f"provides that file (node rows: {supplier}) and is recorded SUCCEEDED (exit status {res.returncode!r})",
                                {**where, "returncode": repr(res.returncode), "events": [e[:2] for e in res.events][-12:]}))


async def search(ctx):
    import simpool

    import asyncio

    api_amend_oracle(ctx)
    await asyncio.to_thread(orphaned_supplier_case, ctx)

    ncase = ctx.budget(1500, 30000)
    specs = [make_spec(ctx.seed, i, ctx.tier) for i in range(ncase)]
    soft = 50 if ctx.tier == "quick" else 900
    ran = 0
    for status, task, res in simpool.run_retrying("props.c03", "run_build_case", specs, deadline_s=soft + 120, soft_s=soft):
        if status == "ok":
            ran += 1
            for k, v in res["counts"].items():
                ctx.stats.count("sim:" + k, v)
            ctx.stats.count("sim:mode:" + task["mode"])
            ctx.stats.programs += 1
            ctx.stats.evaluations += res["counts"].get("commands", 0)
            ctx.stats.case(("c03-build", tuple(task["id"])), res["counts"].get("succeeded-steps-checked", 0) > 0)
            if ran <= 3:
                ctx.stats.sample({"build_case": task, "counts": res["counts"]})
            for f in res["findings"]:
                ctx.finding(Finding(PID, f["signature"], f["what"], f["detail"]))
        elif status == "skipped":
            ctx.stats.count("sim:cases-not-started-in-budget")
        else:
            ctx.stats.count("sim:case-" + status)
            ctx.finding(Finding(PID, "oracle-case-" + status, f"simulated case {task['id']} ended with {status}",
                                {"spec": task, "error": str(res)[-2000:]}))
    ctx.extra["sim_cases"] = ran
    # the read-then-amend family with a directed schedule (shared with C01): the consumer reads the producer's
    # output before (or in the middle of) its rewrite and amends it only after the producer, a later start and
    # another stop; it must be run again, not recorded as succeeded on what it read
    import asyncio as _asyncio

    from props import c01 as _c01

    for i in range(ctx.budget(16, 400)):
        found, case = await _asyncio.to_thread(_c01.run_timing_case, ctx, i, salt="c03-timing")
        ctx.stats.programs += 1
        ctx.stats.count("sim:timing-family:" + ("const-producer" if case.get("const") else "plain"))
        ctx.stats.case(("c03-timing", i), bool(case.get("compared")))
        for sig, what, extra in found:
            if sig.startswith("out-of-scope:"):
                continue
            if sig == "stale-output":
                sig = "succeeded-on-stale-input:amended-after-read-while-producer-ran"
                what = ("the consumer read its amended input before its producer had finished and was recorded as "
                        "succeeded instead of being run again: " + what)
            ctx.finding(Finding(PID, sig, what, {
                "timing_case": {"verif_seed": ctx.seed, "salt": "c03-timing", "index": i}, **extra,
                "how": "props/c01.py run_timing_case(ctx, index, salt='c03-timing') with ctx of C03"}))
    # an input that is rewritten while it is being hashed must not be recorded as if the new file had been read
    import hashrace

    problems, ncase = hashrace.run(ctx.rng("hashrace"), ctx.budget(30, 400))
    ctx.stats.count("sim:refreshed-while-rewritten-cases", ncase)
    for pr in problems[:1]:
        ctx.finding(Finding(PID, "input-change-unnoticed:rewritten-while-hashed",
                            "an input rewritten right after its bytes were read for hashing is recorded with the digest of "
                            "the old content and the stat fields of the new one: every later check takes the unchanged short "
                            "cut, so a step runs and succeeds on content that the recorded hash does not describe",
                            {**pr, "how": "harness/hashrace.py run()"}))
    ctx.stats.rule = (ctx.stats.rule + " | " if ctx.stats.rule else "") + (
        "builds: one case = one generated project (3-6 steps, amended inputs on about half of them, before or "
        "after a first read), one random schedule with 2-4 jobs, fresh / rebuild after an edit / restart after a "
        "kill, 0-3 external edits of sources or built files at random scheduling decisions; evaluations = executed "
        "commands; non-trivial = at least one SUCCEEDED step compared with its reads")


async def replay(ctx, detail):
    _d = detail.get("detail", detail)
    if _d.get("timing_case"):
        import asyncio as _asyncio

        from props import c01 as _c01

        tc = _d["timing_case"]
        os.environ["VERIF_SEED"] = str(tc.get("verif_seed", 0))
        ctx.seed = int(tc.get("verif_seed", 0))
        found, case = await _asyncio.to_thread(_c01.run_timing_case, ctx, int(tc["index"]), salt=tc["salt"])
        return {"reproduced": any(not s.startswith("out-of-scope:") for s, _, _ in found),
                "signature": detail.get("signature", ""), "found": [[s, w] for s, w, _ in found]}
    import simpool

    d = detail.get("detail", {})
    sig = detail.get("signature", "")
    spec = d.get("spec")
    if spec is None:
        await correspond(ctx)
        await search(ctx)
        return {"reproduced": any(f.signature == sig for f in ctx.findings) or bool(ctx.disagreements),
                "signature": sig}
    found = []
    for status, task, res in simpool.run("props.c03", "run_build_case", [spec], deadline_s=300):
        if status == "ok":
            found = res["findings"]
    hit = [f for f in found if f["signature"] == sig]
    return {"reproduced": bool(hit), "signature": sig, "spec": spec, "what": hit[0]["what"] if hit else None,
            "other_signatures": sorted({f["signature"] for f in found})}
