"""C06: cleaning never destroys what StepUp does not own.

Correspondence (model driver `c06 ...` / kernel session vs the real code):
 1. kernel request sequences, scopes cleanup + declarations (the theorems are about `beforeDelete`,
    `deletePass`, `deleteDetachedBase`, `deleteDetached`, `revertOptional`, `detach` of the kernel model);
 2. the guard chain: the real `Builder.finalize` on a stub builder for every return code 0..63, with
    and without file / directory targets, with and without cleaning, against `cleanupRuns`;
 3. the real coroutine `finalize.remove_deletable_files` on generated scratch trees and queues
    (unchanged / modified / chmod-ed / missing files, files replaced by directories, nested and
    sibling-prefixed directories, directory keys of non-directories) against `removeDeletable`;
 4. `clean.search_matching_paths` + `search_consuming_paths` on the databases of kernel request
    sequences (detached, recycled, volatile, amended rows) against `cleanSelect`;
 5. the real `clean.clean` on the scratch trees and databases of simulated builds, after user
    modifications, for generated argument sets, against `cleanRun`.

Oracle (`search`, independent of the models): histories of simulated builds with plan edits (drop,
rename, move, re-role, adopt with static(), optional no longer needed, ...), user modifications of
outputs (overwrite, replace by a directory, delete, touch, stray files) and build options (targets,
--no-clean, keep-going with failing steps), interleaved with `stepup clean` runs.  The scratch tree is
snapshotted around every build, around the removal pass of every `finalize`, and around every clean
run, and compared with what the harness itself knows (sources of the current project, every path a
step ever declared as output and in which role, the bytes each step run wrote last).
"""

from __future__ import annotations

import asyncio
import contextlib
import copy
import os
import shutil
import sys
import tempfile
import types

HERE = os.path.dirname(os.path.dirname(os.path.abspath(__file__)))
if HERE not in sys.path:
    sys.path.insert(0, HERE)

import common  # noqa: E402
import cleankit as ck  # noqa: E402
import kcorr  # noqa: E402
from common import Finding, hexlist, hexs  # noqa: E402

PID = "C06"
LEVEL = "proof"
ASSUMPTIONS = [
    "a regular output counts as unmodified when content, mode and size equal the record (FileHash.__eq__); a change "
    "that keeps mtime, size, inode and mode is invisible to FileHash.refreshed (C13) and is not generated",
    "the rows in state VOLATILE/BUILT/OUTDATED are paths some step declared as output: decided by the oracle on "
    "simulated histories (the history invariant EverOutput is not a theorem over all requests yet)",
    "the file system model has regular files and directories only (no symbolic links, no permission errors); "
    "os.rmdir refusing a non-empty directory is trusted",
    "a path that was declared volatile (also by an optional step that never ran) is removed whatever it contains; the "
    "property allows this",
]
SCOPES = {"cleanup", "declarations"}


# ---------------------------------------------------------------------------------------------
# Correspondence 2: guard chain of Builder.finalize
# ---------------------------------------------------------------------------------------------


async def finalize_on_stub(rc: int, ntargets: int, ndirs: int, clean: bool) -> list[str]:
    """Call the real `Builder.finalize` on a stub `self`; returns the cleanup entry points it called."""
    import stepup.core.builder as builder_mod
    from stepup.core.enums import ReturnCode

    calls: list[str] = []

    class Reporter:
        async def __call__(self, *a, **k):
            return None

        async def warn_about_logs(self):
            return None

    class Db:
        async def __aenter__(self):
            return None

        async def __aexit__(self, *a):
            return False

    async def nothing(*a, **k):
        return None

    stub = types.SimpleNamespace(
        reporter=Reporter(), db=Db(), returncode=None, do_remove_outdated=clean,
        scheduler=types.SimpleNamespace(run_counter=0, build_completed=nothing),
        workflow=types.SimpleNamespace(targets=[f"t{i}" for i in range(ntargets)],
                                       target_dirs=[f"d{i}/" for i in range(ndirs)],
                                       delete_detached=lambda: calls.append("delete_detached")),
        _report_counts=nothing,
    )

    async def report_unbuilt(workflow, scheduler, reporter):
        return ReturnCode(rc)

    async def revert(workflow, reporter):
        calls.append("revert_optional_steps")

    async def remove(workflow, reporter):
        calls.append("remove_deletable_files")

    saved = (builder_mod.report_unbuilt, builder_mod.revert_optional_steps, builder_mod.remove_deletable_files)
    builder_mod.report_unbuilt, builder_mod.revert_optional_steps, builder_mod.remove_deletable_files = (
        report_unbuilt, revert, remove)
    try:
        await asyncio.wait_for(builder_mod.Builder.finalize(stub), 10)
    finally:
        builder_mod.report_unbuilt, builder_mod.revert_optional_steps, builder_mod.remove_deletable_files = saved
    return calls


async def correspond_guards(ctx):
    lines, impl = [], []
    for rc in range(64):
        for nt in (0, 1, 2):
            for nd in (0, 1):
                for clean in (False, True):
                    calls = await finalize_on_stub(rc, nt, nd, clean)
                    full = ["revert_optional_steps", "delete_detached", "remove_deletable_files"]
                    if calls not in ([], full):
                        ctx.disagree("finalize-guards", {"rc": rc, "targets": nt, "dirs": nd, "clean": clean},
                                     "all or nothing", calls)
                    lines.append(f"c06 guard {nt} {nd} {rc} {int(clean)}")
                    impl.append("1" if calls else "0")
                    ctx.stats.case(("guard", rc, nt, nd, clean), True)
    for line, a, b in zip(lines, common.run_driver(lines), impl):
        if a != b:
            ctx.disagree("finalize-guards", {"request": line}, a, b)
    ctx.stats.count("guard-chain-cases", len(lines))
    ctx.stats.sample({"guard_request": lines[9], "cleanup_ran": impl[9]})


# ---------------------------------------------------------------------------------------------
# Correspondence 3: remove_deletable_files on generated trees
# ---------------------------------------------------------------------------------------------

RM_DIRS = ["a", "a/b", "ab", "c", "c/d/e"]
RM_FILES = ["a/x", "a/b/y", "a/b.txt", "ab/z", "c/w", "c/d/e/v", "top", "a/b/y2"]


def gen_rm_case(r, root: str, tokens: ck.Tokens):
    """Build a tree under `root` and a queue; returns `(queue of real hashes, queue tokens)`."""
    from stepup.core.hash import FileHash

    clock = [1_700_000_000]

    def write(path, content, mode=0o644):
        full = os.path.join(root, path)
        os.makedirs(os.path.dirname(full) or root, exist_ok=True)
        with open(full, "w") as fh:
            fh.write(content)
        os.chmod(full, mode)
        clock[0] += 7
        os.utime(full, (clock[0], clock[0]))

    for d in RM_DIRS:
        if r.random() < 0.6:
            os.makedirs(os.path.join(root, d), exist_ok=True)
    queue: dict = {}
    for path in RM_FILES:
        k = r.random()
        if k < 0.2:
            present = None
        else:
            write(path, f"content of {path} v{r.randint(0, 2)}\n")
            present = "file"
        if r.random() < 0.7:
            # queued: recorded hash of what is there now, then possibly modified
            how = r.choice(["same", "same", "changed", "chmod", "volatile", "dir", "gone", "never"])
            if how == "volatile":
                queue[path] = None
            elif present is None or how == "never":
                queue[path] = FileHash(b"\x07" * 32, 0o100644, 1.0, 5, 1)
            else:
                queue[path] = FileHash.unknown().refreshed(os.path.join(root, path))
                if how == "changed":
                    write(path, f"edited {path}\n")
                elif how == "chmod":
                    os.chmod(os.path.join(root, path), 0o600)
                elif how == "dir":
                    os.unlink(os.path.join(root, path))
                    os.makedirs(os.path.join(root, path, "inner"), exist_ok=True)
                elif how == "gone":
                    os.unlink(os.path.join(root, path))
        elif present == "file" and r.random() < 0.15:
            os.unlink(os.path.join(root, path))
            os.makedirs(os.path.join(root, path), exist_ok=True)
    for d in RM_DIRS + ["zz", "a/x", "top"]:
        if r.random() < 0.5:
            queue[d + "/"] = None
    return queue, {p: tokens.of_hash(h) for p, h in queue.items()}


async def correspond_remove(ctx):
    from stepup.core.finalize import remove_deletable_files

    n = ctx.budget(250, 4000)
    lines, impl, cases = [], [], []
    base = tempfile.mkdtemp(prefix="verif-c06-rm-")
    old_cwd = os.getcwd()
    try:
        for i in range(n):
            r = ctx.rng("rm", i)
            root = os.path.join(base, f"t{i}")
            os.makedirs(root)
            tokens = ck.Tokens()
            queue, qtok = gen_rm_case(r, root, tokens)
            fs_tok, _ = ck.encode_tree(root, tokens)
            events: list[str] = []

            async def reporter(tag, text, pages=None, events=events):
                if tag == "REMOVE":
                    events.append(str(text))

            wf = types.SimpleNamespace(to_be_deleted=dict(queue))
            os.chdir(root)
            try:
                await asyncio.wait_for(remove_deletable_files(wf, reporter), 20)
            finally:
                os.chdir(old_cwd)
            after_tok, _ = ck.encode_tree(root, tokens)
            qline = ",".join(f"{hexs(p)}={'~' if t is None else t}" for p, t in qtok.items()) or "."
            lines.append(f"c06 rm {qline} {fs_tok}")
            impl.append(f"{hexlist(events)} {after_tok}")
            cases.append({"queue": {p: t for p, t in qtok.items()}, "tree": fs_tok, "removed": events})
            ctx.stats.case(("rm", qline, fs_tok), bool(events))
            ctx.stats.count("rm-removed-files+dirs", len(events))
            if wf.to_be_deleted:
                ctx.disagree("remove_deletable_files", cases[-1], "queue cleared", dict(wf.to_be_deleted))
            shutil.rmtree(root, ignore_errors=True)
    finally:
        os.chdir(old_cwd)
        shutil.rmtree(base, ignore_errors=True)
    for line, a, b, case in zip(lines, common.run_driver(lines), impl, cases):
        if a != b:
            ctx.disagree("remove_deletable_files", {"request": kcorr.decode_line(line), "case": case}, a, b)
    ctx.stats.count("rm-cases", n)
    ctx.stats.sample({"remove_deletable_files": kcorr.decode_line(lines[0]), "removed_then_tree": kcorr.decode_line(impl[0])})


# ---------------------------------------------------------------------------------------------
# Correspondence 4: the selection of `stepup clean` on kernel databases
# ---------------------------------------------------------------------------------------------


async def correspond_select(ctx):
    import corr_kernel
    import kdump
    from stepup.core import clean as clean_mod

    nseq = ctx.budget(40, 600)
    lines, impl = [], []
    for i in range(nseq):
        r = ctx.rng("select", i)
        run = corr_kernel.KernelRun(r, exotic=False)
        async with contextlib.AsyncExitStack() as cm:
            await run.generate(cm, 45)
            wf = run.wf
            async with wf.db:
                con = wf.db._con
                db = ck.read_db(lambda sql: con.execute(sql).fetchall())
                tokens = ck.Tokens()
                # the kernel harness stores hashes made from integer tokens: keep those integers
                tokens.of_json = lambda text: None if text is None else int(kdump.token_of_file_hash(text)) \
                    if kdump.token_of_file_hash(text) != "~" else None
                nodes, deps = ck.encode_state(db, tokens)
                for _ in range(6):
                    paths = r.sample(corr_kernel.PATHS + corr_kernel.DIRS[:4] + ["."], r.choice([1, 1, 2]))
                    paths = [p.rstrip("/") or "." for p in paths]
                    all_ = r.random() < 0.5
                    matching = clean_mod.search_matching_paths(con, {Path_(p) for p in paths})
                    rows = clean_mod.search_consuming_paths(con, matching, not all_)
                    rows.sort(reverse=True)
                    got = ",".join(
                        f"{hexs(str(p))}:{st.name}:{int(det)}:{kdump.token_of_file_hash(fh.to_json())}"
                        for p, st, det, fh in rows) or "."
                    lines.append(f"c06 select {nodes} {deps} {hexlist(paths)} {int(all_)}")
                    impl.append(got)
                    ctx.stats.case(("select", lines[-1]), got != ".")
    for line, a, b in zip(lines, common.run_driver(lines), impl):
        if a != b:
            ctx.disagree("clean-selection", {"request": kcorr.decode_line(line)[:1500]}, kcorr.decode_line(a),
                         kcorr.decode_line(b))
    ctx.stats.count("clean-selection-cases", len(lines))


def Path_(p):
    from path import Path

    return Path(p)


# ---------------------------------------------------------------------------------------------
# Simulated histories: oracle + correspondence 5
# ---------------------------------------------------------------------------------------------


def finding(found, sig, what, detail):
    if all(f.signature != sig for f in found):
        found.append(Finding(PID, sig, what, detail))


def under(d: str, p: str) -> bool:
    return p.startswith(d + "/")


def check_removal(found, truth, before, after, where, case, *, unsafe=False, removed_ok=None, sources=None):
    """The oracle proper: compare two snapshots of the scratch tree taken around a cleanup."""
    files0, dirs0 = before
    files1, dirs1 = after
    removed = sorted(set(files0) - set(files1))
    for path in removed:
        why = truth.unjustified(path, files0[path], unsafe=unsafe, sources=sources)
        if why is None and removed_ok is not None and not removed_ok(path):
            why = "attached-output-removed-without-all"
        if why is not None:
            finding(found, f"{why}:{where}", f"{where} removed {path}: {why}",
                    {**case, "removed": path, "content_before": files0[path],
                     "contents_stepup_may_have_recorded": sorted(truth.recorded_contents(path)),
                     "role_at_last_declaration": truth.ever_output.get(path)})
    for path in sorted(set(files0) & set(files1)):
        if files0[path] != files1[path]:
            finding(found, f"file-changed:{where}", f"{where} changed the content of {path}", {**case, "path": path})
    for path in sorted(set(files1) - set(files0)):
        finding(found, f"file-created:{where}", f"{where} created {path}", {**case, "path": path})
    for d in sorted(set(dirs0) - set(dirs1)):
        left = [p for p in files0 if under(d, p) and p in files1]
        if left or any(under(d, p) for p in files1):
            finding(found, f"nonempty-directory-removed:{where}", f"{where} removed the directory {d} although it "
                    f"was not empty", {**case, "directory": d, "left": left})
    return removed, sorted(set(dirs0) - set(dirs1))


def adopt_volatile_scenario(mode: int):
    """A step writes a volatile output into a directory; the user takes the file over, drops the
    step and declares the directory a static tree.  From then on the file is a static (user-provided)
    file: neither the cleanup of the next complete build (mode 0) nor `stepup clean --commit` after a
    `--no-clean` build (mode 1) may remove it."""
    from simdirector import A, FifoSchedule, Project, SimDirector

    keep = A.step("keep", inp=["src/a.txt"], out=["out/keep.txt"])
    v1 = [A.static("src/a.txt"), A.step("N", inp=["src/a.txt"], out=["out/n.txt"], vol=["data/notes.txt"]), keep]
    v2 = [A.static("src/a.txt"), A.static_tree("data/"), keep]
    project = Project(scripts={"./plan.py": v1}, files={"src/a.txt": "A1\n"})
    found: list[Finding] = []
    case = {"scenario": "adopt-volatile", "mode": ["build-with-cleaning", "no-clean-then-stepup-clean"][mode],
            "reproduce": f"harness/props/c06.py: adopt_volatile_scenario({mode})"}
    with SimDirector(project, seed=1) as sim:
        r1 = sim.build(njob=1, schedule=FifoSchedule())
        if r1.status != "done" or r1.returncode.value != 0:
            return found, {"first-build-failed": 1}
        user = "my own notes\n" if mode == 0 else None  # mode 1 keeps what the step wrote
        if user is not None:
            sim.apply([("write", "data/notes.txt", user)])
        sim.set_script("./plan.py", v2)
        r2 = sim.build(njob=1, schedule=FifoSchedule(), **({} if mode == 0 else {"clean": False}))
        case["builds"] = [[1, str(r1.returncode), r1.tags("REMOVE")], [2, r2.status, str(r2.returncode), r2.tags("REMOVE")]]
        if r2.status != "done":
            return found, {"second-build-" + r2.status: 1}
        if mode == 1:
            error, text = ck.run_clean(sim, ["."], all_=False, unsafe=False, commit=True)
            case["clean_output"] = text[-400:]
        files_now = ck.snapshot(sim.root)[0]
        if "data/notes.txt" not in files_now:
            finding(found, "static-file-removed:" + ("finalize" if mode == 0 else "stepup-clean"),
                    "data/notes.txt lies in the directory that the plan declares a static tree and was removed by "
                    + ("the cleanup of the build that adopted the directory" if mode == 0 else "stepup clean --commit"),
                    case)
    return found, {"adopt-volatile-scenarios": 1}


def lost_static_scenario():
    """A file is declared static and read by a step; then the `static()` line is lost and another step names
    the file as input (the build is incomplete, nothing is cleaned; the node is now UNDECLARED and still carries
    the hash of its static past); then that step is dropped and the build is complete: the user's file stays."""
    from simdirector import A, FifoSchedule, Project, SimDirector

    keep = A.step("keep", inp=["src/a.txt"], out=["out/keep.txt"])
    v1 = [A.static("src/a.txt", "data.txt"), A.step("reader", inp=["data.txt"], out=["out/r.txt"]), keep]
    v2 = [A.static("src/a.txt"), A.step("reader2", inp=["data.txt"], out=["out/r2.txt"]), keep]
    v3 = [A.static("src/a.txt"), keep]
    project = Project(scripts={"./plan.py": v1}, files={"src/a.txt": "A1\n", "data.txt": "user data\n"})
    found: list[Finding] = []
    case = {"scenario": "lost-static", "reproduce": "harness/props/c06.py: lost_static_scenario()"}
    with SimDirector(project, seed=1) as sim:
        builds = []
        for plan in (v1, v2, v3):
            sim.set_script("./plan.py", plan)
            res = sim.build(njob=1, schedule=FifoSchedule())
            builds.append([res.status, str(res.returncode), res.tags("REMOVE")])
            if res.status != "done":
                return found, {"lost-static-build-" + res.status: 1}
        case["builds"] = builds
        if "data.txt" not in ck.snapshot(sim.root)[0]:
            finding(found, "source-file-removed:finalize", "data.txt was never the output of any step (it was declared "
                    "static, then merely named as an input) and was removed by the cleanup of a complete build", case)
    return found, {"lost-static-scenarios": 1}


def watch_queue_scenario():
    """One director in watch mode, three build phases: a step with a volatile output that is never written; the
    step is dropped (the removal of its volatile file fails: nothing is there); the user then creates a file at
    that path and declares it static.  The removal queue lives for one cleanup pass only: the user's file stays."""
    from simdirector import A, FifoSchedule, Project, SimDirector, plan_file

    keep = A.step("keep", inp=["src/a.txt"], out=["out/keep.txt"])
    v1 = [A.static("src/a.txt"), A.step("noter", inp=["src/a.txt"], out=["out/n.txt"], vol=["notes.txt"]), keep]
    v2 = [A.static("src/a.txt"), keep]
    v3 = [A.static("src/a.txt", "notes.txt"), keep]
    project = Project(scripts={"./plan.py": v1, "noter": [A.read_declared(), A.write("out/n.txt")]},
                      files={"src/a.txt": "A1\n", "plan.py": plan_file(v1, note="v1")})
    found: list[Finding] = []
    case = {"scenario": "watch-queue", "reproduce": "harness/props/c06.py: watch_queue_scenario()"}
    with SimDirector(project, seed=1) as sim:
        res = sim.build(njob=1, watch=True, schedule=FifoSchedule())
        builds = [[res.status, str(res.returncode), res.tags("REMOVE")]]
        if res.status != "done":
            return found, {"watch-queue-build-" + res.status: 1}
        for plan, extra, note in ((v2, [], "v2"), (v3, [("write", "notes.txt", "written by the user\n")], "v3")):
            res = sim.watch_rebuild([("script", "./plan.py", plan, ""), ("write", "plan.py", plan_file(plan, note=note)), *extra],
                                    schedule=FifoSchedule())
            builds.append([res.status, str(res.returncode), res.tags("REMOVE")])
            if res.status != "done":
                with contextlib.suppress(Exception):
                    sim.shutdown()
                return found, {"watch-queue-build-" + res.status: 1}
        case["builds"] = builds
        present = "notes.txt" in ck.snapshot(sim.root)[0]
        with contextlib.suppress(Exception):
            sim.shutdown()
        if not present:
            finding(found, "static-file-removed:finalize:stale-removal-queue",
                    "notes.txt was created by the user and declared static; a later cleanup pass of the same director removed "
                    "it because a failed removal of an earlier volatile output at that path had stayed queued", case)
    return found, {"watch-queue-scenarios": 1}


def optional_readd_scenario():
    """A step is dropped in a build that does not clean (its output stays behind, detached and OUTDATED, with
    the old hash); the user edits the output; the step comes back as an optional step that nobody needs: it
    is recycled, never runs, and the cleanup reverts it.  The edited file must stay."""
    from simdirector import A, FifoSchedule, Project, SimDirector

    keep = A.step("keep", inp=["src/a.txt"], out=["out/keep.txt"])
    v1 = [A.static("src/a.txt"), A.step("opt", inp=["src/a.txt"], out=["out/opt.txt"]), keep]
    v2 = [A.static("src/a.txt"), keep]
    v3 = [A.static("src/a.txt"), A.step("opt", inp=["src/a.txt"], out=["out/opt.txt"], optional=True), keep]
    project = Project(scripts={"./plan.py": v1}, files={"src/a.txt": "A1\n"})
    found: list[Finding] = []
    case = {"scenario": "optional-readd", "reproduce": "harness/props/c06.py: optional_readd_scenario()"}
    with SimDirector(project, seed=1) as sim:
        builds = []
        for i, (plan, kw) in enumerate(((v1, {}), (v2, {"clean": False}), (v3, {}))):
            sim.set_script("./plan.py", plan)
            if i == 2:
                sim.apply([("write", "out/opt.txt", "edited by the user\n")])
            res = sim.build(njob=1, schedule=FifoSchedule(), **kw)
            builds.append([res.status, str(res.returncode), res.tags("REMOVE")])
            if res.status != "done":
                return found, {"optional-readd-build-" + res.status: 1}
        case["builds"] = builds
        now = ck.snapshot(sim.root)[0]
        if "out/opt.txt" not in now:
            finding(found, "modified-output-removed:finalize:reverted-optional-step",
                    "out/opt.txt was edited by the user after StepUp last recorded it and was removed when the optional "
                    "step that owns it was reverted", case)
    return found, {"optional-readd-scenarios": 1}


def pick_build_kwargs(r, model):
    kw = {"njob": r.randint(1, 3)}
    k = r.random()
    outs = sorted(p for p, role in model.outputs().items() if role == "out")
    if k < 0.12:
        kw["clean"] = False
    elif k < 0.24 and outs:
        kw["targets"] = [r.choice(outs)] if r.random() < 0.6 else [os.path.dirname(r.choice(outs)) + "/"]
    elif k < 0.3:
        kw["keep_going"] = True
    return kw


def run_case(seed_key, tier: str, *, replay_only: bool = False):
    """One history.  Returns `(findings, counters, driver lines, implementation answers, summary)`."""
    from simdirector import SimDirector

    r = case_rng(seed_key)
    found: list[Finding] = []
    stats: dict[str, int] = {}
    lines: list[str] = []
    impl: list[str] = []

    def count(key, n=1):
        stats[key] = stats.get(key, 0) + n

    model = ck.gen_model(r, fail_prob=0.05)
    truth = ck.Truth()
    truth.declare(model)
    history: list = [("model", model_repr(model))]
    case = {"seed_key": list(seed_key), "history": history}
    nphase = r.randint(3, 6)
    # A directed history (35 %): first build complete, then a plan edit that orphans outputs followed
    # by a build that must NOT clean (so the orphans stay, detached, with their records), then the
    # user modifies exactly those orphans, then a cleaning build has to tell modified from unmodified.
    directed = r.random() < 0.35
    orphans: list[str] = []
    synced = None  # the project version the database has seen (the plan steps ran on it)
    dirty = True
    with ck.Probe() as probe, SimDirector(ck.render(model), seed=r.randint(0, 10**6)) as sim:
        probe.sim = sim
        for phase in range(nphase):
            kw = pick_build_kwargs(r, model)
            if directed and phase in (0, 2):
                kw = {"njob": kw["njob"]}
            elif directed and phase == 1:
                kw = {"njob": kw["njob"], "clean": False}
            elif r.random() < 0.3:
                # the user edits an output while the build is running (after the startup rescan)
                on_disk = sorted(p for p in truth.ever_output if p in sim.files())
                if on_disk:
                    kind, edits = ck.user_edit(r, sim.files(), on_disk,
                                               r.choice(["overwrite_output", "replace_by_dir", "same_content",
                                                         "overwrite_volatile"]))
                    if edits:
                        kw["external"] = [(r.randint(4, 30), edits)]
                        count(f"user-edit-during-build-{kind}")
            history.append(("build", {k: (edits_repr(v[0][1]) if k == "external" else v) for k, v in kw.items()}
                            | ({"external_at": kw["external"][0][0]} if "external" in kw else {})))
            before = ck.snapshot(sim.root)
            res = sim.build(**kw)
            after = ck.snapshot(sim.root)
            records = probe.take()
            truth.note_build(res.runs, kw.get("external", ()), model)
            count("builds")
            count(f"build-status-{res.status}")
            if res.status != "done":
                history.append(("status", res.status, (res.error or "")[-300:]))
                break
            rc = res.returncode.value
            guarded = bool(kw.get("targets")) or kw.get("clean") is False or ck.returncode_incomplete(rc)
            count("builds-guarded" if guarded else "builds-cleaning")
            written = {p for run in res.runs for p, _ in run.writes}
            # what the user did to the tree while the build was running is not the build's doing
            for _, user_edits in kw.get("external", ()):
                written |= {e[1] for e in user_edits}
            if guarded:
                if records:
                    finding(found, "cleanup-ran-despite-guard", f"the cleanup pass ran although the build had "
                            f"targets={kw.get('targets')} clean={kw.get('clean', True)} returncode={rc}",
                            {**case, "returncode": rc, "kwargs": kw})
                gone = sorted(set(before[0]) - set(after[0]) - written)
                if gone:
                    finding(found, "file-removed-by-guarded-build", f"a build that must not clean removed {gone}",
                            {**case, "removed": gone, "returncode": rc, "kwargs": kw})
                for p in sorted(set(before[0]) & set(after[0])):
                    if before[0][p] != after[0][p] and p not in written:
                        finding(found, "file-changed-by-guarded-build", f"{p} changed although no step wrote it",
                                {**case, "path": p})
            else:
                if len(records) != 1 or records[0].before is None:
                    finding(found, "cleanup-pass-missing", f"a complete unrestricted build with cleaning ran "
                            f"{len(records)} cleanup passes", {**case, "returncode": rc, "kwargs": kw})
                for rec in records:
                    if rec.before is None or rec.after is None:
                        continue
                    removed, rmdirs = check_removal(found, truth, rec.before, rec.after, "finalize", case)
                    count("finalize-removed-files", len(removed))
                    count("finalize-removed-dirs", len(rmdirs))
                    count("finalize-queued-entries", len(rec.queue or {}))
                    # what disappeared during the whole build disappeared in the removal pass
                    gone = set(before[0]) - set(after[0]) - written
                    if not gone <= set(removed):
                        finding(found, "file-removed-outside-cleanup", f"{sorted(gone - set(removed))} disappeared "
                                f"during the build, not in remove_deletable_files", {**case})
                    # modified outputs that were queued must still be there
                    for p, tok in (rec.queue or {}).items():
                        if p.endswith("/") or tok is None or p not in rec.before[0]:
                            continue
                        modified = rec.before[0][p] not in truth.recorded_contents(p)
                        if modified and p not in rec.after[0]:
                            count("modified-queued-removed")
                        elif modified:
                            count("modified-queued-kept")
            # correspondence 5 and the oracle for `stepup clean`
            plan_failed = any(x.label in ("./plan.py", ck.SUB_CMD) and x.returncode != 0 for x in res.runs)
            plan_ran = any(x.label == "./plan.py" and x.returncode == 0 for x in res.runs)
            sub_ok = (not model.has_sub or any(x.label == ck.SUB_CMD and x.returncode == 0 for x in res.runs)
                      or (synced is not None and [s.__dict__ for s in synced.steps if s.plan == ck.SUB] ==
                          [s.__dict__ for s in model.steps if s.plan == ck.SUB]))
            if not plan_failed and (not dirty or not ck.returncode_incomplete(rc) or (plan_ran and sub_ok)):
                synced, dirty = copy.deepcopy(model), False
            if r.random() < 0.55 and not plan_failed and synced is not None and not dirty:
                files_now = {p: d for p, d in ck.snapshot(sim.root)[0].items()}
                outs_on_disk = sorted(p for p in truth.ever_output if p in files_now)
                if r.random() < 0.6 and outs_on_disk:
                    kind, edits = ck.user_edit(r, sim.files(), outs_on_disk)
                    if edits:
                        sim.apply(edits)
                        history.append(("user", kind, edits_repr(edits)))
                        count(f"user-edit-{kind}")
                all_, unsafe, commit = r.random() < 0.5, r.random() < 0.3, r.random() < 0.8
                choices = ["."] + sorted({os.path.dirname(p) for p in truth.ever_output if os.path.dirname(p)}) + \
                    sorted(truth.sources)[:2] + sorted(truth.ever_output)[:3]
                paths = r.sample(choices, min(len(choices), r.choice([1, 1, 2])))
                history.append(("clean", paths, {"all": all_, "unsafe": unsafe, "commit": commit}))
                tokens = ck.Tokens()
                db = ck.read_db_of(sim)
                nodes, deps = ck.encode_state(db, tokens)
                fs_tok, _ = ck.encode_tree(sim.root, tokens)
                dump0 = repr((sorted(db.rows, key=repr), sorted(db.deps)))
                snap0 = ck.snapshot(sim.root)
                error, text = ck.run_clean(sim, paths, all_=all_, unsafe=unsafe, commit=commit)
                snap1 = ck.snapshot(sim.root)
                count("clean-runs")
                if error is not None:
                    count(f"clean-tool-exception-{type(error).__name__}")
                if ck.db_dump(sim) != dump0:
                    finding(found, "clean-tool-changed-database", "stepup clean changed the workflow database", {**case})
                ids = db.by_id()
                detached = {row[2] for row in db.rows if row[1] == "file" and row[4]}
                removed, rmdirs = check_removal(
                    found, truth, snap0, snap1, "stepup-clean", {**case, "clean_args": history[-1]}, unsafe=unsafe,
                    removed_ok=(None if all_ else (lambda p: p in detached)), sources=synced.sources())
                count("clean-removed-files", len(removed))
                count("clean-removed-dirs", len(rmdirs))
                if not commit and (removed or rmdirs):
                    finding(found, "clean-dry-run-removed", "stepup clean without --commit removed something",
                            {**case, "removed": removed + rmdirs})
                after_tok, _ = ck.encode_tree(sim.root, tokens)
                lines.append(f"c06 clean {nodes} {deps} {fs_tok} {hexlist(paths)} {int(all_)} {int(unsafe)} {int(commit)}")
                # the model reports removals in order; the implementation side is compared as a set + tree
                impl.append(f"{hexlist(sorted(removed + rmdirs))} {after_tok} {int(error is not None)}")
            if phase == nphase - 1:
                break
            # plan edits and user edits before the next build
            old_project = ck.render(model)
            applied = []
            old_outputs = set(model.outputs())
            for _ in range(r.randint(1, 2)):
                forced = r.sample(["drop_step", "rename_output", "move_output", "out_to_vol", "drop_amend"], 5) \
                    if directed and phase == 0 else [None]
                for choice in forced:
                    newer, kind = ck.mutate(r, model, choice, on_disk=set(sim.files()))
                    if kind != "none":
                        break
                model = newer
                applied.append(kind)
                count(f"plan-edit-{kind}")
            orphans = sorted(old_outputs - set(model.outputs())) if directed and phase == 0 else orphans
            sim.apply(ck.edits_between(old_project, ck.render(model)))
            truth.declare(model)
            dirty = dirty or any(k != "none" for k in applied)
            history.append(("plan", applied, model_repr(model)))
            if directed and phase == 1:
                kind, edits = ck.user_edit(r, sim.files(), orphans,
                                           r.choice(["overwrite_output", "overwrite_output", "replace_by_dir",
                                                     "touch_output", "same_content", "delete_output"]))
                if edits:
                    sim.apply(edits)
                    history.append(("user", kind, edits_repr(edits)))
                    count(f"user-edit-orphan-{kind}")
            elif r.random() < 0.6:
                outs_on_disk = sorted(p for p in truth.ever_output if p in sim.files())
                kind, edits = ck.user_edit(r, sim.files(), outs_on_disk)
                if edits:
                    sim.apply(edits)
                    history.append(("user", kind, edits_repr(edits)))
                    count(f"user-edit-{kind}")
    return found, stats, lines, impl, history


def case_rng(seed_key):
    """The PRNG of one history: a function of the key alone, so that a replay file reproduces the
    history whatever VERIF_SEED is set to."""
    import hashlib
    import random

    h = hashlib.sha256(repr((PID,) + tuple(seed_key)).encode()).digest()
    return random.Random(int.from_bytes(h[:8], "big"))


def model_repr(model):
    return {"static": sorted(model.static), "adopted": list(model.adopted), "has_sub": model.has_sub,
            "steps": [dict(s.__dict__) for s in model.steps]}


def edits_repr(edits):
    return [[e[0], e[1]] + ([e[2].decode("utf-8", "replace") if isinstance(e[2], bytes) else e[2]] if len(e) > 2 else [])
            for e in edits]


def sort_model_answer(ans: str) -> str:
    """`c06 clean` answers `<events in order> <tree> <crashed>`; compare the events as a set."""
    parts = ans.split(" ")
    if len(parts) != 3:
        return ans
    ev = "." if parts[0] == "." else ",".join(sorted(parts[0].split(",")))
    return f"{ev} {parts[1]} {parts[2]}"


async def run_histories(ctx, salt: str, n: int, with_model: bool):
    lines, impl = [], []
    for i in range(n):
        found, stats, ls, im, history = await asyncio.to_thread(run_case, (ctx.seed, salt, i), ctx.tier)
        for f in found:
            ctx.finding(f)
        for k, v in stats.items():
            ctx.stats.count(f"{salt}:{k}", v)
        lines += ls
        impl += im
        ctx.stats.programs += 1
        ctx.stats.case((salt, i, repr(history)[:2000]), stats.get("finalize-removed-files", 0) + stats.get("clean-removed-files", 0) > 0)
        if i == 0:
            ctx.stats.sample({"history": history[1:6]})
    if with_model and lines and ctx.driver_ok:
        for line, a, b in zip(lines, common.run_driver(lines), impl):
            hexsort = sort_model_answer(a)
            if hexsort != b:
                ctx.disagree("stepup-clean", {"request": kcorr.decode_line(line)[:3000]}, kcorr.decode_line(hexsort),
                             kcorr.decode_line(b))
        ctx.stats.count("clean-run-correspondence-cases", len(lines))


async def correspond(ctx):
    await kcorr.run(ctx, SCOPES, quick=(50, 60), thorough=(1200, 80), salt="c06")
    await correspond_guards(ctx)
    await correspond_remove(ctx)
    await correspond_select(ctx)
    await run_histories(ctx, "corr-hist", ctx.budget(80, 1500), with_model=True)
    ctx.stats.rule = ("kernel request sequences (a case is one request; distinct = distinct database states) + the guard "
                      "chain on all 768 (return code, targets, directory targets, clean) combinations + generated "
                      "(tree, queue) pairs for remove_deletable_files (non-trivial: something was removed) + clean "
                      "selections on kernel databases + full clean runs on the trees of simulated histories "
                      "(non-trivial: a file was removed)")


async def search(ctx):
    await run_histories(ctx, "oracle-hist", ctx.budget(260, 4000), with_model=False)
    for fn in (lost_static_scenario, optional_readd_scenario, watch_queue_scenario):
        found, stats = await asyncio.to_thread(fn)
        for f in found:
            ctx.finding(f)
        for k, v in stats.items():
            ctx.stats.count("scenario:" + k, v)
    for mode in (0, 1):
        found, stats = await asyncio.to_thread(adopt_volatile_scenario, mode)
        for f in found:
            ctx.finding(f)
        for k, v in stats.items():
            ctx.stats.count("scenario:" + k, v)


async def replay(ctx, detail):
    d = detail.get("detail", {})
    sig = detail.get("signature", "")
    key = d.get("seed_key")
    if key:
        found, *_ = await asyncio.to_thread(run_case, tuple(key), ctx.tier)
        for f in found:
            ctx.finding(f)
    else:
        await search(ctx)
    return {"reproduced": any(f.signature == sig for f in ctx.findings), "signature": sig,
            "findings": [f.what for f in ctx.findings]}
