"""C12: job, resource and hold limits are never exceeded.

Kernel part: correspondence over the scheduler/completion/declaration scopes; oracle on the real
database after every request: RUNNING steps never hold more units than available nor an undefined
resource, and a step dispatched to run is not below a holding creator.
"""

from __future__ import annotations

import kcorr
import koracles
from common import Finding
from common import unhexs as common_unhex
from stepup.core.enums import StepState

PID = "C12"
LEVEL = "proof"
ASSUMPTIONS = [
    "the job limit is a theorem about the model of Builder.job_loop + HashQueue (B/JobLoop.lean: every sequence of "
    "scheduler answers, hash submissions/promotions and task endings), tied to builder.py/hash_queue.py by running the "
    "real classes with a stub scheduler/executor on the same event scripts; asyncio itself (task scheduling, "
    "Event, Queue) is trusted; the overlap of executions in time and the hold blocks of whole builds are in addition "
    "observed on simulated builds (real director code, logical clock of the simulated event loop)",
    "findings F7/F9 (a detached step that is still RUNNING is recycled) are in scope of the kernel oracle",
]
SCOPES = {"scheduler", "completion", "declarations"}


class Observer:
    def __init__(self, ctx, run):
        self.ctx = ctx

    def __call__(self, run, op, line, ans):
        legal = run.legal[-1]
        if not legal and ans.startswith("ok"):
            run.tainted = True
        if getattr(run, "tainted", False) or not ans.startswith("ok"):
            return
        ctx = self.ctx
        sn = koracles.Snapshot(run.wf)
        ctx.stats.count("oracle-states-checked")
        running_before = getattr(self, "running", {})
        self.running = {n[1]: dict(sn.resources.get(i, {})) for i, n in sn.nodes.items()
                        if n[0] == "step" and i in sn.steps and sn.steps[i]["state"] == StepState.RUNNING.value}
        # F7 (known finding): `define` recycles a detached step whose command is still running and
        # gives it other resources; the row-level sums then count what the new definition requires
        recycled = {l for l, res in self.running.items() if op == "define" and l in running_before
                    and running_before[l] != res}
        self.f7 = getattr(self, "f7", set()) | recycled
        self.f7 &= set(self.running)
        for b in koracles.resource_invariants(sn)[:2]:
            suffix = ":running-step-recycled-with-other-resources" if self.f7 else ""
            ctx.finding(Finding(PID, ("resources-overcommitted" if "hold" in b else "undefined-resource-running") + suffix,
                                f"after '{kcorr.decode_line(line)[:100]}': {b}",
                                {"violation": b, "requests": [kcorr.decode_line(x) for x in run.lines][-15:],
                                 "protocol_lines": list(run.lines)}))
        # open hold blocks: accepted hold/release requests of a step count while it stays RUNNING (a recycle of the
        # running step must not close its block)
        holds = getattr(self, "holds", {})
        if op in ("hold", "release"):
            label = common_unhex(line.split(" ")[2].split(":", 1)[1]) if ":" in line.split(" ")[2] else None
            if label is not None:
                holds[label] = max(0, holds.get(label, 0) + (1 if op == "hold" else -1))
        for label in list(holds):
            if label not in self.running:
                holds.pop(label)
        self.holds = holds
        by_label = {n[1]: i for i, n in sn.nodes.items() if n[0] == "step"}
        for label, want in holds.items():
            i = by_label.get(label)
            if i is not None and i in sn.steps and sn.steps[i]["_holding"] < want:
                ctx.finding(Finding(PID, "hold-lost:running-step-recycled" if op == "define" else "hold-lost",
                                    f"after '{kcorr.decode_line(line)[:100]}' the RUNNING step {label} has {want} open hold "
                                    f"block(s) but _holding = {sn.steps[i]['_holding']}: the steps it holds back can start",
                                    {"requests": [kcorr.decode_line(x) for x in run.lines][-15:],
                                     "protocol_lines": list(run.lines)}))
        if op == "define" and ans.startswith("ok"):
            # the stored requirement of a step is the one of its latest accepted definition
            t = line.split(" ")
            cmd, wd = common_unhex(t[3]), common_unhex(t[4])
            label = cmd if wd == "." else f"{cmd}  # wd={wd}"
            declared = {} if t[12] == "." else {common_unhex(a): int(b) for a, b in (e.split("=") for e in t[12].split(","))}
            i = next((j for j, n in sn.nodes.items() if n[0] == "step" and n[1] == label), None)
            ctx.stats.count("oracle-declared-resources-checked")
            if i is not None and sn.resources.get(i, {}) != declared:
                ctx.finding(Finding(PID, "declared-resources-lost",
                                    f"'{label}' was defined with resources {declared}, the stored requirement is "
                                    f"{sn.resources.get(i, {})}",
                                    {"step": label, "declared": declared, "stored": sn.resources.get(i, {}),
                                     "requests": [kcorr.decode_line(x) for x in run.lines][-15:],
                                     "protocol_lines": list(run.lines)}))
        if op == "pop" and ":run:" in ans:
            label = bytes.fromhex(line.split(" ")[2].split(":")[1]).decode()
            i = next(j for j, n in sn.nodes.items() if n[0] == "step" and n[1] == label)
            holders = [sn.nodes[a][1] for a in koracles.creator_chain_steps(sn, i) if sn.steps[a]["_holding"] > 0]
            ctx.stats.count("oracle-run-dispatches")
            if holders:
                ctx.finding(Finding(PID, "run-dispatched-under-hold",
                                    f"'{label}' was dispatched to run while {holders} hold(s) its dispatch back",
                                    {"step": label, "holding_creators": holders,
                                     "requests": [kcorr.decode_line(x) for x in run.lines][-15:],
                                     "protocol_lines": list(run.lines)}))


async def correspond(ctx):
    await kcorr.run(ctx, SCOPES, observers=[Observer], salt="c12")
    import jobloopcorr

    await jobloopcorr.correspond(ctx)


def _peak(windows):
    """Largest weight in flight at once over half-open logical-time windows [start, end)."""
    events = []
    for start, end, weight in windows:
        events.append((start, 1, weight))
        events.append((end, 0, -weight))  # an end at time t frees its units before a start at t
    events.sort()
    cur = peak = 0
    for _, _, w in events:
        cur += w
        peak = max(peak, cur)
    return peak


def gen_hold_project(r):
    """A plan that declares steps inside (nested) hold blocks and keeps working before releasing."""
    from simdirector import A, Project

    actions = [A.static("src/a.txt")]
    depth = 0
    held, free = [], []
    nstep = r.randint(2, 5)
    for i in range(nstep):
        roll = r.random()
        if roll < 0.45 and depth < 2:
            actions.append(A.hold())
            depth += 1
        cpu = r.choice([0, 1, 2])
        res = {"cpu": cpu} if cpu else {}
        actions.append(A.step(f"w{i}", inp=["src/a.txt"], out=[f"out/w{i}.txt"], resources=res))
        (held if depth else free).append(f"w{i}")
        for _ in range(r.randint(0, 2)):
            actions.append(A.nop())
        if depth and r.random() < 0.4:
            actions.append(A.release())
            depth -= 1
    for _ in range(r.randint(0, 3)):
        actions.append(A.nop())
    while depth:
        actions.append(A.release())
        depth -= 1
        actions.append(A.nop())
    scripts = {"./plan.py": actions}
    if r.random() < 0.3:
        # a held step that itself declares a step: the grandchild is held back too
        scripts["w0"] = [A.read_declared(), A.step("sub0", inp=["src/a.txt"], out=["out/sub0.txt"]),
                         A.write_declared()]
    return Project(scripts=scripts, files={"src/a.txt": "A\n"}), held


def hold_windows(run, script):
    """For every step the plan declared: logical times of its declaration and of the moment the
    plan's outermost hold was released (None when it was declared outside a hold block)."""
    depth = 0
    pending, out = [], {}
    for idx, t, name, _summary in run.actions:
        if name == "hold":
            depth += 1
        elif name == "release":
            depth -= 1
            if depth == 0:
                for label in pending:
                    out[label] = t
                pending = []
        elif name == "step":
            label = script[idx][1]["cmd"] if idx < len(script) and script[idx][0] == "step" else None
            if depth and label:
                pending.append(label)
    return out


def build_case(ctx, index, *, salt="build"):
    import copy

    import buildkit
    import projgen
    from simdirector import RandomSchedule, SimDirector

    r = ctx.rng(salt, index)
    found = []
    family = "hold" if index % 3 == 2 else "projgen"
    if family == "projgen":
        model = projgen.gen_model(r, fail_prob=0.1 if r.random() < 0.3 else 0.0)
        project = projgen.render(model)
        resources = model.resources
    else:
        project, _held = gen_hold_project(r)
        resources = "cpu:" + str(r.choice([1, 2, 3]))
    njob = r.choice([1, 1, 2, 2, 3, 4])
    limit = {}
    if resources:
        name, _, units = resources.partition(":")
        # also fewer units than some step needs: that step must then never run
        units = max(0, int(units) - r.choice([0, 0, 1, 2]))
        limit = {name: units}
        resources = f"{name}:{units}"
    with SimDirector(copy.deepcopy(project), seed=r.randrange(1 << 30)) as sim:
        res = sim.build(njob=njob, resources=resources, schedule=RandomSchedule(r.randrange(1 << 30)))
    info = {"family": family, "njob": njob, "resources": resources, "status": res.status,
            "returncode": repr(res.returncode)}
    if res.status not in ("done",):
        found.append((f"director-{res.status}", f"the build ended with status {res.status}: {(res.error or '')[-200:]}", info))
        return found, info, project, res
    inf = 1 << 60
    cmd = [(x.start, x.end if x.end is not None else inf, 1) for x in res.runs]
    peak = _peak(cmd)
    info["peak_commands"] = peak
    if peak > njob:
        found.append(("job-limit-exceeded", f"{peak} commands ran at once with --jobs {njob}",
                      {**info, "runs": [(x.label, x.start, x.end) for x in res.runs]}))
    # RUN jobs hold their resources from the dispatch transaction to the retirement of the job
    jobs = {j.job_i: j for j in res.jobs}
    names = {n for x in res.runs for n in x.resources}
    for name in sorted(names):
        held = []
        for x in res.runs:
            units = x.resources.get(name, 0)
            if not units:
                continue
            j = jobs.get(x.job_i)
            start = j.dispatched if j is not None else x.start
            end = (j.completed if j is not None and j.completed is not None else (x.end if x.end is not None else inf))
            held.append((min(start, x.start), max(end, x.end or 0), units))
            if name not in limit:
                found.append(("undefined-resource-ran", f"'{x.label}' ran although it requires the undefined resource {name}",
                              {**info, "step": x.label}))
        if name in limit:
            peak = _peak(held)
            info[f"peak_{name}"] = peak
            if peak > limit[name]:
                found.append(("resource-limit-exceeded",
                              f"{peak} units of {name} in use at once with {limit[name]} available",
                              {**info, "windows": held}))
    # hold blocks
    for plan in [x for x in res.runs if x.label == "./plan.py"]:
        script = project.scripts.get("./plan.py")
        if not isinstance(script, list):
            continue
        released = hold_windows(plan, script)
        for x in res.runs:
            label = x.label
            t = released.get(label)
            if t is not None:
                info["held_steps"] = info.get("held_steps", 0) + 1
                if x.start < t:
                    found.append(("command-started-under-hold",
                                  f"'{label}' started at t={x.start}, its declaring step released the outermost hold at t={t}",
                                  {**info, "step": label, "start": x.start, "release": t,
                                   "plan_actions": [(a[1], a[2], str(a[3])[:60]) for a in plan.actions]}))
            if x.creator and x.creator.startswith("step:") and x.creator[5:] in released:
                # a step declared by a held step inherits the hold of its creator chain
                if x.start < released[x.creator[5:]]:
                    found.append(("command-started-under-hold",
                                  f"'{label}' (declared by the held step {x.creator[5:]}) started before the release",
                                  {**info, "step": label, "start": x.start, "release": released[x.creator[5:]]}))
    return found, info, project, res


async def command_lifetime_oracle(ctx):
    """A command runs as long as its process does: the real `run._exec_in_forkserver` (the function whose return
    frees the job slot, the RUNNING state and the resources) must not return while the child is alive, also when
    the child sent its outcome and then keeps working in a non-daemon thread."""
    import asyncio
    import multiprocessing
    import os
    import tempfile
    import types

    import forkchild
    from stepup.core import run as run_mod

    mp_ctx = multiprocessing.get_context("fork")
    tmp = tempfile.mkdtemp(prefix="verif-c12life-")
    try:
        for i, linger in enumerate((0.0, 0.6, 1.2)):
            marker = os.path.join(tmp, f"marker{i}")
            pids = []

            class _Run(types.SimpleNamespace):
                def __setattr__(self, name, value):
                    if name == "worker" and value is not None:
                        pids.append(value.pid)
                    super().__setattr__(name, value)

            run = _Run(job_i=1, worker=None)
            try:
                outcome = await asyncio.wait_for(
                    run_mod._exec_in_forkserver(mp_ctx, forkchild.leaves_a_thread, (linger, marker), run), 30)
            except Exception as exc:  # noqa: BLE001
                ctx.stats.count(f"command-lifetime:raises-{type(exc).__name__}")
                continue
            ctx.stats.count("command-lifetime")
            ctx.stats.case(("command-lifetime", linger), nontrivial=linger > 0)
            alive = False
            if pids:
                try:
                    os.kill(pids[0], 0)
                    alive = True
                except ProcessLookupError:
                    alive = False
                except PermissionError:
                    alive = True
            finished = os.path.exists(marker)
            if alive or not finished:
                ctx.finding(Finding(PID, "command-outlives-its-job",
                                    f"_exec_in_forkserver returned (outcome {getattr(outcome, 'returncode', outcome)!r}) while the "
                                    f"child process was still {'alive' if alive else 'working'} (a non-daemon thread that runs for "
                                    f"{linger}s after the outcome was sent): the job slot and the resources are released while the "
                                    "command runs", {"linger_s": linger, "child_alive": alive, "work_finished": finished}))
            await asyncio.sleep(linger + 0.3)  # let a stray child finish before the directory goes away
    finally:
        import shutil

        shutil.rmtree(tmp, ignore_errors=True)


class _SubPlan:
    """`sub.py` of `recreated_running_case`: declares X, then asks for `out/late.txt`; once that file exists
    (second execution) it declares X with the additional input."""

    version = 1

    def __init__(self, xlabel, token, nwait, out):
        self.xlabel, self.token, self.nwait, self.out = xlabel, token, nwait, out

    def __call__(self, ctx):
        from simdirector import A

        inp = ["src/a.txt"] + (["out/late.txt"] if ctx.attempt > 1 else [])
        # keeps working for a while after the declaration, so that X is dispatched during the first execution
        return [A.step(self.xlabel, inp=inp, out=self.out, resources={"token": self.token}),
                *[A.nop() for _ in range(self.nwait)], A.amend(inp=["out/late.txt"]), A.read("out/late.txt")]


def recreated_running_case(ctx, index):
    """A deferred planning script that is executed again while a step it declared is still running, and declares
    that step with another input list (no recycle): whatever the director does with the running command, the
    units in use never exceed the limit and no more than `njob` commands run."""
    import copy

    from simdirector import A, Project, RandomSchedule, SimDirector

    r = ctx.rng("recreated-running", index)
    nx, nlate, ngate = r.randint(12, 30), r.randint(4, 8), r.randint(4, 12)
    xlabel = f"work X -n{nx}"
    scripts = {
        xlabel: [A.read_declared(), *[A.nop() for _ in range(nx)], A.write_declared()],
        "mk late": [A.read_declared(), *[A.nop() for _ in range(nlate)], A.write_declared()],
        "mk gate": [A.read_declared(), *[A.nop() for _ in range(ngate)], A.write_declared()],
        "work Y": [A.read_declared(), A.nop(), A.nop(), A.write_declared()],
        "./sub.py": _SubPlan(xlabel, 1, r.randint(3, 8), [] if index % 3 != 2 else ["out/x.txt"]),
    }
    plan = [A.static("src/a.txt", "sub.py"),
            A.step("mk late", inp=["src/a.txt"], out=["out/late.txt"]),
            A.step("./sub.py", inp=["sub.py"], plan=True),
            A.step("mk gate", inp=["src/a.txt"], out=["out/gate.txt"]),
            A.step("work Y", inp=["out/gate.txt"], out=["out/y.txt"], resources={"token": 1})]
    scripts["./plan.py"] = plan
    project = Project(scripts=scripts, files={"src/a.txt": "a\n", "sub.py": "# sub\n"})
    njob = r.choice([5, 6, 8])
    with SimDirector(copy.deepcopy(project), seed=r.randrange(1 << 30)) as sim:
        res = sim.build(njob=njob, resources="token:1", schedule=RandomSchedule(r.randrange(1 << 30)))
    info = {"family": "recreated-running", "njob": njob, "resources": "token:1", "status": res.status,
            "returncode": repr(res.returncode)}
    found = []
    inf = 1 << 60
    runs = [(x.label, x.start, x.end if x.end is not None else inf) for x in res.runs]
    info["x_commands"] = sum(1 for x in res.runs if x.label == xlabel)
    info["sub_executions"] = sum(1 for x in res.runs if x.label == "./sub.py")
    # the history of the known finding: the creator was executed again while a command of X was running
    subs = sorted(a for l, a, b in runs if l == "./sub.py")
    info["creator_rerun_while_x_ran"] = any(a < t < b for t in subs[1:] for l, a, b in runs if l == xlabel)
    if res.status != "done":
        mech = ":running-step-recreated" if info["x_commands"] > 1 or info["creator_rerun_while_x_ran"] else ""
        found.append((f"director-{res.status}{mech}",
                      f"the build ended with status {res.status}: {(res.error or '')[-200:]}", info))
        return found, info
    xs = [(a, b) for l, a, b in runs if l == xlabel]
    info["x_overlap"] = any(a1 < b2 and a2 < b1 for i, (a1, b1) in enumerate(xs) for (a2, b2) in xs[i + 1:])
    peak = _peak([(a, b, 1) for _, a, b in runs])
    if peak > njob:
        found.append(("job-limit-exceeded", f"{peak} commands ran at once with --jobs {njob}", {**info, "runs": runs}))
    held = [(x.start, x.end if x.end is not None else inf, x.resources.get("token", 0)) for x in res.runs
            if x.resources.get("token", 0)]
    peak = _peak(held)
    info["peak_token"] = peak
    if peak > 1:
        mech = ":running-step-recreated" if info["x_overlap"] or info["x_commands"] > 1 or info["creator_rerun_while_x_ran"] else ""
        found.append(("resource-limit-exceeded" + mech,
                      f"{peak} units of token in use at once by running commands with 1 available "
                      f"({info['x_commands']} commands of the step X, {info['sub_executions']} executions of its creator)",
                      {**info, "runs": [t for t in runs if t[0] in (xlabel, "work Y")]}))
    return found, info


def api_requirements_oracle(ctx):
    """The requirement a plan writes must be the requirement the director records: every API function that takes
    `resources=` (step, run, plan, script, call, copy, render_jinja) is called for real with a captured RPC client,
    and the `resources` argument of the resulting `define_step` call must be the requested units; `hold()` sends one
    hold and one release, in that order, around whatever the block declares, also when the block raises."""
    import os
    import shutil
    import tempfile

    from stepup.core import api
    from stepup.core.utils import parse_resources

    r = ctx.rng("api-requirements")
    base = os.path.realpath(tempfile.mkdtemp(prefix="verif-c12api-"))
    keys = ("STEPUP_ROOT", "HERE", "ROOT", "STEPUP_JOB_I", "STEPUP_DIRECTOR_SOCKET")
    old_env = {k: os.environ.get(k) for k in keys}
    old_cwd = os.getcwd()
    old_client = api._get_cached_rpc_client

    import attrs
    from stepup.core.rpc import DummySyncRPCClient

    @attrs.define
    class Capture(DummySyncRPCClient):
        calls: list = attrs.field(factory=list)

        def __call__(self, name, /, *args, _rpc_timeout=None, **kwargs):
            self.calls.append((name, args, kwargs))
            return None

    try:
        for f in ("tool.py", "src.txt", "tmpl.txt", "vars.json"):
            with open(os.path.join(base, f), "w") as fh:
                fh.write("{}" if f.endswith(".json") else "#!/usr/bin/env python3\n")
            os.chmod(os.path.join(base, f), 0o755)
        os.makedirs(os.path.join(base, "dst"), exist_ok=True)
        os.chdir(base)
        for k in keys:
            os.environ.pop(k, None)
        os.environ["STEPUP_JOB_I"] = "0"
        os.environ["STEPUP_ROOT"] = base
        os.environ["HERE"] = "."
        wrappers = {
            "step": lambda res: api.step("true", resources=res),
            "run": lambda res: api.run("./tool.py arg", resources=res),
            "plan": lambda res: api.plan("./tool.py arg", resources=res),
            "script": lambda res: api.script("./tool.py", resources=res),
            "script-optional": lambda res: api.script("./tool.py", optional=True, resources=res),
            "call": lambda res: api.call("./tool.py", "fn", resources=res),
            "call-planning": lambda res: api.call("./tool.py", "fn", planning=True, resources=res),
            "copy": lambda res: api.copy("src.txt", "dst/", resources=res),
            "render_jinja": lambda res: api.render_jinja("tmpl.txt", "vars.json", "out.txt", resources=res),
        }
        names = ["gpu", "mem", "token", "lic"]
        for i in range(ctx.budget(90, 900)):
            wname = sorted(wrappers)[i % len(wrappers)]
            units = {n: r.randint(1, 5) for n in r.sample(names, r.randint(1, 3))}
            as_string = r.random() < 0.5
            res = ",".join(f"{k}:{v}" for k, v in units.items()) if as_string else dict(units)
            if as_string and parse_resources(res) != units:
                continue
            client = Capture()
            api._get_cached_rpc_client = lambda client=client: client
            with_hold = r.random() < 0.3
            raised = None
            try:
                if with_hold:
                    with api.hold():
                        wrappers[wname](res)
                        if r.random() < 0.3:
                            raise KeyError("block fails")
                else:
                    wrappers[wname](res)
            except KeyError:
                pass
            except Exception as exc:  # noqa: BLE001
                raised = exc
            finally:
                api._HOLD_STATE.holding = 0
                for hist in api._AMEND_HISTORY.values():
                    hist.clear()
            ctx.stats.count(f"api-requirements:{wname}" + (":raises-" + type(raised).__name__ if raised else ""))
            ctx.stats.case(("api-requirements", wname, as_string, with_hold))
            if raised is not None:
                ctx.finding(Finding(PID, f"requirement-lost-in-api:{wname}:raises",
                                    f"{wname}(resources={res!r}) raises {raised!r}", {"wrapper": wname, "resources": res}))
                continue
            defs = [c for c in client.calls if c[0] == "define_step"]
            sent = [c[1][8] if len(c[1]) > 8 else c[2].get("resources") for c in defs]
            if len(defs) != 1 or sent[0] != units:
                ctx.finding(Finding(PID, f"requirement-lost-in-api:{wname}",
                                    f"{wname}(resources={res!r}) reaches the director as define_step(resources={sent})",
                                    {"wrapper": wname, "resources": res, "sent": sent}))
            if with_hold:
                seq = [c[0] for c in client.calls if c[0] in ("hold_dispatch", "release_dispatch", "define_step")]
                if seq != ["hold_dispatch", "define_step", "release_dispatch"]:
                    ctx.finding(Finding(PID, "hold-lost-in-api",
                                        f"with hold(): {wname}(...) sends {seq}", {"wrapper": wname, "calls": seq}))
    finally:
        api._get_cached_rpc_client = old_client
        os.chdir(old_cwd)
        for k, v in old_env.items():
            if v is None:
                os.environ.pop(k, None)
            else:
                os.environ[k] = v
        shutil.rmtree(base, ignore_errors=True)


async def search(ctx):
    import corr_kernel as _ck
    import jobloopcorr

    api_requirements_oracle(ctx)
    await command_lifetime_oracle(ctx)
    await jobloopcorr.search(ctx, PID)
    await _ck.run_scenarios(ctx, lambda ctx, run_: Observer(ctx, run_), ["resource_race", "hold_recycle", "shrink_resources", "hold_running_recycled"])
    import asyncio
    import contextlib

    import buildkit
    import corr_kernel

    for i in range(ctx.budget(60, 1500)):
        r = ctx.rng("oracle", i)
        run_ = corr_kernel.KernelRun(r, exotic=False)
        run_.observers = [Observer(ctx, run_)]
        async with contextlib.AsyncExitStack() as cm:
            await run_.generate(cm, 70)
    st = ctx.stats
    for i in range(ctx.budget(6, 120)):
        found, info = await asyncio.to_thread(recreated_running_case, ctx, i)
        st.programs += 1
        st.case(("recreated-running", i), nontrivial=info.get("x_commands", 0) > 1)
        st.count("builds:recreated-running")
        st.count("builds:recreated-running:step-executed-twice", int(info.get("x_commands", 0) > 1))
        for sig, what, extra in found:
            ctx.finding(Finding(PID, sig, what, {
                "case": {"verif_seed": ctx.seed, "salt": "recreated-running", "index": i}, **extra,
                "how": "props/c12.py recreated_running_case(ctx, index)"}))
    for i in range(ctx.budget(45, 1500)):
        found, info, project, res = await asyncio.to_thread(build_case, ctx, i)
        st.programs += 1
        st.case(("build", i), nontrivial=info.get("peak_commands", 0) > 1)
        st.count("builds:" + info["family"])
        st.count("builds-with-commands-in-parallel", int(info.get("peak_commands", 0) > 1))
        st.count("commands-executed", len(res.runs))
        st.count("held-steps-executed", info.get("held_steps", 0))
        st.count("builds-at-job-limit", int(info.get("peak_commands", 0) == info["njob"]))
        for sig, what, extra in found:
            ctx.finding(Finding(PID, sig, what, {
                "case": {"verif_seed": ctx.seed, "salt": "build", "index": i},
                "project": buildkit.jsonable_project(project), **extra,
                "how": "props/c12.py build_case(ctx, index): one simulated build (real director code) with the given "
                       "--jobs and resources; windows are logical times of the simulated event loop"}))


async def replay(ctx, detail):
    sig = detail.get("signature", "")
    if detail.get("detail", detail).get("jobloop"):
        import jobloopcorr

        return await jobloopcorr.replay(ctx, detail)
    case = detail.get("detail", detail).get("case")
    if case:
        import asyncio
        import os

        os.environ["VERIF_SEED"] = str(case.get("verif_seed", 0))
        ctx.seed = int(case.get("verif_seed", 0))
        if case.get("salt") == "recreated-running":
            found, info = await asyncio.to_thread(recreated_running_case, ctx, int(case["index"]))
            return {"reproduced": any(s == sig for s, _, _ in found), "signature": sig, "info": info}
        found, info, _, _ = await asyncio.to_thread(build_case, ctx, int(case["index"]), salt=case.get("salt", "build"))
        return {"reproduced": any(s == sig for s, _, _ in found), "signature": sig, "info": info}
    await search(ctx)
    return {"reproduced": any(f.signature == sig for f in ctx.findings), "signature": sig}
