"""C12: job, resource and hold limits are never exceeded.

Kernel part: correspondence over the scheduler/completion/declaration scopes; oracle on the real
database after every request: RUNNING steps never hold more units than available nor an undefined
resource, and a step dispatched to run is not below a holding creator.
"""

from __future__ import annotations

import kcorr
import koracles
from common import Finding
from stepup.core.enums import StepState

PID = "C12"
LEVEL = "proof"
ASSUMPTIONS = [
    "the job limit (number of commands in flight <= --jobs) and the overlap of real executions in time are decided "
    "on simulated builds, not in the kernel model",
    "findings F7/F9 (a detached step that is still RUNNING is recycled) are in scope of the kernel oracle",
]
SCOPES = {"scheduler", "completion", "declarations"}


class Observer:
    def __init__(self, ctx, run):
        self.ctx = ctx

    def __call__(self, run, op, line, ans):
        legal = run.legal[-1]
        if not legal and ans.startswith("ok"):
            run.tainted = True
        if getattr(run, "tainted", False) or not ans.startswith("ok"):
            return
        ctx = self.ctx
        sn = koracles.Snapshot(run.wf)
        ctx.stats.count("oracle-states-checked")
        for b in koracles.resource_invariants(sn)[:2]:
            ctx.finding(Finding(PID, "resources-overcommitted" if "hold" in b else "undefined-resource-running",
                                f"after '{kcorr.decode_line(line)[:100]}': {b}",
                                {"violation": b, "requests": [kcorr.decode_line(x) for x in run.lines][-15:],
                                 "protocol_lines": list(run.lines)}))
        if op == "pop" and ":run:" in ans:
            label = bytes.fromhex(line.split(" ")[2].split(":")[1]).decode()
            i = next(j for j, n in sn.nodes.items() if n[0] == "step" and n[1] == label)
            holders = [sn.nodes[a][1] for a in koracles.creator_chain_steps(sn, i) if sn.steps[a]["_holding"] > 0]
            ctx.stats.count("oracle-run-dispatches")
            if holders:
                ctx.finding(Finding(PID, "run-dispatched-under-hold",
                                    f"'{label}' was dispatched to run while {holders} hold(s) its dispatch back",
                                    {"step": label, "holding_creators": holders,
                                     "requests": [kcorr.decode_line(x) for x in run.lines][-15:],
                                     "protocol_lines": list(run.lines)}))


async def correspond(ctx):
    await kcorr.run(ctx, SCOPES, observers=[Observer], salt="c12")


async def search(ctx):
    import contextlib

    import corr_kernel

    for i in range(ctx.budget(60, 1500)):
        r = ctx.rng("oracle", i)
        run_ = corr_kernel.KernelRun(r, exotic=False)
        run_.observers = [Observer(ctx, run_)]
        async with contextlib.AsyncExitStack() as cm:
            await run_.generate(cm, 70)


async def replay(ctx, detail):
    sig = detail.get("signature", "")
    await search(ctx)
    return {"reproduced": any(f.signature == sig for f in ctx.findings), "signature": sig}
