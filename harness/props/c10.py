"""C10: dispatch is exact: nothing ineligible starts, nothing eligible is left.

Correspondence: kernel scopes scheduler, declarations, propagation, completion (everything that
sets or consumes the cached scheduling columns), plus the regenerated predicate tables.
Oracle: at every dispatch decision of every generated sequence, the eligible set is recomputed
from scratch on the real database (creator chain, inputs, need propagation, resources; no cached
column is read) and compared with what `pop_next_job` did; after every metadata refresh the cached
columns of attached steps are compared with their definitions.
"""

from __future__ import annotations

import kcorr
import koracles
from common import Finding
from stepup.core.enums import Need, StepState

PID = "C10"
LEVEL = "proof"
ASSUMPTIONS = [
    "priority among eligible steps (ORDER BY of SELECT_NEXT_STEP) is not part of the property; the model checks "
    "membership of the implementation's choice in the eligible set and the two leading ORDER BY terms",
    "termination of a whole phase is relative to 'every started command terminates' and the defer cap",
    "agreement of cached _safe/_implied_need with their definitions after any history is a theorem under the side "
    "conditions named in Props/C10 (constant targets between reconciliations, requests the director issues) and is "
    "sampled by the from-scratch oracle on generated sequences otherwise",
    "the builder side (job_loop waits on wake_job_loop, the phase ends only when idle) is a theorem about the model "
    "B/JobLoop.lean, tied to builder.py/hash_queue.py by running the real Builder and HashQueue with a stub "
    "scheduler/executor on the same event scripts; that define_step/release_dispatch set the wake event is part of "
    "the `offer` event of that model and is exercised on simulated builds only; asyncio itself is trusted",
]
SCOPES = {"scheduler", "declarations", "propagation", "completion", "startup", "cleanup"}


class Observer:
    """Looks at the database before and after each `pop` and after each `update_meta`."""

    def __init__(self, ctx, run):
        self.ctx = ctx
        self.run = run
        run.before_pop = self.before_pop
        self.expected = None

    def before_pop(self):
        """Called inside a transaction right before `pop_next_job`: eligibility from scratch."""
        if getattr(self.run, "tainted", False):
            self.expected = None
            return
        wf = self.run.wf
        sn = koracles.Snapshot(wf)
        self.expected = ({sn.nodes[i][1] for i in koracles.eligible_spec(sn, wf.need_threshold.value)}, sn)
        self.stale = {sn.nodes[i][1] for i in koracles.stale_deferred(sn, wf.need_threshold.value)}

    def __call__(self, run, op, line, ans):
        legal = run.legal[-1]
        if not legal and ans.startswith("ok"):
            run.tainted = True
        if getattr(run, "tainted", False):
            return
        ctx = self.ctx
        # A new director: between the moment it is given its targets and `reconcile_targets` the cached
        # attributes refer to the targets of the previous director; no decision is taken in between.
        if op in ("retarget", "check_consistency"):
            self.restarting = True
        elif op == "reconcile":
            self.restarting = False
        if getattr(self, "restarting", False):
            return
        if op == "define" and ans.startswith("ok"):
            # "its named resources free" is about the resources of the current definition
            for b in koracles.declaration_recorded(koracles.Snapshot(run.wf), line):
                if b.startswith("C12"):
                    ctx.finding(Finding(PID, "declared-resources-not-stored", f"after '{kcorr.decode_line(line)[:100]}': {b}",
                                        {"violation": b, "requests": [kcorr.decode_line(x) for x in run.lines][-15:],
                                         "protocol_lines": list(run.lines)}))
        if op == "pop" and self.expected is not None and ans.startswith("ok"):
            elig, _ = self.expected
            choice = ans.split(" ")[1]
            ctx.stats.count("oracle-dispatch-decisions")
            ctx.stats.count("oracle-dispatch-eligible=%d" % min(len(elig), 3))
            if choice == "none" and getattr(self, "stale", None) and not run.sched.draining:
                ctx.stats.count("oracle-stale-deferral")
                ctx.finding(Finding(PID, "stale-deferral-starves-step",
                                    f"pop_next_job returned nothing while {sorted(self.stale)} satisfy every dispatch "
                                    f"condition except a deferral whose reason is gone (no dynamic input is unavailable)",
                                    {"starved": sorted(self.stale),
                                     "requests": [kcorr.decode_line(x) for x in run.lines][-15:],
                                     "protocol_lines": list(run.lines)}))
            if choice == "none":
                if elig and not run.sched.draining:
                    ctx.finding(Finding(PID, "eligible-step-left", f"pop_next_job returned nothing while "
                                        f"{sorted(elig)} satisfy every dispatch condition",
                                        {"eligible": sorted(elig), "requests": [kcorr.decode_line(x) for x in run.lines][-15:],
                                         "protocol_lines": list(run.lines)}))
            else:
                label = kcorr.decode_line(line).split(" ", 2)[2].split(":", 1)[1] if ":" in line else ""
                label = bytes.fromhex(line.split(" ")[2].split(":")[1]).decode() if line.split(" ")[2] != "~" else ""
                if label not in elig:
                    ctx.finding(Finding(PID, "ineligible-step-dispatched",
                                        f"pop_next_job dispatched '{label}', which does not satisfy the dispatch "
                                        f"conditions (eligible: {sorted(elig)})",
                                        {"dispatched": label, "eligible": sorted(elig),
                                         "requests": [kcorr.decode_line(x) for x in run.lines][-15:],
                                         "protocol_lines": list(run.lines)}))
        if ans.startswith("ok"):
            for b in koracles.cache_invariants(koracles.Snapshot(run.wf))[:2]:
                ctx.stats.count("oracle-cacheinv-violations")
                ctx.finding(Finding(PID, "cache-" + b.split(" ")[1].split("=")[0].split("/")[0],
                                    f"after '{kcorr.decode_line(line)[:100]}': {b}",
                                    {"violation": b, "requests": [kcorr.decode_line(x) for x in run.lines][-15:],
                                     "protocol_lines": list(run.lines)}))
            ctx.stats.count("oracle-cacheinv-states")
        if op == "update_meta" and ans.startswith("ok"):
            sn = koracles.Snapshot(run.wf)
            needs = koracles.implied_need_spec(sn)
            for i, n in sn.nodes.items():
                if n[0] != "step" or n[3] or i not in sn.steps:
                    continue
                s = sn.steps[i]
                want = {"_safe": int(koracles.safe_spec(sn, i, False)),
                        "_safe_ignoring_hold": int(koracles.safe_spec(sn, i, True)),
                        "_ready": int(koracles.ready_spec(sn, i)), "_implied_need": needs[i],
                        "_has_hash": int(i in sn.hashes)}
                for col, val in want.items():
                    ctx.stats.count("oracle-cache-comparisons")
                    if s[col] != val:
                        ctx.finding(Finding(PID, f"stale-cache{col}",
                                            f"after a metadata refresh {col} of step '{n[1]}' is {s[col]}, its "
                                            f"definition gives {val}",
                                            {"step": n[1], "column": col, "cached": s[col], "definition": val,
                                             "requests": [kcorr.decode_line(x) for x in run.lines][-15:],
                                             "protocol_lines": list(run.lines)}))
                for flag in ("_check_safe", "_check_after", "_check_ready"):
                    if s[flag]:
                        ctx.finding(Finding(PID, f"flag-left{flag}", f"{flag} still set on '{n[1]}' after the refresh",
                                            {"step": n[1], "requests": [kcorr.decode_line(x) for x in run.lines][-15:]}))


async def correspond(ctx):
    await kcorr.run(ctx, SCOPES, observers=[Observer])
    import jobloopcorr

    await jobloopcorr.correspond(ctx)


async def search(ctx):
    import corr_kernel as _ck
    import jobloopcorr

    await jobloopcorr.search(ctx, PID)
    await _ck.run_scenarios(ctx, lambda ctx, run_: Observer(ctx, run_), ["nested_chain", "deferred_wakeup", "amended_consumer_rerun", "hold_recycle", "resource_race", "shrink_resources", "retarget_optional", "deferred_on_detached_input", "hold_running_recycled"])
    import contextlib

    import corr_kernel

    for i in range(ctx.budget(60, 1500)):
        r = ctx.rng("oracle", i)
        run_ = corr_kernel.KernelRun(r, exotic=False)
        run_.observers = [Observer(ctx, run_)]
        async with contextlib.AsyncExitStack() as cm:
            await run_.generate(cm, 70)
        flag_discipline(ctx, run_)


def flag_discipline(ctx, run_):
    """The hypothesis of the worklist theorems (`MetaAfter.CacheInvAfter`: every attached step that is
    not flagged `_check_after` satisfies its local equation) evaluated on the MODEL state after every
    request of a generated history (the model state equals the database by the correspondence).
    A sampled test of a hypothesis, not a proof of it."""
    import common

    lines = []
    for ln in run_.lines:
        lines += [ln, "k cacheinv"]
    ans = common.run_driver(lines)
    restarting = False
    for i, (ln, op) in enumerate(zip(run_.lines, run_.ops)):
        if not run_.legal[i]:
            break  # a request the director cannot deliver: no claim about the rest
        if op in ("retarget", "check_consistency"):
            restarting = True
        elif op == "reconcile" and run_.impl[i].startswith("ok"):
            restarting = False
        if ans[2 * i] != run_.impl[i]:
            break  # the correspondence reports this; the model state is no longer the database
        ctx.stats.count("model-flag-discipline-states")
        if restarting:
            continue
        if ans[2 * i + 1][2:3] != "1":
            ctx.stats.count("model-safe-discipline-false")
            ctx.finding(Finding(PID, "safe-flag-discipline:" + op,
                                f"after '{kcorr.decode_line(ln)[:100]}' a step that is neither flagged _check_safe nor "
                                f"below a flagged step does not satisfy its local _safe equation (CacheInvSafeW is false)",
                                {"requests": [kcorr.decode_line(x) for x in run_.lines[: i + 1]][-15:],
                                 "protocol_lines": list(run_.lines[: i + 1])}))
            break
        if ans[2 * i + 1][1:2] != "1":
            ctx.stats.count("model-strict-discipline-false")  # expected: the code maintains the weak form
        if ans[2 * i + 1][:1] != "1":
            ctx.stats.count("model-flag-discipline-false")
            ctx.finding(Finding(PID, "flag-discipline:" + op,
                                f"after '{kcorr.decode_line(ln)[:100]}' an attached step that is not flagged "
                                f"_check_after neither satisfies its local equation nor has a flagged consumer (CacheInvAfterW is false)",
                                {"requests": [kcorr.decode_line(x) for x in run_.lines[: i + 1]][-15:],
                                 "protocol_lines": list(run_.lines[: i + 1])}))
            break


async def replay(ctx, detail):
    sig = detail.get("signature", "")
    if detail.get("detail", detail).get("jobloop"):
        import jobloopcorr

        return await jobloopcorr.replay(ctx, detail)
    await search(ctx)
    return {"reproduced": any(f.signature == sig for f in ctx.findings), "signature": sig}
