"""C07: a successful build leaves no orphaned outputs behind.

Correspondence:
 1. kernel request sequences, scopes cleanup + declarations (the theorems are about `deletePass`,
    `deleteDetachedBase`, `deleteDetached` of the kernel model);
 2. the cleanup pass of whole simulated builds: the database right before `revert_optional_steps`
    is given to the model (`c07 cleanup`: `revertOptional` then `deleteDetached`), whose surviving
    nodes (with file states and the presence of step hashes) and deletion queue are compared with
    the database right after the real `delete_detached` commit and the real `to_be_deleted`.

Oracle (`search`): histories of plan edits (drop, re-add, rename and move outputs, re-role between
output and volatile, change working directories, flip optional, drop the consumer of an optional
step, move steps between plans, adopt an output with static(), drop amended outputs) with a build
after each edit; and histories over trees of plans (2-4 levels of nested plans plus sibling plans,
dependencies across plans, optional producers high up whose only consumers sit deep down) in which
a sub-plan at any level is dropped or re-added, a plan is touched, a source is edited.  After every complete unrestricted build with cleaning:
 * files on disk that are not sources, not outputs of steps the final plan needs, that StepUp
   produced and nobody modified, must be gone (unless an active step still uses them);
 * every detached node left in the database must be held, through creator-to-product and
   source-to-sink edges, by an attached node;
 * no empty directory may be left except directories of things the plan still defines.
Two directed scenarios replay the expected findings: the detached cycle (F5) and the kill between
the `delete_detached` commit and `remove_deletable_files` (F6).
"""

from __future__ import annotations

import asyncio
import copy
import os
import sys

HERE = os.path.dirname(os.path.dirname(os.path.abspath(__file__)))
if HERE not in sys.path:
    sys.path.insert(0, HERE)

import common  # noqa: E402
import cleankit as ck  # noqa: E402
import kcorr  # noqa: E402
from common import Finding  # noqa: E402

PID = "C07"
LEVEL = "proof"
ASSUMPTIONS = [
    "unique node keys and dependency edges ending in existing nodes (KeysNodup, SinksExist) are constraints of the "
    "tables (UNIQUE(kind, label), foreign keys); the survivor characterisation is proved under them",
    "that plan edits leave exactly the dropped steps and their products detached, and that unneeded optional steps "
    "have _implied_need = OPTIONAL at finalize, is decided by the oracle on simulated histories (C11 for the cache)",
    "'unmodified' = the bytes on disk are what a step run wrote last (or what the user wrote while that build was "
    "still running, which StepUp may have recorded instead)",
]
SCOPES = {"cleanup", "declarations"}


def case_rng(seed_key):
    import hashlib
    import random

    h = hashlib.sha256(repr((PID,) + tuple(seed_key)).encode()).digest()
    return random.Random(int.from_bytes(h[:8], "big"))


def finding(found, sig, what, detail):
    if all(f.signature != sig for f in found):
        found.append(Finding(PID, sig, what, detail))


def model_repr(model):
    return {"static": sorted(model.static), "adopted": list(model.adopted), "has_sub": model.has_sub,
            "steps": [dict(s.__dict__) for s in model.steps]}


# ---------------------------------------------------------------------------------------------
# The oracle on one finished build
# ---------------------------------------------------------------------------------------------


def held_by_attached(db: ck.DbState):
    """Detached nodes that do NOT reach an attached node along creator->product and source->sink
    edges: `(ids, has_cycle)`."""
    ids = db.by_id()
    succ: dict[int, set] = {i: set() for i in ids}
    for i, row in ids.items():
        creator = row[3]
        if creator is not None and creator in ids and creator != i:
            succ[creator].add(i)
    for a, b in db.deps:
        if a in ids and b in ids:
            succ[a].add(b)
    good = {i for i, row in ids.items() if not row[4]}
    changed = True
    while changed:
        changed = False
        for i in ids:
            if i not in good and succ[i] & good:
                good.add(i)
                changed = True
    bad = [i for i in ids if i not in good]
    closed = bool(bad) and all(succ[i] & set(bad) for i in bad)
    return bad, closed


def check_after_build(found, count, case, model, truth, sim, db, snap, *, prefix=""):
    files, dirs = snap
    expected = set(truth.sources) | set(model.loose)
    needed = model.needed_steps()
    for step in needed:
        expected |= set(step.outputs())
    # (a) orphaned files
    ids = db.by_id()
    file_rows = {row[2]: row for row in db.rows if row[1] == "file"}
    consumers = {}
    for a, b in db.deps:
        if a in ids and b in ids and ids[a][1] == "file" and ids[b][1] == "step" and not ids[b][4]:
            consumers.setdefault(ids[a][2], []).append(ids[b][2])
    for path in sorted(set(files) - expected):
        count("files-outside-expected")
        if path not in truth.ever_output:
            continue  # not StepUp's
        if files[path] not in truth.recorded_contents(path):
            count("modified-orphan-kept")
            continue
        if consumers.get(path):
            count("orphan-held-by-active-consumer")
            continue
        row = file_rows.get(path)
        in_graph = row is not None
        bad, closed = held_by_attached(db)
        sig = "orphan-output-left"
        if in_graph and row[0] in bad and closed:
            sig = "detached-cycle-survives"
        elif in_graph and row[4] and row[0] not in bad:
            # kept because it is an input of a DETACHED step that is itself kept because another
            # of its products is still an input of an attached step: no active step uses this file
            sig = "orphan-held-indirectly-through-detached-step"
        elif truth.written_as.get(path) == "vol" and truth.ever_output.get(path) == "out":
            # written while it was a volatile output, then re-declared as a regular output of a step
            # that did not run again: the row went VOLATILE -> PLANNED and nothing remembers the file
            sig = "stale-volatile-file-after-redeclaration-as-output"
        elif not in_graph:
            sig = "orphan-file-forgotten"
        finding(found, prefix + sig,
                f"{path}, an unmodified output of a step the plan no longer needs, is still on disk after a "
                f"successful build with cleaning ({('still in the graph, ' + ('detached' if row[4] else 'attached, state ' + str(row[5]))) if in_graph else 'no longer in the graph'})",
                {**case, "path": path, "graph_row": None if row is None else list(row[:6])})
    # (b) detached nodes must be held by something attached
    bad, closed = held_by_attached(db)
    if bad:
        sig = "detached-cycle-survives" if closed else "detached-node-not-held"
        finding(found, prefix + sig,
                f"detached nodes that nothing attached holds are left in the graph: "
                f"{sorted(ids[i][1] + ':' + ids[i][2] for i in bad)[:6]}",
                {**case, "nodes": sorted(ids[i][1] + ':' + ids[i][2] for i in bad)})
    count("detached-nodes-left", sum(1 for row in db.rows if row[4]))
    # (c) empty directories
    keep = {"src"}
    for step in model.steps:
        if step.workdir != ".":
            keep.add(step.workdir)
    for row in db.rows:
        # a step node that is still in the graph (attached, or detached but held) keeps its directory
        if row[1] == "step" and "  # wd=" in row[2]:
            keep.add(row[2].split("  # wd=", 1)[1].rstrip("/"))
    for step in needed:
        for p in step.outputs():
            keep.add(os.path.dirname(p))
    for p in list(truth.sources) + list(model.loose):
        keep.add(os.path.dirname(p))
    keep_all = set()
    for d in keep:
        while d:
            keep_all.add(d)
            d = os.path.dirname(d)
    for d in dirs:
        if d in keep_all:
            continue
        if not any(p.startswith(d + "/") for p in files):
            finding(found, prefix + "empty-directory-left",
                    f"the empty directory {d} is left after a successful build with cleaning, although nothing the "
                    f"plan defines lives there", {**case, "directory": d})


def corr_line(rec: ck.CleanupRecord, tokens: ck.Tokens):
    """Model request and the implementation's answer for one recorded cleanup pass."""
    nodes, deps = ck.encode_state(rec.pre_db, tokens)
    optional, not_pending = [], []
    for i, kind, label, creator, det, fstate, fhash, sstate, ineed, hashed in rec.pre_db.rows:
        if kind != "step":
            continue
        if not det and ineed == 31:
            optional.append(ck.enc_key(kind, label))
        if sstate != 21:
            not_pending.append(ck.enc_key(kind, label))
    line = f"c07 cleanup {nodes} {deps} {';'.join(optional) or '.'} {';'.join(not_pending) or '.'}"
    return line, "ok " + ck.encode_result(rec.post_db, rec.queue, tokens)


def run_case(seed_key, tier: str):
    from simdirector import SimDirector

    r = case_rng(seed_key)
    found: list[Finding] = []
    stats: dict[str, int] = {}
    lines: list[str] = []
    impl: list[str] = []

    def count(key, n=1):
        stats[key] = stats.get(key, 0) + n

    model = ck.gen_model(r, fail_prob=0.03)
    truth = ck.Truth()
    truth.declare(model)
    history: list = [("model", model_repr(model))]
    case = {"seed_key": list(seed_key), "history": history}
    nphase = r.randint(3, 7)
    with ck.Probe() as probe, SimDirector(ck.render(model), seed=r.randint(0, 10**6)) as sim:
        probe.sim = sim
        for phase in range(nphase):
            kw = {"njob": r.randint(1, 3)}
            history.append(("build", kw))
            res = sim.build(**kw)
            records = probe.take()
            truth.note_build(res.runs, (), model)
            count("builds")
            if res.status != "done":
                count(f"build-status-{res.status}")
                history.append(("status", res.status, (res.error or "")[-300:]))
                break
            rc = res.returncode.value
            for rec in records:
                if rec.pre_db is not None and rec.post_db is not None and rec.queue is not None:
                    line, answer = corr_line(rec, probe.tokens)
                    lines.append(line)
                    impl.append(answer)
            if ck.returncode_incomplete(rc):
                count("builds-incomplete")
            else:
                count("builds-complete")
                db = ck.read_db_of(sim)
                check_after_build(found, count, case, model, truth, sim, db, ck.snapshot(sim.root))
                for rec in records:
                    count("queued-entries", len(rec.queue or {}))
                    if rec.before and rec.after:
                        count("removed-files", len(set(rec.before[0]) - set(rec.after[0])))
                        count("removed-dirs", len(set(rec.before[1]) - set(rec.after[1])))
            if phase == nphase - 1:
                break
            old_project = ck.render(model)
            applied = []
            for _ in range(r.randint(1, 2)):
                model, kind = ck.mutate(r, model, on_disk=set(sim.files()))
                applied.append(kind)
                count(f"plan-edit-{kind}")
            sim.apply(ck.edits_between(old_project, ck.render(model)))
            truth.declare(model)
            history.append(("plan", applied, model_repr(model)))
            if r.random() < 0.15:
                on_disk = sorted(p for p in truth.ever_output if p in sim.files())
                kind, edits = ck.user_edit(r, sim.files(), on_disk, "overwrite_output")
                if edits:
                    sim.apply(edits)
                    history.append(("user", kind, [e[1] for e in edits]))
                    count("user-edit-overwrite_output")
    return found, stats, lines, impl, history


def run_tree_case(seed_key, tier: str):
    """One history over a tree of plans (2-4 levels, sibling plans, dependencies across plans,
    optional producers high up with consumers deep down): drop / re-add a sub-plan at any level,
    touch a plan, edit a source, flip optional, drop a step; a build after every edit."""
    from simdirector import SimDirector

    r = case_rng(("tree",) + tuple(seed_key))
    found: list[Finding] = []
    stats: dict[str, int] = {}
    lines: list[str] = []
    impl: list[str] = []

    def count(key, n=1):
        stats[key] = stats.get(key, 0) + n

    tree = ck.gen_plan_tree(r)
    model = tree.as_model()
    truth = ck.Truth()
    truth.declare(model)
    history: list = [("tree", {"plans": {p: i["parent"] for p, i in tree.plans.items()},
                               "steps": [dict(s) for s in tree.steps], "motif": tree.motif})]
    case = {"seed_key": list(seed_key), "family": "plan-tree", "history": history}
    nphase = r.randint(2, 5)
    with ck.Probe() as probe, SimDirector(tree.render(), seed=r.randint(0, 10**6)) as sim:
        probe.sim = sim
        for phase in range(nphase):
            kw = {"njob": r.randint(1, 3)}
            history.append(("build", kw))
            res = sim.build(**kw)
            records = probe.take()
            truth.note_build(res.runs, (), model)
            count("builds")
            if res.status != "done":
                count(f"build-status-{res.status}")
                history.append(("status", res.status, (res.error or "")[-300:]))
                break
            history.append(("ran", res.commands, str(res.returncode)))
            for rec in records:
                if rec.pre_db is not None and rec.post_db is not None and rec.queue is not None:
                    line, answer = corr_line(rec, probe.tokens)
                    lines.append(line)
                    impl.append(answer)
            if ck.returncode_incomplete(res.returncode.value):
                count("builds-incomplete")
            else:
                count("builds-complete")
                check_after_build(found, count, case, model, truth, sim, ck.read_db_of(sim), ck.snapshot(sim.root))
                for rec in records:
                    if rec.before and rec.after:
                        count("removed-files", len(set(rec.before[0]) - set(rec.after[0])))
            if phase == nphase - 1:
                break
            old_project = tree.render()
            tree, kind = ck.mutate_plan_tree(r, tree)
            count(f"tree-edit-{kind.split(':')[0]}")
            sim.apply(ck.edits_between(old_project, tree.render()))
            model = tree.as_model()
            truth.declare(model)
            history.append(("edit", kind))
    return found, stats, lines, impl, history


# ---------------------------------------------------------------------------------------------
# Directed scenarios: the expected findings
# ---------------------------------------------------------------------------------------------


def f5_scenario(variant: int = 0):
    """Finding F5.  Plan v1 defines `T` (output `out/o2.txt`).  Plan v2 defines `S` instead; `S`
    defines `T` itself (full recycle) and amends `out/o2.txt` as an input.  Plan v3 drops `S`.
    `S`, `T`, `out/o2.txt` form a detached cycle of creator and dependency edges that
    `delete_detached` never breaks: the output stays on disk and in the graph for ever."""
    from simdirector import A, FifoSchedule, Project, SimDirector

    name = ["o2", "cycle_out", "deep/x/o"][variant % 3]
    out = f"out/{name}.txt"
    t_step = A.step("T", inp=[], out=[out])
    keep = A.step("keep", inp=["src/a.txt"], out=["out/keep.txt"])
    v1 = [A.static("src/a.txt"), t_step, keep]
    v2 = [A.static("src/a.txt"), A.step("S", inp=["src/a.txt"], out=["out/s.txt"]), keep]
    v3 = [A.static("src/a.txt"), keep]
    project = Project(
        scripts={"./plan.py": v1,
                 "S": [A.read_declared(), t_step, A.amend(inp=[out]), A.read(out), A.write_declared()]},
        files={"src/a.txt": "A1\n"})
    found: list[Finding] = []
    stats: dict[str, int] = {}

    def count(key, n=1):
        stats[key] = stats.get(key, 0) + n

    model = ck.CModel(static={"src/a.txt": "A1\n"},
                      steps=[ck.CStep(name="keep", inp=["src/a.txt"], out=["out/keep.txt"])])
    truth = ck.Truth()
    truth.sources = {"src/a.txt", "plan.py"}
    truth.ever_output = {out: "out", "out/s.txt": "out", "out/keep.txt": "out"}
    summary = []
    with SimDirector(project, seed=1) as sim:
        for i, plan in enumerate([v1, v2, v3, v3]):
            sim.set_script("./plan.py", plan)
            res = sim.build(njob=1, schedule=FifoSchedule())
            truth.note_build(res.runs)
            summary.append([i + 1, res.status, str(res.returncode), res.commands, res.tags("REMOVE")])
            if res.status != "done" or res.returncode.value != 0:
                return found, stats, summary
        db = ck.read_db_of(sim)
        case = {"scenario": "f5", "variant": variant, "builds": summary,
                "reproduce": "harness/props/c07.py: f5_scenario()"}
        check_after_build(found, count, case, model, truth, sim, db, ck.snapshot(sim.root))
    return found, stats, summary


def orphan_named_input_scenario(variant: int = 0):
    """An output is dropped from its step while a later step of the same plan names it as an input
    (the build is incomplete: the consumer stays pending, the cleanup is rightly skipped); then the
    consumer is dropped too and the build succeeds: the former output is an orphan and must be removed."""
    from simdirector import A, FifoSchedule, Project, SimDirector

    x = ["out/x.txt", "out/deep/x.txt", "x.txt"][variant % 3]
    keep = A.step("keep", inp=["src/a.txt"], out=["out/keep.txt"])
    v1 = [A.static("src/a.txt"), A.step("P", inp=["src/a.txt"], out=[x, "out/y.txt"]), keep]
    v2 = [A.static("src/a.txt"), A.step("P", inp=["src/a.txt"], out=["out/y.txt"]),
          A.step("C", inp=[x], out=["out/c.txt"]), keep]
    v3 = [A.static("src/a.txt"), A.step("P", inp=["src/a.txt"], out=["out/y.txt"]), keep]
    project = Project(scripts={"./plan.py": v1}, files={"src/a.txt": "A1\n"})
    found: list[Finding] = []
    stats: dict[str, int] = {}

    def count(key, n=1):
        stats[key] = stats.get(key, 0) + n

    model = ck.CModel(static={"src/a.txt": "A1\n"},
                      steps=[ck.CStep(name="P", inp=["src/a.txt"], out=["out/y.txt"]),
                             ck.CStep(name="keep", inp=["src/a.txt"], out=["out/keep.txt"])])
    truth = ck.Truth()
    truth.sources = {"src/a.txt", "plan.py"}
    truth.ever_output = {x: "out", "out/y.txt": "out", "out/c.txt": "out", "out/keep.txt": "out"}
    summary = []
    with SimDirector(project, seed=1) as sim:
        for i, plan in enumerate([v1, v2, v3]):
            sim.set_script("./plan.py", plan)
            res = sim.build(njob=1, schedule=FifoSchedule())
            truth.note_build(res.runs)
            summary.append([i + 1, res.status, str(res.returncode), res.commands, res.tags("REMOVE")])
            if res.status != "done" or (i != 1 and res.returncode.value != 0):
                return found, stats, summary
        db = ck.read_db_of(sim)
        case = {"scenario": "orphan-named-input", "variant": variant, "builds": summary,
                "reproduce": "harness/props/c07.py: orphan_named_input_scenario()"}
        check_after_build(found, count, case, model, truth, sim, db, ck.snapshot(sim.root))
    return found, stats, summary


def postponed_cleanup_scenario(variant: int = 0):
    """A step is dropped in a build that does not clean (`--no-clean`, or restricted to a target); the next plain
    build has nothing to run and must catch up on the cleanup: the orphaned output and its node go."""
    from simdirector import A, FifoSchedule, Project, SimDirector

    keep = A.step("keep", inp=["src/a.txt"], out=["out/keep.txt"])
    v1 = [A.static("src/a.txt"), A.step("P", inp=["src/a.txt"], out=["out/deep/x.txt"], vol=["out/deep/x.log"]), keep]
    v2 = [A.static("src/a.txt"), keep]
    project = Project(scripts={"./plan.py": v1}, files={"src/a.txt": "A1\n"})
    found: list[Finding] = []
    stats: dict[str, int] = {}

    def count(key, n=1):
        stats[key] = stats.get(key, 0) + n

    model = ck.CModel(static={"src/a.txt": "A1\n"}, steps=[ck.CStep(name="keep", inp=["src/a.txt"], out=["out/keep.txt"])])
    truth = ck.Truth()
    truth.sources = {"src/a.txt", "plan.py"}
    truth.ever_output = {"out/deep/x.txt": "out", "out/deep/x.log": "vol", "out/keep.txt": "out"}
    summary = []
    second = [{"clean": False}, {"targets": ["out/keep.txt"]}][variant % 2]
    with SimDirector(project, seed=1) as sim:
        for i, (plan, kw) in enumerate([(v1, {}), (v2, second), (v2, {})]):
            sim.set_script("./plan.py", plan)
            res = sim.build(njob=1, schedule=FifoSchedule(), **kw)
            truth.note_build(res.runs)
            summary.append([i + 1, res.status, str(res.returncode), res.commands, res.tags("REMOVE"), kw])
            if res.status != "done" or res.returncode.value != 0:
                return found, stats, summary
        db = ck.read_db_of(sim)
        case = {"scenario": "postponed-cleanup", "variant": variant, "builds": summary,
                "reproduce": f"harness/props/c07.py: postponed_cleanup_scenario({variant})"}
        check_after_build(found, count, case, model, truth, sim, db, ck.snapshot(sim.root))
    return found, stats, summary


def rerole_scenario():
    """A volatile output that is re-declared as a regular output of an optional step which is no
    longer needed: v1 `prod` (optional, out p.txt, vol p.log) is needed by `use`; v2 re-declares
    p.log as a regular output of `prod` and drops `use`.  The row goes VOLATILE -> PLANNED (no
    memory of the file), `prod` never runs again, nothing ever removes `out/p.log`."""
    from simdirector import A, FifoSchedule, Project, SimDirector

    def plan(v):
        acts = [A.static("src/a.txt")]
        if v == 1:
            acts += [A.step("prod", inp=["src/a.txt"], out=["out/p.txt"], vol=["out/p.log"], optional=True),
                     A.step("use", inp=["out/p.txt"], out=["out/u.txt"])]
        else:
            acts += [A.step("prod", inp=["src/a.txt"], out=["out/p.log", "out/p.txt"], optional=True)]
        return acts

    found: list[Finding] = []
    stats: dict[str, int] = {}

    def count(key, n=1):
        stats[key] = stats.get(key, 0) + n

    m1 = ck.CModel(static={"src/a.txt": "A1\n"},
                   steps=[ck.CStep(name="prod", inp=["src/a.txt"], out=["out/p.txt"], vol=["out/p.log"], optional=True),
                          ck.CStep(name="use", inp=["out/p.txt"], out=["out/u.txt"])])
    m2 = ck.CModel(static={"src/a.txt": "A1\n"},
                   steps=[ck.CStep(name="prod", inp=["src/a.txt"], out=["out/p.log", "out/p.txt"], optional=True)])
    truth = ck.Truth()
    summary = []
    with SimDirector(Project(scripts={"./plan.py": plan(1)}, files={"src/a.txt": "A1\n"}), seed=1) as sim:
        for i, (v, model) in enumerate([(1, m1), (2, m2), (2, m2)]):
            sim.set_script("./plan.py", plan(v))
            truth.declare(model)
            res = sim.build(njob=1, schedule=FifoSchedule())
            truth.note_build(res.runs, (), model)
            summary.append([i + 1, res.status, str(res.returncode), res.commands, res.tags("REMOVE")])
            if res.status != "done" or res.returncode.value != 0:
                return found, stats, summary
        case = {"scenario": "rerole", "builds": summary, "reproduce": "harness/props/c07.py: rerole_scenario()"}
        check_after_build(found, count, case, m2, truth, sim, ck.read_db_of(sim), ck.snapshot(sim.root))
    return found, stats, summary


def indirect_scenario():
    """An orphan that nothing active uses, held through a detached step: v1 `A` builds out/a.txt,
    `B` (inp out/a.txt) amends the output out/b.extra, optional `C` has out/b.extra as input.  v2
    renames A's output and replaces `B` by `B2` (no amended output).  The old `B` stays (its product
    out/b.extra is an input of the attached `C`), so out/a.txt, an input of the detached `B`, stays
    on disk and in the graph for ever although no active step uses it."""
    from simdirector import A, FifoSchedule, Project, SimDirector

    def plan(v):
        acts = [A.static("src/a.txt")]
        if v == 1:
            acts += [A.step("A", inp=["src/a.txt"], out=["out/a.txt"]),
                     A.step("B", inp=["out/a.txt"], out=["out/b.txt"]),
                     A.step("C", inp=["out/b.extra"], out=["out/c.txt"], optional=True)]
        else:
            acts += [A.step("A", inp=["src/a.txt"], out=["out/a2.txt"]),
                     A.step("B2", inp=["out/a2.txt"], out=["out/b.txt"]),
                     A.step("C", inp=["out/b.extra"], out=["out/c.txt"], optional=True)]
        return acts

    found: list[Finding] = []
    stats: dict[str, int] = {}

    def count(key, n=1):
        stats[key] = stats.get(key, 0) + n

    m1 = ck.CModel(static={"src/a.txt": "A1\n"},
                   steps=[ck.CStep(name="A", inp=["src/a.txt"], out=["out/a.txt"]),
                          ck.CStep(name="B", inp=["out/a.txt"], out=["out/b.txt"], amend_out=["out/b.extra"]),
                          ck.CStep(name="C", inp=["out/b.extra"], out=["out/c.txt"], optional=True)])
    m2 = ck.CModel(static={"src/a.txt": "A1\n"},
                   steps=[ck.CStep(name="A", inp=["src/a.txt"], out=["out/a2.txt"]),
                          ck.CStep(name="B2", inp=["out/a2.txt"], out=["out/b.txt"]),
                          ck.CStep(name="C", inp=["out/b.extra"], out=["out/c.txt"], optional=True)])
    project = Project(scripts={"./plan.py": plan(1),
                               "B": [A.read_declared(), A.amend(out=["out/b.extra"]), A.write_declared()]},
                      files={"src/a.txt": "A1\n"})
    truth = ck.Truth()
    summary = []
    with SimDirector(project, seed=1) as sim:
        for i, (v, model) in enumerate([(1, m1), (2, m2), (2, m2)]):
            sim.set_script("./plan.py", plan(v))
            truth.declare(model)
            res = sim.build(njob=1, schedule=FifoSchedule())
            truth.note_build(res.runs, (), model)
            summary.append([i + 1, res.status, str(res.returncode), res.commands, res.tags("REMOVE")])
            if res.status != "done" or res.returncode.value != 0:
                return found, stats, summary
        case = {"scenario": "indirect", "builds": summary, "reproduce": "harness/props/c07.py: indirect_scenario()"}
        check_after_build(found, count, case, m2, truth, sim, ck.read_db_of(sim), ck.snapshot(sim.root))
    return found, stats, summary


def f6_scenario(seed: int = 0):
    """Finding F6.  A step is dropped; the director is killed right after the transaction of
    `delete_detached` (the node is gone from the database) and before `remove_deletable_files`
    (the file is still there).  `to_be_deleted` lives in memory only, so after the restart nobody
    remembers the file: it stays on disk after every later successful build."""
    from simdirector import A, Project, SimDirector

    gone_out = "out/gone.txt"
    keep = A.step("keep", inp=["src/a.txt"], out=["out/keep.txt"])
    v1 = [A.static("src/a.txt"), A.step("gone", inp=["src/a.txt"], out=[gone_out]), keep]
    v2 = [A.static("src/a.txt"), keep]
    found: list[Finding] = []
    stats: dict[str, int] = {}

    def count(key, n=1):
        stats[key] = stats.get(key, 0) + n

    def run(crash_at):
        project = Project(scripts={"./plan.py": list(v1)}, files={"src/a.txt": "A1\n"})
        seen = {"k": None}

        def on_commit(sim, k):
            if seen["k"] is None and not sim.query("SELECT 1 FROM node WHERE label = ?", (gone_out,)):
                seen["k"] = k

        truth = ck.Truth()
        truth.sources = {"src/a.txt", "plan.py"}
        truth.ever_output = {gone_out: "out", "out/keep.txt": "out"}
        summary = []
        with SimDirector(project, seed=seed) as sim:
            res = sim.build(njob=1)
            truth.note_build(res.runs)
            summary.append([1, res.status, str(res.returncode), res.commands])
            sim.set_script("./plan.py", list(v2))
            if crash_at is None:
                res = sim.build(njob=1, on_commit=on_commit)
                return seen["k"], summary, None, None, None
            res = sim.build(njob=1, crash_after_commit=crash_at)
            summary.append([2, res.status, f"killed after commit {crash_at}", sorted(sim.files())])
            for i in (3, 4):
                res = sim.build(njob=1)
                truth.note_build(res.runs)
                summary.append([i, res.status, str(res.returncode), res.commands, res.tags("REMOVE")])
            return crash_at, summary, truth, ck.read_db_of(sim), ck.snapshot(sim.root)

    k, _, _, _, _ = run(None)
    if k is None:
        return found, stats, ["the delete_detached commit was not observed"]
    _, summary, truth, db, snap = run(k)
    model = ck.CModel(static={"src/a.txt": "A1\n"},
                      steps=[ck.CStep(name="keep", inp=["src/a.txt"], out=["out/keep.txt"])])
    case = {"scenario": "f6", "killed_after_commit": k, "builds": summary,
            "reproduce": "harness/props/c07.py: f6_scenario()"}
    check_after_build(found, count, case, model, truth, None, db, snap, prefix="after-kill:")
    return found, stats, summary


# ---------------------------------------------------------------------------------------------


async def run_histories(ctx, salt: str, n: int, with_model: bool, case_fn=None):
    lines, impl = [], []
    case_fn = case_fn or run_case
    for i in range(n):
        found, stats, ls, im, history = await asyncio.to_thread(case_fn, (ctx.seed, salt, i), ctx.tier)
        for f in found:
            ctx.finding(f)
        for k, v in stats.items():
            ctx.stats.count(f"{salt}:{k}", v)
        lines += ls
        impl += im
        ctx.stats.programs += 1
        ctx.stats.case((salt, i, repr(history)[:2000]), stats.get("removed-files", 0) > 0)
        if i == 0:
            ctx.stats.sample({"history": history[1:5]})
    if with_model and lines and ctx.driver_ok:
        for line, a, b in zip(lines, common.run_driver(lines), impl):
            ctx.stats.case(("cleanup-pass", line), True)
            if a != b:
                ctx.disagree("build-cleanup-pass", {"request": kcorr.decode_line(line)[:3000]}, kcorr.decode_line(a),
                             kcorr.decode_line(b))
        ctx.stats.count("cleanup-pass-correspondence-cases", len(lines))


async def correspond(ctx):
    await kcorr.run(ctx, SCOPES, quick=(60, 60), thorough=(1500, 80), salt="c07")
    await run_histories(ctx, "corr-hist", ctx.budget(80, 1300), with_model=True)
    await run_histories(ctx, "corr-tree", ctx.budget(40, 500), with_model=True, case_fn=run_tree_case)
    ctx.stats.rule = ("kernel request sequences (a case is one request; distinct = distinct database states) + one case "
                      "per cleanup pass of a simulated build (database before revert_optional_steps -> model -> database "
                      "after delete_detached and the queue); histories count as non-trivial when a file was removed")


async def search(ctx):
    await run_histories(ctx, "oracle-hist", ctx.budget(150, 3000), with_model=False)
    await run_histories(ctx, "oracle-tree", ctx.budget(100, 1500), with_model=False, case_fn=run_tree_case)
    for variant in range(ctx.budget(1, 3)):
        found, stats, summary = await asyncio.to_thread(f5_scenario, variant)
        for f in found:
            ctx.finding(f)
        ctx.stats.count("scenario-f5")
    for variant in range(ctx.budget(2, 3)):
        found, stats, summary = await asyncio.to_thread(orphan_named_input_scenario, variant)
        for f in found:
            ctx.finding(f)
        ctx.stats.count("scenario-orphan-named-input")
        ctx.stats.count("scenario-orphan-named-input:builds-completed", len(summary))
    for variant in range(2):
        found, stats, summary = await asyncio.to_thread(postponed_cleanup_scenario, variant)
        for f in found:
            ctx.finding(f)
        ctx.stats.count("scenario-postponed-cleanup")
        ctx.stats.count("scenario-postponed-cleanup:builds-completed", len(summary))
    found, stats, summary = await asyncio.to_thread(f6_scenario, ctx.seed)
    for f in found:
        ctx.finding(f)
    ctx.stats.count("scenario-f6")
    found, stats, summary = await asyncio.to_thread(rerole_scenario)
    for f in found:
        ctx.finding(f)
    ctx.stats.count("scenario-rerole")
    found, stats, summary = await asyncio.to_thread(indirect_scenario)
    for f in found:
        ctx.finding(f)
    ctx.stats.count("scenario-indirect")


async def replay(ctx, detail):
    d = detail.get("detail", {})
    sig = detail.get("signature", "")
    if d.get("scenario") == "f5":
        found, *_ = await asyncio.to_thread(f5_scenario, int(d.get("variant", 0)))
    elif d.get("scenario") == "f6":
        found, *_ = await asyncio.to_thread(f6_scenario, 0)
    elif d.get("scenario") == "rerole":
        found, *_ = await asyncio.to_thread(rerole_scenario)
    elif d.get("scenario") == "indirect":
        found, *_ = await asyncio.to_thread(indirect_scenario)
    elif d.get("seed_key") and d.get("family") == "plan-tree":
        found, *_ = await asyncio.to_thread(run_tree_case, tuple(d["seed_key"]), ctx.tier)
    elif d.get("seed_key"):
        found, *_ = await asyncio.to_thread(run_case, tuple(d["seed_key"]), ctx.tier)
    else:
        await search(ctx)
        found = []
    for f in found:
        ctx.finding(f)
    return {"reproduced": any(f.signature == sig for f in ctx.findings), "signature": sig,
            "findings": [f.what for f in ctx.findings]}
