"""C05: a build killed at any point is completed correctly after restart.

Correspondence: every kernel scope (the theorems of Props/C05.lean are about `resetInterrupted`,
`markCompleted`, `resetForRerun`, `markStepPending` of the kernel model; the committed-state
invariants are C09's), with an observer that checks, on the real database after every request, the
two invariants the restart relies on (no BUILT output below a step that is not SUCCEEDED; the
postconditions of `reset_interrupted_steps`).

Oracle (`search`): whole simulated builds.  For generated projects (optionally with a completed
first build and plan/source edits before the build that is interrupted) and schedules:

* the uninterrupted reference build, with the committed-state invariants evaluated after every
  one of its transactions;
* a crash after EVERY commit index of the reference (startup, dispatch, completion, cleanup
  transactions alike) and before every action and the exit of every running step; one case in five
  interrupts the rebuild phase of a WATCHING director instead (edits arrive as file events); one
  kill point in five kills the restart as well, after 1-26 of its commits, before the final restart;
  in half of the projects with a sub-plan the sub-plan is deferred once while its own steps run;
* the restart with `STEPUP_DEBUG=1` (`_check_consistency` raises), same invariants after every
  commit, plus: every step that was RUNNING at the kill and is SUCCEEDED in the end was executed
  again, and none of its outputs is BUILT at any commit before that execution completes;
* comparison of the restarted build with the reference: return code, every file on disk (content),
  files that are neither sources nor outputs of the final graph (orphans), and the canonical graph
  text.  In scope of the graph comparison: every line of every node block (states, creators,
  products, dependency edges with their dynamic flag, need, env vars, resources, globs, file
  digests, step `out_digest`).  Compared separately (own signature): `inp_digest` lines, which
  notes/simdirector.md shows to depend on whether an input was UNCONFIRMED at completion.
  A history whose uninterrupted result depends on the schedule (a C02 matter) is compared with the
  set of uninterrupted outcomes of four schedules.  A restart during which the row of a step was
  re-initialised under its job (F9) is reported once, as `running-step-row-reset`; what follows from
  it is not reported separately.
Steps are commands: explicit scripts that read exactly the declared inputs (`simcases.py`).
"""

from __future__ import annotations

import copy
import hashlib
import json
import os
import random
import sys
import time

HERE = os.path.dirname(os.path.dirname(os.path.abspath(__file__)))
if HERE not in sys.path:
    sys.path.insert(0, HERE)

import common  # noqa: E402
from common import Finding  # noqa: E402

PID = "C05"
LEVEL = "proof"
ASSUMPTIONS = [
    "kill = the director and all its steps die together; SQLite's atomic commit and WAL recovery are trusted "
    "(the simulated crash writes back the bytes of graph.db and graph.db-wal taken right after commit k)",
    "crash points are the commit boundaries of the director's DBSession and the action boundaries of the "
    "simulated step scripts; a kill inside one write() of a step or inside SQLite is not simulated",
    "'equal to the uninterrupted build' is decided on generated projects by the oracle; the theorems cover the "
    "restart's reset (resetInterrupted), the failure/rerun bookkeeping and the memory-only deletion queue",
    "the committed-state invariants at every transaction are C09's theorems plus the SQL form evaluated by this "
    "oracle after every commit of every simulated build",
]

RUNNING, CHECKING, SUCCEEDED, FAILED, PENDING = 22, 25, 23, 24, 21
BUILT, VOLATILE = 16, 18


# ---------------------------------------------------------------------------------------------
# Case generation (plain data; the worker regenerates the project from the seed)
# ---------------------------------------------------------------------------------------------


def _rng(*salt) -> random.Random:
    h = hashlib.sha256(repr(salt).encode()).digest()
    return random.Random(int.from_bytes(h[:8], "big"))


MUTATION_KINDS = ("change_source", "drop_step", "rename_output", "change_need", "redefine_inputs",
                  "del_glob_source", "add_glob_source", "move_step", "change_env", "noop_rewrite", "readd_step")


def make_spec(seed, index: int, tier: str) -> dict:
    r = _rng("c05-spec", seed, index)
    spec = {
        "id": [seed, index],
        "model_seed": r.randrange(1 << 30),
        "nstep": r.choice([2, 3, 3, 4, 5]) if tier == "quick" else r.choice([2, 3, 4, 5, 6, 7]),
        "njob": r.choice([1, 2, 2, 3]),
        "sched": r.choice(["fifo", "fifo", "lifo", "random"]),
        "restart_sched": r.choice(["fifo", "random", "random"]),
        "nmut": r.choice([0, 1, 1, 1, 2, 2]),
        "mut_seed": r.randrange(1 << 30),
        "step_points": True,
        # the interrupted build is a rebuild phase of a watching director (edits arrive as file events)
        "watch": r.random() < 0.2,
        # the sub-plan (when the model has one) is deferred once while its steps run (simcases.explicit_project)
        "defer_sub": r.random() < 0.7,
        # give the model a sub-plan when projgen did not draw one (its last step moves there)
        "force_sub": r.random() < 0.5,
    }
    if spec["watch"]:
        spec["nmut"] = max(1, spec["nmut"])
    return spec


def build_models(spec):
    import projgen

    r = random.Random(spec["model_seed"])
    model0 = projgen.gen_model(r, nstep=spec["nstep"])
    if spec.get("force_sub") and not model0.has_sub and len(model0.steps) >= 2:
        model0.has_sub = True
        model0.steps[-1].plan = projgen.SUB
    model1 = model0
    applied = []
    rm = random.Random(spec["mut_seed"])
    for _ in range(spec["nmut"]):
        for _try in range(8):  # a mutation that does not apply to this model is drawn again
            kind = rm.choice(MUTATION_KINDS)
            if spec.get("watch") and kind == "change_env":
                kind = "change_source"  # a watching director keeps the environment it started with
            model1, kind = projgen.mutate(rm, model1, kind)
            if kind != "none":
                break
        applied.append(kind)
    return model0, model1, applied


def _schedule(name: str, seed: int):
    from simdirector import FifoSchedule, LifoSchedule, RandomSchedule

    if name == "fifo":
        return FifoSchedule()
    if name == "lifo":
        return LifoSchedule()
    return RandomSchedule(seed)


# ---------------------------------------------------------------------------------------------
# Oracles on one database state / one result
# ---------------------------------------------------------------------------------------------

SQL_BUILT_UNSUCCEEDED = (
    "SELECT f.label, c.label, step.state FROM node AS f JOIN file ON file.node = f.i "
    "JOIN node AS c ON f.creator = c.i JOIN step ON step.node = c.i "
    f"WHERE file.state = {BUILT} AND step.state != {SUCCEEDED}"
)
SQL_SUCCEEDED_UNBUILT = (
    "SELECT c.label, f.label, file.state FROM node AS c JOIN step ON step.node = c.i "
    "JOIN dependency ON dependency.source = c.i JOIN node AS f ON f.i = dependency.sink "
    "JOIN file ON file.node = f.i "
    f"WHERE step.state = {SUCCEEDED} AND NOT c.detached AND NOT f.detached AND file.state NOT IN ({BUILT}, {VOLATILE})"
)
SQL_HOLDING = f"SELECT label FROM node JOIN step ON step.node = node.i WHERE _holding != 0 AND state != {RUNNING}"
SQL_DEFERRED = f"SELECT label FROM node JOIN step ON step.node = node.i WHERE deferred AND state != {PENDING}"
SQL_HASHED = (
    "SELECT label, state FROM node JOIN step ON step.node = node.i JOIN step_hash ON step_hash.node = node.i "
    f"WHERE state IN ({RUNNING}, {FAILED})"
)
SQL_INTERRUPTED = (
    "SELECT label, state, detached FROM node JOIN step ON step.node = node.i "
    f"WHERE state IN ({RUNNING}, {CHECKING})"
)


def commit_invariants(sim) -> list[tuple[str, str]]:
    """`(signature, text)` of every committed-state invariant that fails right now."""
    bad = []
    for f, c, st in sim.query(SQL_BUILT_UNSUCCEEDED):
        bad.append(("built-output-of-unsucceeded-step", f"file '{f}' is BUILT while its creator step '{c}' is in state {st}"))
    for c, f, st in sim.query(SQL_SUCCEEDED_UNBUILT):
        bad.append(("succeeded-step-with-unbuilt-output", f"step '{c}' is SUCCEEDED while its output '{f}' is in state {st}"))
    for (label,) in sim.query(SQL_HOLDING):
        bad.append(("holding-step-not-running", f"step '{label}' has _holding != 0 but is not RUNNING"))
    for (label,) in sim.query(SQL_DEFERRED):
        bad.append(("deferred-step-not-pending", f"step '{label}' is deferred but not PENDING"))
    for label, st in sim.query(SQL_HASHED):
        bad.append(("unfinished-step-has-hash", f"step '{label}' in state {st} still has a stored step hash"))
    return bad


def _blocks(canon: str | None) -> dict[str, list[str]]:
    out = {}
    for block in (canon or "").split("\n\n"):
        lines = [ln for ln in block.split("\n") if ln.strip()]
        if lines:
            out[lines[0]] = lines[1:]
    return out


def graph_diff(ref: str | None, got: str | None) -> tuple[list[str], list[str]]:
    """Differences between two canonical graph texts: (in-scope differences, inp_digest-only differences)."""
    a, b = _blocks(ref), _blocks(got)
    scope, digest = [], []
    for key in sorted(set(a) | set(b)):
        if key not in a:
            scope.append(f"extra node {key}")
            continue
        if key not in b:
            scope.append(f"missing node {key}")
            continue
        la, lb = set(a[key]), set(b[key])
        for line in sorted(la ^ lb):
            name = line[:20].strip()
            side = "reference" if line in la else "restarted"
            text = f"{key}: {side} has '{line.strip()}'"
            (digest if name == "inp_digest" else scope).append(text)
    return scope, digest


def line_names(diffs: list[str]) -> str:
    names = set()
    for d in diffs:
        if d.startswith(("extra node", "missing node")):
            names.add(d.split(" ")[0] + "-node")
        else:
            names.add(d.split("'")[1].split(" ")[0])
    return "+".join(sorted(names))


# ---------------------------------------------------------------------------------------------
# One case = one project/history/schedule with all its crash points (runs in a worker process)
# ---------------------------------------------------------------------------------------------


def fixed_project(name: str, stage: int = 0):
    """Hand-written projects that every run includes (all their kill points are enumerated)."""
    from simdirector import A, Project, plan_file

    if name == "dropped-step":
        # stage 1 drops a step (and edits the input of another one, so that a job runs): the cleanup of the
        # detached step and of its outputs is the last thing the build does; a kill after the last job and before
        # that commit leaves it to the restart, which has no job to run
        steps = [A.step("keep", inp=["a.txt"], out=["keep.txt"])]
        if stage == 0:
            steps.append(A.step("gone", inp=["a.txt"], out=["sub/gone.txt"], vol=["sub/gone.log"]))
        plan = [A.static("a.txt"), *steps]
        return Project(scripts={"./plan.py": plan}, files={"a.txt": ["A0\n", "A1\n"][stage], "plan.py": plan_file(plan)})
    if name == "three-levels":
        # `./sub.py` (an ordinary step with the input cfg.txt) creates `./subsub.py`, which creates `leaf`; all
        # static files are declared by the boot plan.  Stage 1 (the interrupted rebuild) edits cfg.txt and the
        # input of the leaf: a kill while `./sub.py` runs again, after it has defined `./subsub.py` again, leaves
        # the grandchild attached below a RUNNING step.
        subsub = [A.step("leaf", inp=["inp.txt"], out=["leaf.txt"])]
        sub = [A.read("cfg.txt"), A.step("./subsub.py", inp=["subsub.py"]), A.nop(), A.nop()]
        return Project(
            scripts={"./plan.py": [A.static("sub.py", "subsub.py", "inp.txt", "cfg.txt"),
                                   A.step("./sub.py", inp=["sub.py", "cfg.txt"])],
                     "./sub.py": sub, "./subsub.py": subsub,
                     "leaf": [A.read("inp.txt"), A.nop(), A.write("leaf.txt")]},
            files={"inp.txt": ["one\n", "two\n"][stage], "cfg.txt": ["cfg 0\n", "cfg 1\n"][stage],
                   "sub.py": plan_file(sub), "subsub.py": plan_file(subsub)})
    if name == "deferred-grand-creator":
        # like deferred-creator, one level deeper: `sub` defines `./subsub.py`, which defines `slow`; `sub` is
        # deferred on gen.txt and runs again while `slow` is RUNNING two levels below it
        subsub = [A.step("slow", inp=["a.txt"], out=["slow.txt"])]
        sub = [A.step("./subsub.py", inp=["subsub.py"]), A.nop(), A.nop(), A.amend(inp=["gen.txt"]), A.read("gen.txt")]
        return Project(
            scripts={"./plan.py": [A.static("a.txt", "sub.py", "subsub.py"), A.step("gen", inp=["a.txt"], out=["gen.txt"]),
                                   A.step("./sub.py", inp=["sub.py"], plan=True)],
                     "./sub.py": sub, "./subsub.py": subsub,
                     "gen": [A.read("a.txt"), A.nop(), A.nop(), A.nop(), A.nop(), A.nop(), A.write("gen.txt")],
                     "slow": [A.read("a.txt"), A.nop(), A.nop(), A.nop(), A.nop(), A.nop(), A.nop(), A.nop(), A.nop(),
                              A.nop(), A.nop(), A.write("slow.txt")]},
            files={"a.txt": "A\n", "sub.py": plan_file(sub), "subsub.py": plan_file(subsub)})
    if name == "deferred-creator-static":
        # like deferred-creator; `sub` idles before it defines `slow` (again), and `slow` declares a static file
        # at its very end, i.e. while it is detached by the second run of `sub`, with all job slots taken: a kill
        # between its completion and the hash job of that file leaves the file UNCONFIRMED below a detached step
        # that is recycled SUCCEEDED and never runs again
        sub = [*[A.nop() for _ in range(25)], A.step("slow", inp=["a.txt"], out=["slow.txt"]), A.amend(inp=["gen.txt"]),
               A.read("gen.txt")]
        return Project(
            scripts={"./plan.py": [A.static("a.txt", "sub.py"), A.step("gen", inp=["a.txt"], out=["gen.txt"]),
                                   A.step("./sub.py", inp=["sub.py"], plan=True),
                                   A.step("busy", inp=["a.txt"], out=["busy.txt"])],
                     "./sub.py": sub,
                     "gen": [A.read("a.txt"), A.nop(), A.nop(), A.nop(), A.nop(), A.nop(), A.write("gen.txt")],
                     "busy": [A.read("a.txt"), *[A.nop() for _ in range(60)], A.write("busy.txt")],
                     "slow": [*[A.nop() for _ in range(10)], A.static("data.txt"),
                              A.step("copy", inp=["data.txt"], out=["copy.txt"]), A.read("a.txt"), A.write("slow.txt")]},
            files={"a.txt": "A\n", "sub.py": plan_file(sub), "data.txt": "D\n"})
    if name == "deferred-creator":
        # `sub` defines `slow`, then amends gen.txt, which is not built yet: `sub` is deferred while `slow`
        # runs; when gen.txt is there `sub` runs again, detaches the RUNNING `slow` and recycles it.
        sub = [A.step("slow", inp=["a.txt"], out=["slow.txt"]), A.amend(inp=["gen.txt"]), A.read("gen.txt")]
        return Project(
            scripts={"./plan.py": [A.static("a.txt", "sub.py"), A.step("gen", inp=["a.txt"], out=["gen.txt"]),
                                   A.step("./sub.py", inp=["sub.py"], plan=True)],
                     "./sub.py": sub,
                     "gen": [A.read("a.txt"), A.nop(), A.nop(), A.nop(), A.write("gen.txt")],
                     "slow": [A.read("a.txt"), A.nop(), A.nop(), A.nop(), A.nop(), A.nop(), A.nop(), A.nop(), A.nop(),
                              A.write("slow.txt")]},
            files={"a.txt": "A\n", "sub.py": plan_file(sub)})
    raise ValueError(name)


class _Case:
    def __init__(self, spec):
        import projgen

        self.spec = spec
        self.projgen = projgen
        import simcases

        if spec.get("fixed"):
            self.model0 = self.model1 = projgen.Model()
            self.mutations = ["fixed:" + spec["fixed"]]
            self.project0 = fixed_project(spec["fixed"])
            self.project1 = fixed_project(spec["fixed"], 1 if spec["nmut"] else 0)
        else:
            self.model0, self.model1, self.mutations = build_models(spec)
            self.project0 = simcases.explicit_project(self.model0, spec.get("defer_sub", False))
            self.project1 = simcases.explicit_project(self.model1, spec.get("defer_sub", False))
        self.edits = projgen._edits_between(self.project0, self.project1) if spec["nmut"] else []
        self.resources = self.model1.resources or self.model0.resources
        self.findings: list[dict] = []
        self.counts: dict[str, int] = {}
        self._buffer = None  # findings of a restart are held back until the restart has been classified

    def count(self, key, n=1):
        self.counts[key] = self.counts.get(key, 0) + n

    def finding(self, signature, what, **detail):
        if self._buffer is not None:
            self._buffer.append((signature, what, detail))
            return
        if all(f["signature"] != signature for f in self.findings):
            self.findings.append({"signature": signature, "what": what,
                                  "detail": {"spec": self.spec, "mutations": self.mutations, **detail,
                                             "rerun": "see harness/props/c05.py: run_case(spec) / replay"}})

    def prepare(self):
        """A scratch tree in the state right before the build that gets interrupted."""
        from simdirector import SimDirector

        sim = SimDirector(copy.deepcopy(self.project0), seed=self.spec["model_seed"] & 0xFFFF)
        if self.spec.get("watch"):
            first = sim.build(njob=self.spec["njob"], resources=self.model0.resources, watch=True,
                              schedule=_schedule(self.spec["sched"], 11))
            if first.status != "done" or not first.watching:
                sim.close()
                return None
            # scripts change at once (the plan file itself is one of the edits the watcher sees)
            for edit in self.edits:
                if edit[0] in ("script", "setenv"):
                    sim.apply([edit])
            sim.project.rules = list(self.project1.rules)
            return sim
        if self.spec["nmut"]:
            first = sim.build(njob=self.spec["njob"], resources=self.model0.resources,
                              schedule=_schedule(self.spec["sched"], 11))
            if first.status != "done":
                sim.close()
                return None
            sim.apply(self.edits)
            sim.project.rules = list(self.project1.rules)
        return sim

    def build_kwargs(self):
        return {"njob": self.spec["njob"], "resources": self.resources,
                "schedule": _schedule(self.spec["sched"], self.spec["model_seed"] & 0xFFFF)}

    def interrupted_build(self, sim, on_commit=None, crash_after_commit=None, crash_in_step=None):
        """The build that the crash points refer to: a fresh director, or the rebuild phase of a watching one."""
        if not self.spec.get("watch"):
            kw = self.build_kwargs()
            if crash_after_commit is not None:
                kw["crash_after_commit"] = crash_after_commit
            if crash_in_step is not None:
                kw["crash_in_step"] = crash_in_step
            return sim.build(**kw, on_commit=on_commit)
        session = sim.session
        session.crash_after_commit = crash_after_commit
        session.crash_in_step = crash_in_step
        session.on_commit = on_commit
        file_edits = [e for e in self.edits if e[0] not in ("script", "setenv")]
        return sim.watch_rebuild(file_edits, schedule=_schedule(self.spec["sched"], self.spec["model_seed"] & 0xFFFF))

    def observer(self, where, point, state):
        def on_commit(sim, k):
            self.count("commit-states-checked")
            for sig, text in commit_invariants(sim):
                self.finding(sig, f"{where} (crash point {point}), after commit {k}: {text}", point=point, commit=k,
                             phase=where)
            watched = state.get("interrupted")
            if watched:
                rows = sim.query(
                    "SELECT c.label, f.label FROM node AS c JOIN step ON step.node = c.i "
                    "JOIN dependency ON dependency.source = c.i JOIN node AS f ON f.i = dependency.sink "
                    f"JOIN file ON file.node = f.i WHERE file.state = {BUILT} AND step.state != {SUCCEEDED} "
                    "AND NOT f.detached")
                for c, f in rows:
                    if c in watched:
                        self.finding("interrupted-output-built",
                                     f"{where} (crash point {point}), after commit {k}: output '{f}' of the "
                                     f"interrupted step '{c}' is BUILT although the step has not succeeded again",
                                     point=point, commit=k)
        return on_commit

    def outcome_key(self, result):
        """What `equal to the uninterrupted build` compares: return code, files, in-scope graph lines."""
        lines = [ln for ln in (result.graph_canon or "").split("\n") if ln[:20].strip() != "inp_digest"]
        return (repr(result.returncode), tuple(sorted(result.files.items())), "\n".join(lines))

    def run(self):
        from simdirector import SimDirector

        # the project as written after the edits must be buildable from scratch (well-formed project)
        with SimDirector(copy.deepcopy(self.project1), seed=3) as fresh:
            scratch = fresh.build(njob=self.spec["njob"], resources=self.resources, schedule=_schedule("fifo", 0))
        self.count("scratch-builds")
        if not scratch.ok:
            self.count("case-skipped:project-does-not-build-from-scratch")
            return
        sim = self.prepare()
        if sim is None:
            self.count("case-skipped:first-build-not-done")
            return
        with sim:
            sources = set(self.project1.initial_files())
            ref = self.interrupted_build(sim, on_commit=self.observer("reference build", "-", {}))
        self.count("reference-builds" + (":watch-phase" if self.spec.get("watch") else ""))
        self.count(f"reference-status:{ref.status}:{ref.returncode.value if ref.returncode is not None else 'x'}")
        if ref.status != "done":
            self.finding("reference-build-" + ref.status, f"the uninterrupted build ended with status {ref.status}",
                         error=(ref.error or "")[-1500:])
            return
        if not ref.ok:
            # DESIGN 9/C05: the comparison is with an uninterrupted *successful* run (a build that ends
            # PENDING or FAILED skips the cleanup and its leftovers depend on the schedule)
            self.count("case-skipped:uninterrupted-build-not-successful")
            return
        self.ref = ref
        self.sources = sources
        # the uninterrupted build under other schedules: a history whose result depends on the schedule
        # (a C02 matter) has more than one `uninterrupted` outcome
        self.ref_keys = {self.outcome_key(ref)}
        for name, seed in (("lifo", 0), ("random", 5), ("fifo", 0)):
            if name == self.spec["sched"] and name != "random":
                continue
            other = self.prepare()
            if other is None:
                continue
            with other:
                if self.spec.get("watch"):
                    saved = self.spec["sched"]
                    self.spec["sched"] = name
                    try:
                        res = self.interrupted_build(other)
                    finally:
                        self.spec["sched"] = saved
                else:
                    res = other.build(njob=self.spec["njob"], resources=self.resources, schedule=_schedule(name, seed))
            self.count("reference-builds-other-schedules")
            if res.status == "done":
                self.ref_keys.add(self.outcome_key(res))
        if len(self.ref_keys) > 1:
            self.count("reference-schedule-dependent")
        points = [("commit", k) for k in range(1, ref.ncommit + 1)]
        if self.spec.get("step_points"):
            for run in ref.runs:
                for j in range(len(run.actions) + 1):
                    points.append(("step", run.label, j, run.attempt))
        only = self.spec.get("only_points")
        if only is not None:
            points = [p for p in points if list(p) in [list(o) for o in only]]
        for point in points:
            self.crash_point(point)

    def crash_point(self, point):
        sim = self.prepare()
        if sim is None:
            return
        ref = self.ref
        with sim:
            if point[0] == "commit":
                crashed = self.interrupted_build(sim, crash_after_commit=point[1])
            else:
                crashed = self.interrupted_build(sim, crash_in_step=(point[1], point[2], point[3]))
            self.count(f"crash-points:{point[0]}")
            if crashed.status != "crashed":
                self.count(f"crash-point-not-reached:{crashed.status}")
                if crashed.status in ("hang", "error"):
                    self.finding("interrupted-build-" + crashed.status,
                                 f"the build to be interrupted at {point} ended with status {crashed.status}",
                                 point=point, error=(crashed.error or "")[-1500:])
                return
            # one kill point in five: the restart itself is killed too, after 1-26 of its commits
            h = int(hashlib.sha1(repr((self.spec["id"], point)).encode()).hexdigest()[:6], 16)
            if h % 5 == 0:
                second = sim.build(njob=self.spec["njob"], resources=self.resources, strict=True,
                                   schedule=_schedule(self.spec["restart_sched"], h % 1000),
                                   crash_after_commit=1 + (h // 5) % 26)
                self.count("second-kill:" + second.status)
                if second.status in ("error", "hang"):
                    self.finding("restart-" + second.status, f"restart after a kill at {point} (to be killed again) "
                                 f"ended with status {second.status}", point=point, error=(second.error or "")[-2000:])
                    return
                for sig, text in commit_invariants(sim):
                    self.finding(sig, f"database left by a second kill after {point}: {text}", point=point)
            interrupted = {}
            for label, st, detached in sim.query(SQL_INTERRUPTED):
                interrupted[label] = (st, detached)
            self.count("interrupted-steps=%d" % min(len(interrupted), 3))
            if any(st == RUNNING and detached for st, detached in interrupted.values()):
                self.count("kill-points-with-a-detached-running-step")
            for sig, text in commit_invariants(sim):
                self.finding(sig, f"database left by a kill at {point}: {text}", point=point)
            state = {"interrupted": {lbl for lbl, (st, _) in interrupted.items() if st == RUNNING}}
            self._buffer = []
            restart = sim.build(njob=self.spec["njob"], resources=self.resources, strict=True,
                                schedule=_schedule(self.spec["restart_sched"], 7 + int(hashlib.sha1(repr(point).encode()).hexdigest()[:4], 16)),
                                on_commit=self._restart_observer(point, state))
            held, self._buffer = self._buffer, None
            self.count("restarts")
            # F9: a command ran while the row of its step was not RUNNING (the step was redefined by its
            # re-running creator and reset to PENDING with the job still in flight).  Everything else that
            # goes wrong in such a restart is a consequence, so it is reported once, under this signature.
            import simcases

            reset = state["watch"].windows_not_running(restart.runs)
            twice = simcases.jobs_in_flight_twice(restart.jobs)
            odd = simcases.job_state_anomalies(state["watch"].samples, restart.jobs)
            if reset or twice or odd:
                self.count("restarts-with-row-reset-under-running-command")
                if reset:
                    r0 = reset[0]
                    text = (f"the command of step '{r0['step']}' (job {r0['job']}) was running (logical time "
                            f"{r0['window']}) while its step row was in state {r0['state']} at commit {r0['commit']}")
                elif twice:
                    r0 = twice[0]
                    text = (f"step '{r0['step']}' had two jobs in flight at once (jobs {r0['jobs']}, kinds {r0['kinds']}, "
                            f"logical times {r0['windows']})")
                else:
                    r0 = odd[0]
                    text = (f"the row of step '{r0['step']}' went through the states {r0['states']} while its "
                            f"{r0['kind']} job {r0['job']} was in flight (logical time {r0['window']})")
                self.finding("running-step-row-reset",
                             f"restart after a kill at {point}: {text}: its re-running creator redefined the step while "
                             f"a job of it was in flight; restart ended with status {restart.status} / "
                             f"{restart.returncode!r}", point=point, resets=reset[:3], twice=twice[:3], odd=odd[:3],
                             status=restart.status, error=(restart.error or "")[-1200:],
                             commands=restart.commands)
                return
            for sig, what, detail in held:
                self.finding(sig, what, **detail)
            if restart.status != "done":
                sig = "restart-" + restart.status
                err = restart.error or ""
                if "ConsistencyError" in err:
                    sig = "restart-consistency-error"
                self.finding(sig, f"restart after a kill at {point} ended with status {restart.status}: "
                             f"{err.strip().splitlines()[-1] if err.strip() else ''}", point=point,
                             error=err[-2500:], log=restart.log[-10:])
                return
            if restart.log:
                self.count("restart-log-lines", len(restart.log))
            for tag, desc in restart.tags("ERROR"):
                self.finding("restart-error-report", f"restart after a kill at {point} reported ERROR: {desc}",
                             point=point)
            if self.outcome_key(restart) != self.outcome_key(ref) and self.outcome_key(restart) in self.ref_keys:
                # equal to the uninterrupted build under another schedule
                self.count("restarts-equal-to-reference-of-other-schedule")
                return
            if restart.returncode != ref.returncode:
                self.finding("restart-returncode-differs",
                             f"restart after a kill at {point} ended with {restart.returncode!r}, the uninterrupted "
                             f"build with {ref.returncode!r}", point=point,
                             events=[list(e[:2]) for e in restart.events][-25:])
                return
            # every step that was RUNNING at the kill and is SUCCEEDED now has been executed again
            final_states = dict(sim.query("SELECT label, state FROM node JOIN step ON step.node = node.i"))
            for label, (st, detached) in interrupted.items():
                if st == RUNNING and final_states.get(label) == SUCCEEDED and label not in restart.commands:
                    self.finding("interrupted-step-not-rerun",
                                 f"step '{label}' was RUNNING at the kill ({point}) and is SUCCEEDED after the restart "
                                 f"without having been executed again", point=point)
            # files
            extra = sorted(set(restart.files) - set(ref.files))
            missing = sorted(set(ref.files) - set(restart.files))
            differ = sorted(p for p in set(ref.files) & set(restart.files) if ref.files[p] != restart.files[p])
            if extra:
                final_outputs = {lbl for (lbl,) in sim.query(
                    "SELECT label FROM node JOIN file ON file.node = node.i WHERE NOT detached")}
                orphans = [p for p in extra if p not in final_outputs and p not in self.sources]
                if orphans:
                    self.finding("orphan-files-after-restart",
                                 f"after a kill at {point} and the restart, {orphans} remain on disk: neither sources "
                                 f"nor files of the final graph; the uninterrupted build removed them",
                                 point=point, orphans=orphans)
                rest = [p for p in extra if p not in orphans]
                planned = {lbl for (lbl,) in sim.query(
                    "SELECT f.label FROM node AS f JOIN file ON file.node = f.i JOIN node AS c ON f.creator = c.i "
                    "JOIN step ON step.node = c.i WHERE NOT f.detached AND file.state = 15 AND step.state = 21")}
                reverted = [p for p in rest if p in planned]
                if reverted:
                    self.finding("reverted-outputs-left-after-restart",
                                 f"after a kill at {point} and the restart, {reverted} remain on disk although they are "
                                 f"PLANNED outputs of steps that are no longer needed; the uninterrupted build "
                                 f"removed them", point=point, files=reverted)
                rest = [p for p in rest if p not in reverted]
                if rest:
                    self.finding("extra-files-after-restart", f"after a kill at {point} and the restart, {rest} exist "
                                 f"but not after the uninterrupted build", point=point, files=rest)
            if missing:
                self.finding("files-missing-after-restart", f"after a kill at {point} and the restart, {missing} are "
                             f"missing; the uninterrupted build has them", point=point, files=missing)
            if differ:
                self.finding("outputs-differ-after-restart",
                             f"after a kill at {point} and the restart, {differ} differ from the uninterrupted build",
                             point=point, files=differ,
                             reference={p: ref.files[p].decode("utf-8", "replace")[:400] for p in differ[:2]},
                             restarted={p: restart.files[p].decode("utf-8", "replace")[:400] for p in differ[:2]})
            scope, digest = graph_diff(ref.graph_canon, restart.graph_canon)
            if scope:
                self.finding("restart-graph-differs",
                             f"after a kill at {point} and the restart the graph differs from the uninterrupted "
                             f"build in the lines {line_names(scope)}: {scope[:3]}", point=point, differences=scope[:20])
            elif digest:
                self.finding("restart-graph-differs:inp_digest-only",
                             f"after a kill at {point} and the restart only step inp_digest values differ: {digest[:2]}",
                             point=point, differences=digest[:10])
            # the completion of a step is one transaction: state, output hashes and the recorded outcome
            # (return code, captured output) are there together or not at all
            no_outcome = [lbl for (lbl,) in sim.query(
                f"SELECT label FROM node JOIN step ON step.node = node.i WHERE NOT detached AND step.state = {SUCCEEDED} "
                "AND EXISTS (SELECT 1 FROM step_hash WHERE step_hash.node = node.i) "
                "AND NOT EXISTS (SELECT 1 FROM step_outcome WHERE step_outcome.node = node.i)")]
            self.count("restarts-outcome-rows-checked")
            if no_outcome:
                self.finding("succeeded-step-without-recorded-outcome",
                             f"after a kill at {point} and the restart the steps {no_outcome[:4]} are SUCCEEDED with a stored "
                             f"hash but have no recorded outcome (return code, output): the completion was not atomic",
                             point=point, steps=no_outcome)
            if not (extra or missing or differ or scope or digest):
                self.count("restarts-identical-to-reference")

    def _restart_observer(self, point, state):
        inner = self.observer("restart", point, state)
        state["watch"] = __import__("simcases").RowWatch()

        def on_commit(sim, k):
            state["watch"](sim, k)
            # a step leaves the watch list once it has succeeded again
            if state["interrupted"]:
                done = {lbl for (lbl,) in sim.query(
                    f"SELECT label FROM node JOIN step ON step.node = node.i WHERE state = {SUCCEEDED}")}
                state["interrupted"] -= done
            inner(sim, k)
        return on_commit


def run_case(spec: dict) -> dict:
    t0 = time.time()
    case = _Case(spec)
    case.run()
    return {"findings": case.findings, "counts": case.counts, "wall": time.time() - t0,
            "mutations": case.mutations,
            "shape": [len(case.model1.steps), len(case.model1.globbed), bool(case.model1.tree), case.model1.has_sub]}


# ---------------------------------------------------------------------------------------------
# Kernel-side observer: the invariants the restart relies on, on the real database
# ---------------------------------------------------------------------------------------------


class KernelObserver:
    """After every request of a kernel sequence: no BUILT file behind a PENDING/FAILED producer created
    by `reset_interrupted` / `completed` / `reset_rerun`, and the postconditions of `reset_interrupted`."""

    def __init__(self, ctx, run):
        self.ctx = ctx

    def __call__(self, run, op, line, ans):
        legal = run.legal[-1]
        if not legal and ans.startswith("ok"):
            run.tainted = True
        if getattr(run, "tainted", False) or not ans.startswith("ok"):
            return
        ctx = self.ctx
        con = run.wf.db
        if op == "reset_interrupted":
            ctx.stats.count("oracle-reset-interrupted-checked")
            bad = con.execute(f"SELECT label, state FROM node JOIN step ON step.node = node.i "
                              f"WHERE state IN ({RUNNING}, {CHECKING}) OR (state = {FAILED} AND NOT detached) "
                              f"OR _holding != 0").fetchall()
            for label, st in bad[:2]:
                ctx.finding(Finding(PID, "reset-interrupted-postcondition",
                                    f"after reset_interrupted_steps step '{label}' is in state {st} (or holds)",
                                    {"requests": [kcorr.decode_line(x) for x in run.lines][-15:],
                                     "protocol_lines": list(run.lines)}))
        if op in ("completed", "reset_rerun"):
            ctx.stats.count("oracle-completion-checked")
            label = bytes.fromhex(line.split(" ")[2].split(":")[1]).decode() if ":" in line.split(" ")[2] else ""
            rows = con.execute(
                "SELECT f.label FROM node AS f JOIN file ON file.node = f.i JOIN node AS c ON f.creator = c.i "
                f"JOIN step ON step.node = c.i WHERE c.kind = 'step' AND c.label = ? AND file.state = {BUILT} "
                f"AND step.state != {SUCCEEDED}", (label,)).fetchall()
            for (f,) in rows[:2]:
                ctx.finding(Finding(PID, "built-product-after-" + op,
                                    f"after '{kcorr.decode_line(line)[:100]}' the product '{f}' of step '{label}' is BUILT "
                                    f"although the step is not SUCCEEDED",
                                    {"requests": [kcorr.decode_line(x) for x in run.lines][-15:],
                                     "protocol_lines": list(run.lines)}))


import kcorr  # noqa: E402


async def correspond(ctx):
    await kcorr.run(ctx, kcorr.ALL_SCOPES, observers=[KernelObserver], salt="c05")


# ---------------------------------------------------------------------------------------------
# Search / replay
# ---------------------------------------------------------------------------------------------

DESCRIPTIONS = {
    "orphan-files-after-restart": "F6",
    "reverted-outputs-left-after-restart": "F6 (revert_optional_steps variant)",
    "running-step-row-reset": "F9",
}


def _merge(ctx, task, res):
    st = ctx.stats
    for k, v in res["counts"].items():
        st.count("sim:" + k, v)
    st.programs += 1
    st.evaluations += res["counts"].get("restarts", 0)
    st.count("sim:mutations:" + ("+".join(res["mutations"]) or "none"))
    st.case(("c05", tuple(task["id"]), tuple(res["shape"])), res["counts"].get("restarts", 0) > 0)
    st.sample({"case": task, "mutations": res["mutations"], "shape(steps,globbed,tree,sub)": res["shape"],
               "restarts": res["counts"].get("restarts", 0)})
    for f in res["findings"]:
        ctx.finding(Finding(PID, f["signature"], f["what"], f["detail"]))


async def killed_before_root(ctx):
    """The earliest kill point: after `apply_schema` (autocommit) and before the first transaction, in which
    the root node is created.  The next start must open the database."""
    import tempfile

    from stepup.core.sqlite3 import DBSession
    from stepup.core.workflow import Workflow

    with tempfile.TemporaryDirectory() as d:
        path = os.path.join(d, "graph.db")
        with DBSession.open(path) as db:
            wf = Workflow(db, dir_queue=None)
            schema = [wf.schema()] + [s for nc in wf.node_classes.values() if (s := nc.schema()) is not None]
            await db.apply_schema(wf.application_id, wf.schema_version, schema)  # ... killed here
        with DBSession.open(path) as db:
            wf = Workflow(db, dir_queue=None)
            try:
                await wf.initialize()
                async with db:
                    ok = wf.root is not None
            except Exception as exc:  # noqa: BLE001
                ctx.finding(Finding(PID, "restart-fails:killed-before-root-node",
                                    f"after a kill between the creation of the tables and the first transaction every "
                                    f"later start fails: {type(exc).__name__}: {exc}",
                                    {"how": "harness/repro/c05_killed_before_root.py"}))
                return
            if not ok:
                ctx.finding(Finding(PID, "restart-fails:killed-before-root-node", "the database has no root node after "
                                    "the restart", {"how": "harness/repro/c05_killed_before_root.py"}))
    ctx.stats.count("scenario:killed-before-root-node")


async def search(ctx):
    import simpool

    await killed_before_root(ctx)

    ncase = ctx.budget(12, 240)
    specs = [make_spec(ctx.seed, i, ctx.tier) for i in range(ncase)]
    # the hand-written deferred-creator project under three schedules, first
    fixed = []
    for j, (njob, sched) in enumerate(((3, "fifo"), (3, "random"), (2, "lifo"))):
        fixed.append({"id": [ctx.seed, -1 - j], "fixed": "deferred-creator", "model_seed": 1000 * ctx.seed + j,
                      "nstep": 3, "njob": njob, "sched": sched, "restart_sched": "random" if j else "fifo", "nmut": 0,
                      "mut_seed": 0, "step_points": True, "watch": False})
    for j, (njob, sched) in enumerate(((3, "fifo"), (3, "random"), (3, "lifo"))):
        fixed.append({"id": [ctx.seed, -31 - j], "fixed": "deferred-creator-static", "model_seed": 1000 * ctx.seed + 91 + j,
                      "nstep": 3, "njob": njob, "sched": sched, "restart_sched": "fifo", "nmut": 0,
                      "mut_seed": 0, "step_points": True, "watch": False})
    for j, (njob, sched) in enumerate(((3, "fifo"), (3, "random"))):
        fixed.append({"id": [ctx.seed, -21 - j], "fixed": "deferred-grand-creator", "model_seed": 1000 * ctx.seed + 77 + j,
                      "nstep": 3, "njob": njob, "sched": sched, "restart_sched": "fifo", "nmut": 0,
                      "mut_seed": 0, "step_points": True, "watch": False})
    fixed.append({"id": [ctx.seed, -41], "fixed": "dropped-step", "model_seed": 1000 * ctx.seed + 13,
                  "nstep": 2, "njob": 1, "sched": "fifo", "restart_sched": "fifo", "nmut": 1,
                  "mut_seed": 0, "step_points": True, "watch": False})
    for j, (njob, sched) in enumerate(((1, "fifo"), (2, "random"))):
        fixed.append({"id": [ctx.seed, -11 - j], "fixed": "three-levels", "model_seed": 1000 * ctx.seed + 50 + j,
                      "nstep": 3, "njob": njob, "sched": sched, "restart_sched": "fifo", "nmut": 1,
                      "mut_seed": 0, "step_points": True, "watch": False})
    soft = 45 if ctx.tier == "quick" else 900
    ran = 0
    import itertools

    # the hand-written projects always run, whatever the load of the machine (no soft limit): whether a seeded
    # change is caught must not depend on how many cases fit into the budget; the generated ones fill the budget
    runs = itertools.chain(
        simpool.run_retrying("props.c05", "run_case", fixed, deadline_s=900),
        simpool.run_retrying("props.c05", "run_case", specs, deadline_s=soft + 120, soft_s=soft))
    for status, task, res in runs:
        if status == "ok":
            ran += 1
            _merge(ctx, task, res)
        elif status == "skipped":
            ctx.stats.count("sim:cases-not-started-in-budget")
        else:
            ctx.stats.count("sim:case-" + status)
            ctx.finding(Finding(PID, "oracle-case-" + status, f"simulated case {task['id']} ended with {status}",
                                {"spec": task, "error": str(res)[-2000:]}))
    ctx.extra["sim_cases"] = ran
    rule = ("one case = one generated project (projgen model with explicit step scripts), optionally a completed "
            "first build and 1-2 plan/source mutations, one schedule; every commit index and every step action "
            "boundary of the uninterrupted build is a crash point followed by a strict restart; evaluations = restarts; "
            "distinct = cases with at least one restart")
    ctx.stats.rule = (ctx.stats.rule + " | " if ctx.stats.rule else "") + rule


async def replay(ctx, detail):
    import simpool

    d = detail.get("detail", {})
    sig = detail.get("signature", "")
    spec = d.get("spec")
    if spec is None:
        await search(ctx)
        return {"reproduced": any(f.signature == sig for f in ctx.findings), "signature": sig}
    spec = dict(spec)
    if d.get("point") is not None:
        spec["only_points"] = [list(d["point"])]
    found = []
    for status, task, res in simpool.run("props.c05", "run_case", [spec], deadline_s=600):
        if status == "ok":
            found = res["findings"]
    hit = [f for f in found if f["signature"] == sig]
    return {"reproduced": bool(hit), "signature": sig, "spec": spec,
            "what": hit[0]["what"] if hit else None, "other_signatures": sorted({f["signature"] for f in found})}
