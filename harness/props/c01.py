"""C01: an incremental build is equivalent to a build from scratch.

Correspondence: kernel scopes declarations, propagation, completion, startup (the theorems of
`Props/C01.lean` are about `updateFileHashes`/`markStepPending`, `canRecycle`/`create`,
`resetInterrupted`, `rescanEnvVars`), plus the small model of the executor's skip decision
(`P/Skip.lean`) against the real `Executor.try_skip_job` / `validate_dynamic_job` driven on
constructed workflows.

Oracle (the property itself, on the real director code through `simdirector`), three families:
 1. generated histories of projgen projects (edits of sources, plans that drop / re-add unchanged /
    redefine steps, a dropped and re-added sub-plan, environment changes including a variable that
    goes back to an earlier value, a source that disappears and comes back while other sources
    change; restarts and watch-mode rebuilds; 1-3 jobs, random schedules);
 2. trees of plans (nested and sibling sub-plans whose steps depend on each other across plans, an
    optional producer needed only by a consumer two plan levels down): a plan file is touched, a
    child plan dropped or re-added, a source edited, a step made optional;
 3. redefinitions: one step is redefined with exactly one of shell / env_overrides / resources /
    need changed.
After the last build the database and the tree are compared with a build from an empty database of
a copy of the final sources.

Scope of the comparison ("same active steps, files, states and relations"): every *attached*
node with its state, need (declared and implied), environment variables, glob patterns,
resources, creator, products and dependency edges with their dynamic flag, and the content digest
of every file; all bytes of every path the from-scratch build produced or kept.  Out of scope:
detached nodes (memories kept for recycling) and edges to them, and the stored step digests
(`inp_digest`, `out_digest`: derived data; a PENDING optional step keeps its hash after
`revert_optional_steps`, which is counted as `out-of-scope:pending-step-keeps-hash` and is not a
violation because the skip decision re-checks both digests, see `skip_sound`; a step that ran while
its creator was re-running can be recorded with an input digest that leaves out a re-declared,
still UNCONFIRMED static input: counted as `out-of-scope:step-digest-recorded-during-creator-rerun`,
behaviour 2 of notes/simdirector.md, owned by C03/C05).  When the active
graphs agree, the step digests of SUCCEEDED steps are compared as well and a difference is
reported under its own signature.
"""

from __future__ import annotations

import asyncio
import os

import buildkit
import kcorr
import projgen
from common import Finding
from simdirector import A, Project, SimDirector

PID = "C01"
LEVEL = "proof"
ASSUMPTIONS = [
    "whole-build equivalence (closed_unique + successful_build_closed of DESIGN) is decided by the oracle on "
    "simulated builds; the theorems are the decomposition lemmas on the kernel model and the skip-decision model",
    "projects are well behaved: a step's behaviour is a function of its label, the inputs it declares or amends "
    "and the environment variables it declares (projgen puts a tag of every non-default script into the command)",
    "stored step digests are derived data and are not part of 'states and relations'; a PENDING step that keeps a "
    "stored hash is counted, not reported",
    "histories with crashes belong to C05, files that only the incremental tree still has to C07",
]
SCOPES = {"declarations", "propagation", "completion", "startup"}


# ---------------------------------------------------------------------------------------------
# Comparison
# ---------------------------------------------------------------------------------------------


def _drop_reverted_optional_memory(canon_a: str, canon_b: str) -> tuple[str, str]:
    """Both graphs without what a step that is PENDING and OPTIONAL in *both* of them remembers
    from an earlier run: its dynamic (amended) edges, the outputs it amended, edges of other nodes
    to those outputs, and static-tree files that are attached only because of such an edge."""
    ga, gb = buildkit.parse_graph(canon_a), buildkit.parse_graph(canon_b)

    def reverted(g, key):
        b = g.get(key)
        return (b is not None and not b.detached and b.get("state") == ["PENDING"]
                and (b.get("need") or [""])[0].startswith("OPTIONAL"))

    steps = {k for k in ga if k.startswith("step:") and reverted(ga, k) and reverted(gb, k)}
    out = []
    for g in (ga, gb):
        gone_files: set[str] = set()
        dyn_inputs: set[tuple[str, str]] = set()
        for key in steps:
            for ref in g[key].rel("sink"):
                if ref.endswith(" [dynamic]"):
                    gone_files.add(buildkit.strip_ref(ref))
            for ref in g[key].rel("source"):
                if ref.endswith(" [dynamic]"):
                    dyn_inputs.add((buildkit.strip_ref(ref), key))
        blocks = {}
        for key, block in g.items():
            if block.detached or key in gone_files:
                continue
            rels = []
            for role, ref in block.rels:
                bare = buildkit.strip_ref(ref)
                if buildkit.is_detached_ref(ref.removesuffix(" [dynamic]")) or bare in gone_files:
                    continue
                if key in steps and ref.endswith(" [dynamic]"):
                    continue
                if role == "sink" and (key, bare) in dyn_inputs:
                    continue
                rels.append((role, ref))
            blocks[key] = (list(block.props), rels)
        # static-tree files nobody consumes any more exist only on demand
        orphan = {k for k, (_, rels) in blocks.items()
                  if k.startswith("file:") and not any(r == "sink" for r, _ in rels)
                  and any(r == "creator" and ref.startswith("st:") for r, ref in rels)}
        text = []
        for key in sorted(blocks):
            if key in orphan:
                continue
            props, rels = blocks[key]
            lines = [f"{n:>20s} = {v}" for n, v in props if n not in buildkit.DIGEST_PROPS]
            lines += [f"{r:>20s}   {ref}" for r, ref in rels if buildkit.strip_ref(ref) not in orphan]
            text.append("\n".join([key, *sorted(lines)]))
        out.append("\n\n".join(text) + "\n")
    return out[0], out[1]


def _without(view: str, *names: str) -> str:
    keep = []
    for line in view.split("\n"):
        if line[:20].strip() in names and line[20:23] == " = ":
            continue
        keep.append(line)
    return "\n".join(keep)


def _upstream_env(canon: str, paths: list[str]) -> set[str]:
    """Environment variables used by the producers of `paths` and by everything upstream of them."""
    g = buildkit.parse_graph(canon)
    todo = [f"file:{p}" for p in paths]
    seen, names = set(), set()
    while todo:
        key = todo.pop()
        if key in seen or key not in g:
            continue
        seen.add(key)
        block = g[key]
        if key.startswith("step:"):
            names.update(v.removesuffix(" [dynamic]") for v in block.get("using_env"))
            todo.extend(buildkit.strip_ref(r) for r in block.rel("source"))
        else:
            todo.extend(buildkit.strip_ref(r) for r in block.rel("source") if buildkit.strip_ref(r).startswith("step:"))
    return names


def compare(inc, fresh, reverted_env=frozenset()) -> list[tuple[str, str, dict]]:
    """Differences between the end of an incremental history (`inc`: BuildResult carrying the
    final graph and files) and the from-scratch build `fresh`, as `(signature, what, extra)`.
    `reverted_env`: tracked variables that the history set back to an earlier value."""
    found = []
    a = buildkit.active_view(inc.graph_canon)
    b = buildkit.active_view(fresh.graph_canon)
    stale = sorted(p for p in fresh.files if inc.files.get(p) != fresh.files[p])
    if a != b:
        lines = buildkit.diff_lines(a, b, 10)
        kinds = buildkit.diff_kinds(a, b)
        extra = {"difference_kinds": kinds, "first_differences (- incremental, + from scratch)": lines}
        a2, b2 = _drop_reverted_optional_memory(inc.graph_canon, fresh.graph_canon)
        has_env = any(k.endswith(".using_env") for k in kinds)
        env_only = _without(a, "using_env", "digest") == _without(b, "using_env", "digest")
        if env_only and has_env:
            found.append(("stale-env-dependency",
                          "a redefined step keeps an environment variable it no longer declares: "
                          + "; ".join(ln for ln in lines if "using_env" in ln)[:300], extra))
        elif env_only and stale:
            pass  # only content digests of files differ: the same fact as the stale outputs below
        elif a2 == b2:
            found.append(("reverted-optional-step-keeps-amended-relations",
                          "an optional step that ran earlier and is not needed any more is PENDING in both graphs but "
                          "keeps its amended inputs/outputs as active relations: " + "; ".join(lines[:3])[:300], extra))
        else:
            a3, b3 = _without(a2, "using_env", "digest"), _without(b2, "using_env", "digest")
            if a3 == b3 and has_env:
                found.append(("stale-env-dependency",
                              "a redefined step keeps an environment variable it no longer declares: "
                              + "; ".join(ln for ln in lines if "using_env" in ln)[:300], extra))
                found.append(("reverted-optional-step-keeps-amended-relations",
                              "an optional PENDING step keeps amended relations of an earlier run", extra))
            elif a3 == b3 and stale:
                found.append(("reverted-optional-step-keeps-amended-relations",
                              "an optional PENDING step keeps amended relations of an earlier run", extra))
            else:
                lost = _lost_products_of_hashless_creators(inc.graph_canon, fresh.graph_canon, a2, b2)
                if lost:
                    found.append(("creator-that-lost-a-product-not-rerun",
                                  f"{lost['steps']} lost the product(s) {lost['files'][:4]} while detached (cleaned up, "
                                  f"hash dropped), were re-attached in the subtree of a recycled creator, are SUCCEEDED "
                                  f"without a hash and were never run again: the declarations are missing", {**extra, **lost}))
                else:
                    sig = "graph-differs:" + ",".join(k for k in (buildkit.diff_kinds(a3, b3) or kinds))[:120]
                    found.append((sig, "the active workflow differs from a build from scratch: "
                                  + "; ".join(lines[:4])[:400], extra))
    if stale:
        detail = {"paths": stale,
                  "incremental": {p: _text(inc.files.get(p)) for p in stale[:2]},
                  "from_scratch": {p: _text(fresh.files[p]) for p in stale[:2]}}
        if any(s == "stale-env-dependency" for s, _, _ in found):
            sig, what = "stale-output-after-env-redefinition", "after a redefinition that dropped an environment variable"
        elif any(s == "creator-that-lost-a-product-not-rerun" for s, _, _ in found):
            sig, what = "stale-output-after-lost-product", "downstream of a creator that lost a product and was not rerun"
        elif reverted_env & _upstream_env(fresh.graph_canon, stale):
            names = sorted(reverted_env & _upstream_env(fresh.graph_canon, stale))
            sig = "env-value-reverted-not-noticed"
            what = (f"the tracked variable(s) {names} went back to an earlier value; the startup rescan compares "
                    f"with the value recorded when the step was declared, so the step built with the value in "
                    f"between is kept")
            detail["variables"] = names
        else:
            sig, what = "stale-output", "no known cause"
        found.append((sig, f"{len(stale)} output(s) differ from a build from scratch ({what}): {stale[:4]}", detail))
    if a == b and not stale:
        da, db = buildkit.step_digests(inc.graph_canon), buildkit.step_digests(fresh.graph_canon)
        for key, (state, digests) in sorted(db.items()):
            if key not in da or da[key] == (state, digests):
                continue
            if state == "SUCCEEDED":
                found.append(("succeeded-step-digest-differs",
                              f"{key} is SUCCEEDED in both graphs with different stored digests",
                              {"step": key, "incremental": da[key], "from_scratch": (state, digests)}))
            else:
                found.append(("out-of-scope:pending-step-keeps-hash", key, {}))
    return found


def _lost_products_of_hashless_creators(inc_canon, fresh_canon, view_inc, view_fresh):
    """The root cause `after_lost_product without rerun`: steps that are attached and SUCCEEDED
    without a stored hash in the incremental graph (only `Step.after_lost_product` leaves a
    SUCCEEDED step without hash) while from scratch they have products that the incremental graph
    lacks.  Returns the steps and the missing products, or None."""
    gi, gf = buildkit.parse_graph(inc_canon), buildkit.parse_graph(fresh_canon)
    steps, lost = set(), set()
    for key, block in gf.items():
        if block.detached or not key.startswith("step:"):
            continue
        mine = gi.get(key)
        if mine is None or mine.detached or mine.get("state") != ["SUCCEEDED"] or mine.get("inp_digest"):
            continue
        have = {buildkit.strip_ref(p) for p in mine.rel("product")}
        missing = {buildkit.strip_ref(p) for p in block.rel("product")} - have
        if missing:
            steps.add(key)
            lost |= missing
    if not steps:
        return None
    return {"files": sorted(lost), "steps": sorted(steps)}


def _text(b):
    return None if b is None else b.decode("utf-8", "replace")[:400]


# ---------------------------------------------------------------------------------------------
# One case
# ---------------------------------------------------------------------------------------------


def gen_case(r):
    model = projgen.gen_model(r)
    hist = buildkit.gen_hist(r, model, watch_prob=0.3)
    return model, hist


def evaluate(initial, events, final_project, sim_seed, fresh_kwargs, reverted_env=frozenset()):
    """Run the events on `initial`, build `final_project` from scratch, compare.
    Returns `(findings, summary)`."""
    results = projgen.run_history(initial, events, seed=sim_seed)
    watch = bool(events) and events[-1][0] == "shutdown"
    summary = {"nbuild": len(results), "watch": watch, "commands": sum(len(x.commands) for x in results)}
    found: list[tuple[str, str, dict]] = []
    bad = [x for x in results if x.status != "done"]
    if bad:
        x = bad[0]
        found.append((f"director-{x.status}", f"a build phase ended with status {x.status}: {(x.error or '')[-300:]}",
                      {"error": (x.error or "")[-1500:]}))
        return found, summary
    final = results[-1]
    builds = results[:-1] if watch else results
    last = builds[-1]
    fresh = projgen.fresh_build(final_project, seed=sim_seed + 1, **fresh_kwargs)
    summary["fresh_ok"] = fresh.ok
    summary["last_ok"] = last.ok
    if not fresh.ok:
        if last.ok:
            # The incremental build succeeds where a build from scratch of the same sources does not.
            summary["skipped"] = "from-scratch build not successful, incremental build successful"
            cause = "unexplained"
            import re as _re

            block = None
            for line in (final.graph_canon or "").splitlines():
                if line and not line.startswith(" "):
                    block = line.strip()
                elif block and block.startswith("step:") and _re.match(r"\s+source\s+\(file:", line):
                    cause = "consumer-of-dropped-producer"  # an attached step consumes a detached file
                    break
            found.append((f"incremental-build-succeeds-where-scratch-is-{buildkit.rc_class(fresh)}:{cause}",
                          f"the last build of the history ended with {last.returncode!r} while a build from scratch of "
                          f"the same sources ends with {fresh.returncode!r}",
                          {"scratch_returncode": repr(fresh.returncode),
                           "scratch_warnings": [e[1] for e in fresh.events if e[0] == "WARNING"][:4]}))
        return found, summary
    if not last.ok:
        found.append(("incremental-build-fails",
                      f"the last build of the history ended with {last.returncode!r} while a build from scratch "
                      f"of the same sources succeeds",
                      {"returncode": repr(last.returncode),
                       "rejected": [[x.label, x.rpc_errors] for x in last.runs if x.rpc_errors][:3],
                       "warnings": [e[1] for e in last.events if e[0] == "WARNING"][:4], "log": last.log[-5:]}))
        return found, summary
    for sig, what, extra in compare(final, fresh, frozenset(reverted_env)):
        if sig == "succeeded-step-digest-differs" and _ran_during_creator_rerun(results, final, extra["step"]):
            # Behaviour 2 of notes/simdirector.md (owned by C03/C05): the step completed while its creator
            # was re-running and had re-declared a static input that was still UNCONFIRMED, so
            # `_compute_full_step_hash` left that input out of the stored digest.  States, relations and
            # outputs agree; the only consequence is one extra hash mismatch (a rerun) later.
            found.append(("out-of-scope:step-digest-recorded-during-creator-rerun", extra["step"], {}))
        else:
            found.append((sig, what, extra))
    return found, summary


def run_case(ctx, index: int, *, salt="hist"):
    """Generate history `index`, run it, compare with the from-scratch build. Returns findings
    (not yet reported), a summary for the statistics and the history."""
    r = ctx.rng(salt, index)
    model, hist = gen_case(r)
    sim_seed = r.randrange(1 << 30)
    fm = hist.final_model
    initial, final_project = projgen.render(model), projgen.render(fm)
    fresh_kwargs = {"njob": 2, "resources": fm.resources}
    reverted = sorted(_reverted_env(hist))
    found, summary = evaluate(initial, hist.events, final_project, sim_seed, fresh_kwargs, reverted)
    # A project in which a non-optional step consumes an amended output of an optional step cannot be built from
    # scratch (the output is unknown until the optional step has run, and nothing known needs that step); the
    # incremental build remembers the relation from the time the step was not optional.
    amended_by_optional = {p for st in fm.steps if getattr(st, "optional", False) for p in getattr(st, "amend_out", [])}
    consumed = {p for st in fm.steps for p in list(st.inp) + list(st.amend_inp)}
    if amended_by_optional & consumed:
        found = [((sig.rsplit(":", 1)[0] + ":amended-output-of-optional-step-consumed", what, extra)
                  if sig.startswith("incremental-build-succeeds-where-scratch-is-") and sig.endswith(":unexplained")
                  else (sig, what, extra)) for sig, what, extra in found]
    summary.update({"index": index, "mutations": hist.mutations})
    if any(not sig.startswith("out-of-scope:") for sig, _, _ in found):
        hist.explicit = buildkit.pack_case(initial, hist.events, final_project, sim_seed, fresh_kwargs,
                                           {"reverted_env": reverted})
    return found, summary, hist


def _reverted_env(hist) -> frozenset:
    """Variables that took a value again which they had before a different one."""
    out = set()
    for name in projgen.ENV_NAMES:
        values = [m.env.get(name) for m in hist.models]
        compact = [v for i, v in enumerate(values) if i == 0 or v != values[i - 1]]
        if len(compact) != len(set(compact)):
            out.add(name)
    return frozenset(out)


def _ran_during_creator_rerun(results, final, step_key: str) -> bool:
    block = buildkit.parse_graph(final.graph_canon).get(step_key)
    if block is None:
        return False
    creators = [buildkit.strip_ref(c)[5:] for c in block.rel("creator") if buildkit.strip_ref(c).startswith("step:")]
    label = step_key[5:]
    for res in reversed(results):
        mine = [r for r in res.runs if r.label == label]
        if not mine:
            continue
        last = mine[-1]
        for other in res.runs:
            if other.label in creators and other.start <= (last.end or last.start) and \
                    (other.end is None or other.end >= last.start):
                return True
        return False
    return False


# ---------------------------------------------------------------------------------------------
# Second family: a step is redefined with one property changed and everything else equal
# ---------------------------------------------------------------------------------------------

TARGET = "tgt -e"
TARGET_SCRIPT = [A.read_declared(), A.getenv("OVR"), A.write_declared()]


def redef_project(inputs: str, shell: bool, ovr: str | None, resources: dict, optional: bool, a_text: str) -> Project:
    inp = {"none": [], "static": ["a.txt"], "built": ["g.txt"]}[inputs]
    plan = [A.static("a.txt"), A.step("gen", inp=["a.txt"], out=["g.txt"]),
            A.step(TARGET, inp=inp, out=["t.txt"], shell=shell, env_overrides=({"OVR": ovr} if ovr else None),
                   resources=resources, optional=optional),
            A.step("use", inp=["t.txt"], out=["u.txt"])]
    return Project(scripts={"./plan.py": plan, TARGET: TARGET_SCRIPT}, files={"a.txt": a_text})


def run_redef_case(ctx, index: int, *, salt="redef"):
    """build; redefine `tgt -e` with exactly one of shell / env_overrides / resources / need changed
    (sometimes together with an edit of the source); build; compare with a build from scratch."""
    r = ctx.rng(salt, index)
    inputs = r.choice(["none", "none", "static", "built"])
    prop = r.choice(["env_overrides", "env_overrides", "shell", "resources", "need"])
    base = {"shell": False, "ovr": r.choice([None, "one"]), "resources": {}, "optional": False}
    new = dict(base)
    if prop == "env_overrides":
        new["ovr"] = "two" if base["ovr"] != "two" else None
    elif prop == "shell":
        new["shell"] = True
    elif prop == "resources":
        new["resources"] = {"cpu": 1}
    else:
        new["optional"] = True
    edit_source = r.random() < 0.3
    first = redef_project(inputs, base["shell"], base["ovr"], base["resources"], base["optional"], "A0\n")
    last = redef_project(inputs, new["shell"], new["ovr"], new["resources"], new["optional"],
                         "A1\n" if edit_source else "A0\n")
    seed = r.randrange(1 << 30)
    kwargs = {"njob": r.randint(1, 3), "resources": "cpu:2"}
    with SimDirector(first, seed=seed) as sim:
        r1 = sim.build(**kwargs)
        edits = [("script", "./plan.py", last.scripts["./plan.py"], "plan.py")]
        if edit_source:
            edits.append(("write", "a.txt", "A1\n"))
        sim.apply(edits)
        r2 = sim.build(**kwargs)
    with SimDirector(last, seed=seed + 1) as sim:
        fresh = sim.build(**kwargs)
    case = {"inputs": inputs, "changed": prop, "from": base, "to": new, "edit_source": edit_source}
    found = []
    if not (r1.ok and r2.ok and fresh.ok):
        if fresh.ok and r1.ok:
            found.append(("incremental-build-fails", f"redefining {prop} of a step: {r2.status} {r2.returncode!r}", case))
        return found, case
    for sig, what, extra in compare(r2, fresh):
        if sig in ("stale-output", "succeeded-step-digest-differs") or sig.startswith("graph-differs:step.resource"):
            found.append((f"redefinition-not-noticed:{prop}",
                          f"a step redefined with only {prop} changed ({base} -> {new}; inputs: {inputs}) is recycled as "
                          f"up to date: {what}", {**case, **extra}))
        else:
            found.append((sig, what, {**case, **extra}))
    return found, case


# ---------------------------------------------------------------------------------------------
# Third family: trees of plans (nested and sibling sub-plans, dependencies across plans)
# ---------------------------------------------------------------------------------------------


def run_tree_case(ctx, index: int, *, salt="tree"):
    r = ctx.rng(salt, index)
    trees, events, mutations = buildkit.gen_tree_history(r)
    seed = r.randrange(1 << 30)
    case = {"mutations": mutations, "events": buildkit.describe_events(events),
            "plans": {p: info["parent"] for p, info in trees[0].plans.items()}}
    initial, final_project = trees[0].render(), trees[-1].render()
    found, summary = evaluate(initial, events, final_project, seed, {"njob": 2})
    case["compared"] = bool(summary.get("fresh_ok"))
    if any(not sig.startswith("out-of-scope:") for sig, _, _ in found):
        case["explicit"] = buildkit.pack_case(initial, events, final_project, seed, {"njob": 2})
    return [(sig, what, {**case, **extra}) for sig, what, extra in found], case


# ---------------------------------------------------------------------------------------------
# Fourth family: a consumer that reads first and amends afterwards, added to a project that was
# built before, in a rebuild with several jobs (the freshness guard of `amend_step` decides whether
# the consumer saw the final file; the scratch reference runs with one job)
# ---------------------------------------------------------------------------------------------


def gen_timing_project(rng, const: bool = False):
    """Like `buildkit.gen_amend_timing_project`, shaped so that the decisive interleaving (the
    consumer starts, the producer stops, a filler starts, another filler stops, the consumer amends)
    is frequent under a random schedule with five jobs: a quick producer, a slow consumer, 4-5 short
    fillers (measured: the pruning fault of seed C02-2 shows in 7-9 % of the builds)."""
    from simdirector import A, Project, plan_file

    nfill = rng.randint(4, 5)
    pn, cn = rng.randint(0, 2), rng.randint(4, 5)
    plan = [A.static("src/a.txt", "src/b.txt")]
    scripts = {}
    prod = f"make f -n{pn}"
    if const:
        # a tool that rewrites its output in place and ends with the same content whatever it read: a rerun
        # reproduces an identical file, and a reader in between sees the partial one
        scripts[prod] = [A.read_declared(), *[A.nop() for _ in range(pn)], A.write("out/f.txt", "partial\n"), A.nop(),
                         A.write("out/f.txt", "constant content\n")]
    else:
        scripts[prod] = [A.read_declared(), *[A.nop() for _ in range(pn)], A.write_declared()]
    cons = f"scan f -n{cn}"
    scripts[cons] = [A.read_declared(), A.read("out/f.txt", required=False), *[A.nop() for _ in range(cn)],
                     A.amend(inp=["out/f.txt"]), A.write_declared()]
    steps = [A.step(prod, inp=["src/a.txt"], out=["out/f.txt"]), A.step(cons, inp=["src/b.txt"], out=["out/scan.txt"])]
    for i in range(nfill):
        k = rng.randint(0, 3)
        label = f"fill {i} -n{k}"
        scripts[label] = [A.read_declared(), *[A.nop() for _ in range(k)], A.write_declared()]
        steps.append(A.step(label, inp=["src/a.txt"], out=[f"out/fill{i}.txt"]))
    rng.shuffle(steps)
    plan.extend(steps)
    scripts["./plan.py"] = plan
    project = Project(scripts=scripts, files={"src/a.txt": "a\n", "src/b.txt": "b\n", "plan.py": plan_file(plan)})
    return project, {"nfill": nfill, "producer": prod, "consumer": cons, "const": const,
                     "partial_gate": 2 + pn if const else -1}


class TimingSchedule:
    """Steers a build of `gen_timing_project` into the interleaving that makes the freshness guard
    of `amend_step` decisive: the consumer reads the old file; the producer completes; then filler X
    starts; then filler Y (started before) completes while the consumer and X still run; only then
    does the consumer amend.  A schedule can only choose among the gates that are waiting, so the
    plan is a preference: when only gates that should wait are waiting, the oldest is released."""

    def __init__(self, prod: str, cons: str, x: str, y: str, seed: int, partial_gate: int = -1):
        import random as _random

        self.prod, self.cons, self.x, self.y = prod, cons, x, y
        self.partial_gate = partial_gate  # the producer's gate whose release writes the partial file (-1: none)
        self.done: set = set()
        self.rng = _random.Random(seed)

    def _phase(self) -> int:
        d = self.done
        if self.partial_gate >= 0 and ("step", self.prod, self.partial_gate) not in d:
            return -1  # the producer has not written the partial file yet
        if ("step", self.cons, 2) not in d:
            return 0  # the consumer has not read the old file yet (gates: read_declared, its one input, the file)
        if ("exit", self.prod) not in d or ("shash2", self.prod) not in d:
            return 1  # the producer has not completed yet
        if ("step", self.x, 0) not in d:
            return 2  # X has not started yet
        if ("exit", self.y) not in d or ("shash2", self.y) not in d:
            return 3  # Y has not completed yet
        return 4

    def _rank(self, key, phase) -> int:
        kind, label, _a, idx = key
        if label == self.x and phase < 2:
            return 9  # X must not start before the producer has stopped
        if label == self.cons:
            if kind == "step" and idx >= 3 and phase < 4:
                return 8  # the consumer waits (between its read and its amend) for the others
            if kind == "step" and idx >= 2 and phase < 0:
                return 8  # ... and does not read before the partial file is there
            return 0 if phase in (0, 4) else 5
        if label == self.prod:
            if phase == -1:
                return 0
            if phase == 0:
                if kind == "step" and idx <= self.partial_gate:
                    return 2
                return 7 if kind in ("step", "exit") else 2  # the producer may start, not finish writing, before the read
            return 1 if phase == 1 else 5
        if label == self.y:
            if phase < 3 and kind == "exit":
                return 7  # Y keeps running until X has started
            return 1 if phase == 3 else 2
        if label == self.x:
            return 1 if phase == 2 else 6
        return 3

    def choose(self, keys):
        phase = self._phase()
        ranks = [self._rank(k, phase) for k in keys]
        best = min(ranks)
        i = ranks.index(best)
        kind, label, _a, idx = keys[i]
        if kind == "step":
            self.done.add(("step", label, idx))
        elif kind == "exit":
            self.done.add(("exit", label))
        elif kind == "shash" and idx >= 1:
            self.done.add(("shash2", label))
        return i


def run_timing_case(ctx, index: int, *, salt="timing"):
    import copy as _copy

    from simdirector import plan_file

    r = ctx.rng(salt, index)
    full, info = gen_timing_project(r, const=index % 4 == 2)
    cons = info["consumer"]
    plan = full.scripts["./plan.py"]
    # the project before the edit: without the consumer, and with the old source text
    before = _copy.deepcopy(full)
    plan0 = [a for a in plan if not (isinstance(a, (tuple, list)) and len(a) > 1 and isinstance(a[1], dict)
                                     and a[1].get("cmd") == cons)]
    if len(plan0) == len(plan):
        return [], {"compared": False, "info": info}
    before.scripts["./plan.py"] = plan0
    before.files["plan.py"] = plan_file(plan0)
    final = _copy.deepcopy(full)
    final.files["src/a.txt"] = "a, edited\n"
    fills = sorted(label for label in full.scripts if label.startswith("fill "))
    x, y = r.sample(fills, 2)
    directed = index % 2 == 0
    spec = ("directed", x, y) if directed else ("random", r.randrange(1 << 30))
    njob = 7 if directed else 5
    sched = (TimingSchedule(info["producer"], cons, x, y, r.randrange(1 << 30), info["partial_gate"]) if directed
             else buildkit.make_schedule(spec))
    events = [("build", {"njob": r.randint(1, 2)}), ("edits", projgen._edits_between(before, final)),
              ("build", {"njob": njob, "schedule": sched})]
    seed = r.randrange(1 << 30)
    found, summary = evaluate(before, events, final, seed, {"njob": 1})
    case = {"family": "amend-timing", "njob": njob, "schedule": list(spec), **info,
            "compared": bool(summary.get("fresh_ok"))}
    return [(sig, what, {**case, **extra}) for sig, what, extra in found], case


# ---------------------------------------------------------------------------------------------
# Fifth family: a static input is edited while the sub-plan that declares it is detached (its plan
# step dropped in a build that fails, so that the cleanup is skipped), then the sub-plan comes back
# ---------------------------------------------------------------------------------------------


def run_detached_edit_case(ctx, index: int, *, salt="detached-edit"):
    from simdirector import A, Project, plan_file

    r = ctx.rng(salt, index)
    what = ("file", "file", "env", "glob")[(index // 2) % 4]
    watch = index % 2 == 1 and what != "env"  # a running director does not see a changed environment
    ncons = r.randint(1, 2)
    env = {}
    scripts = {}
    if what == "file":
        sub = [A.static("sub/in.txt")] + [A.step(f"copy {i}", inp=["sub/in.txt"], out=[f"sub/out{i}.txt"])
                                          for i in range(ncons)]
        edit = r.choice([("write", "sub/in.txt", "new\n"), ("write", "sub/in.txt", "new\n"), ("remove", "sub/in.txt")])
    elif what == "env":
        sub = [A.static("sub/in.txt")] + [A.step(f"copy {i}", inp=["sub/in.txt"], out=[f"sub/out{i}.txt"], env=["C01_MODE"])
                                          for i in range(ncons)]
        for i in range(ncons):
            scripts[f"copy {i}"] = [A.read_declared(), A.write_declared()]
        env = {"C01_MODE": "a"}
        edit = ("setenv", "C01_MODE", "b")
    else:
        sub = [A.foreach("sub/${*n}.txt", [A.step("bak ${n}", inp=["${path}"], out=["out/${n}.bak"])], static=True)]
        edit = ("write", "sub/b.txt", "b\n")
    plan1 = [A.static("sub.py"), A.step("./sub.py", inp=["sub.py"], plan=True)]
    plan2 = [A.step("boom", out=["boom.txt"])]  # the sub-plan is gone and the build fails: no cleanup
    scripts.update({"./plan.py": plan1, "./sub.py": sub, "boom": [A.exit(1)]})
    files = {"plan.py": plan_file(plan1), "sub.py": plan_file(sub), "sub/in.txt": "old\n"}
    if what == "glob":
        del files["sub/in.txt"]
        files["sub/a.txt"] = "a\n"
    initial = Project(scripts=dict(scripts), files=dict(files), env=dict(env))
    final_files, final_env = dict(files), dict(env)
    if edit[0] == "write":
        final_files[edit[1]] = edit[2]
    elif edit[0] == "remove":
        del final_files[edit[1]]
    else:
        final_env[edit[1]] = edit[2]
    final = Project(scripts=dict(scripts), files=final_files, env=final_env)
    drop = [("script", "./plan.py", plan2, ""), ("write", "plan.py", plan_file(plan2))]
    back = [("script", "./plan.py", plan1, ""), ("write", "plan.py", plan_file(plan1))]
    first = {"njob": 1, "watch": True} if watch else {"njob": 1}
    events = [("build", first), ("edits", drop)]
    if not watch:
        events.append(("build", {"njob": 1}))
    if r.random() < 0.5 or watch:
        events += [("edits", [edit]), ("edits", back)] if watch else [("edits", [edit] + back)]
    else:
        events += [("edits", [edit]), ("build", {"njob": 1}), ("edits", back)]  # one more failing build in between
    events.append(("shutdown",) if watch else ("build", {"njob": 1}))
    seed = r.randrange(1 << 30)
    found, summary = evaluate(initial, events, final, seed, {"njob": 1})
    mode = "watch" if watch else "restart"
    case = {"family": "detached-edit", "what": what, "mode": mode, "edit": list(edit[:2]), "consumers": ncons,
            "compared": bool(summary.get("fresh_ok")) or edit[0] == "remove"}
    kind = {"file": "static-input-edited", "env": "environment-changed", "glob": "glob-match-added"}[what]
    out = []
    for sig, what_, extra in found:
        if not sig.startswith(("out-of-scope:", "director-")):
            sig = f"{sig.split(':')[0]}:{kind}-while-detached:{mode}"
        out.append((sig, what_, {**case, **extra, "events": buildkit.describe_events(events)}))
    return out, case


def run_dropped_producer_case():
    """The sub-plan that produces an input of a step of the parent plan is dropped; the consumer stays."""
    from simdirector import A, Project, plan_file

    sub = [A.step("make", out=["sub/x.txt"])]
    use = A.step("use", inp=["sub/x.txt"], out=["z.txt"])
    plan1 = [A.static("sub.py"), A.step("./sub.py", inp=["sub.py"], plan=True), use]
    plan2 = [use]
    scripts = {"./plan.py": plan1, "./sub.py": sub, "make": [A.write("sub/x.txt", "hello\n")]}
    files = {"plan.py": plan_file(plan1), "sub.py": plan_file(sub)}
    initial = Project(scripts=dict(scripts), files=dict(files))
    final = Project(scripts={**scripts, "./plan.py": plan2}, files={**files, "plan.py": plan_file(plan2)})
    events = [("build", {"njob": 1}), ("edits", [("script", "./plan.py", plan2, ""), ("write", "plan.py", plan_file(plan2))]),
              ("build", {"njob": 1})]
    found, summary = evaluate(initial, events, final, 1, {"njob": 1})
    return found, {"family": "dropped-producer", "events": buildkit.describe_events(events)}


def report(ctx, index, salt, found, hist):
    for sig, what, extra in found:
        if sig.startswith("out-of-scope:"):
            ctx.stats.count(sig)
            continue
        ctx.stats.count("finding:" + sig)
        ctx.finding(Finding(PID, sig, what, {
            "case": {"verif_seed": ctx.seed, "salt": salt, "index": index},
            "mutations": hist.mutations,
            "events": buildkit.describe_events(hist.events),
            **extra,
            "explicit": getattr(hist, "explicit", None),
            "how": "props/c01.py run_case(ctx, index): projgen model + buildkit.gen_hist from ctx.rng(salt, index); "
                   "the incremental history is compared with projgen.fresh_build(render(final model)); `explicit` "
                   "holds the initial project, the events and the final project for props.c01.evaluate",
        }))


WALL_LIMIT = {"quick": 240, "thorough": 1500}


async def search(ctx):
    import time

    t0 = time.time()
    broken_runs = 0
    n = ctx.budget(160, 2200)
    st = ctx.stats
    for i in range(n):
        found, summary, hist = await asyncio.to_thread(run_case, ctx, i)
        broken_runs += sum(1 for sig, _, _ in found if sig.startswith("director-"))
        if broken_runs >= 3 or time.time() - t0 > WALL_LIMIT[ctx.tier]:
            # a director that hangs or dies costs a watchdog period per case: the violation is
            # recorded, there is no point in paying for it hundreds of times
            st.count("search-stopped-early-after-cases", i + 1)
            stop = True
        else:
            stop = False
        st.case(("hist", tuple(hist.mutations), summary["watch"]), nontrivial=summary["commands"] > summary["nbuild"])
        st.programs += 1
        st.count("histories")
        st.count("build-phases", summary["nbuild"])
        st.count("commands-executed", summary["commands"])
        st.count("watch-histories" if summary["watch"] else "restart-histories")
        for m in hist.mutations:
            for kind in m.split("+"):
                st.count("mutation:" + kind)
        if summary.get("skipped"):
            st.count("skipped:" + summary["skipped"])
        elif not summary.get("fresh_ok", True):
            st.count("skipped:neither build successful")
        else:
            st.count("compared")
        if i < 3:
            st.sample({"history": buildkit.describe_events(hist.events)[:4], "mutations": hist.mutations,
                       "summary": summary})
        report(ctx, i, "hist", found, hist)
        if stop:
            break
    for i in range(ctx.budget(80, 900)):
        found, case = await asyncio.to_thread(run_tree_case, ctx, i)
        st.case(("tree", tuple(case["mutations"]), tuple(sorted(case["plans"].items(), key=str))),
                nontrivial=bool(case.get("compared")))
        st.programs += 1
        st.count("plan-tree-histories")
        for m in case["mutations"]:
            st.count("tree-mutation:" + m.split(":")[0])
        if not case.get("compared"):
            st.count("plan-tree-histories-not-compared")
        for sig, what, extra in found:
            if sig.startswith("out-of-scope:"):
                st.count(sig)
                continue
            st.count("finding:" + sig)
            ctx.finding(Finding(PID, sig, what, {
                "case": {"verif_seed": ctx.seed, "salt": "tree", "index": i}, **extra,
                "how": "props/c01.py run_tree_case(ctx, index): buildkit.gen_tree_history (nested and sibling "
                       "plans), compared with a build from scratch of the final tree"}))
    for i in range(ctx.budget(40, 800)):
        found, case = await asyncio.to_thread(run_timing_case, ctx, i)
        st.case(("timing", case.get("njob"), case.get("producer"), case.get("consumer"), case.get("nfill")),
                nontrivial=bool(case.get("compared")))
        st.programs += 1
        st.count("amend-timing-histories")
        if not case.get("compared"):
            st.count("amend-timing-histories-not-compared")
        for sig, what, extra in found:
            if sig.startswith("out-of-scope:"):
                st.count(sig)
                continue
            st.count("finding:" + sig)
            ctx.finding(Finding(PID, sig, what, {
                "case": {"verif_seed": ctx.seed, "salt": "timing", "index": i}, **extra,
                "how": "props/c01.py run_timing_case(ctx, index): a producer/consumer project built without the "
                       "consumer, then the source is edited and the consumer (reads first, amends afterwards) is added; "
                       "rebuild with 3-5 jobs under a random schedule; compared with a one-job build from scratch"}))
    for i in range(ctx.budget(16, 120)):
        found, case = await asyncio.to_thread(run_detached_edit_case, ctx, i)
        st.case(("detached-edit", case["what"], case["mode"], tuple(case["edit"]), case["consumers"]), nontrivial=True)
        st.programs += 1
        st.count(f"detached-edit-histories:{case['what']}:{case['mode']}")
        for sig, what, extra in found:
            if sig.startswith("out-of-scope:"):
                st.count(sig)
                continue
            st.count("finding:" + sig)
            ctx.finding(Finding(PID, sig, what, {
                "case": {"verif_seed": ctx.seed, "salt": "detached-edit", "index": i}, **extra,
                "how": "props/c01.py run_detached_edit_case(ctx, index): a sub-plan that declares a static input is "
                       "dropped in a build that fails (no cleanup), the input is edited, the sub-plan is added back; "
                       "compared with a build from scratch of the final sources"}))
    found, case = await asyncio.to_thread(run_dropped_producer_case)
    st.programs += 1
    st.count("dropped-producer-scenario")
    for sig, what, extra in found:
        if sig.startswith("out-of-scope:"):
            continue
        st.count("finding:" + sig)
        ctx.finding(Finding(PID, sig, what, {**case, **extra, "how": "props/c01.py run_dropped_producer_case(); "
                                                                   "harness/repro/c01_consumer_of_dropped_producer.py"}))
    for i in range(ctx.budget(20, 250)):
        found, case = await asyncio.to_thread(run_redef_case, ctx, i)
        st.case(("redef", tuple(sorted((k, str(v)) for k, v in case.items()))))
        st.programs += 1
        st.count(f"redefinition:{case['changed']}:inputs-{case['inputs']}")
        for sig, what, extra in found:
            if sig.startswith("out-of-scope:"):
                st.count(sig)
                continue
            st.count("finding:" + sig)
            ctx.finding(Finding(PID, sig, what, {
                "case": {"verif_seed": ctx.seed, "salt": "redef", "index": i}, **extra,
                "how": "props/c01.py run_redef_case(ctx, index): build, redefine one property of `tgt -e`, build, "
                       "compare with a build from scratch of the final project"}))
    if not st.rule:
        st.rule = ("a case is one history: a projgen project (2-8 steps, static files, a static tree, a glob family, "
                   "sub-plan, optional steps, amended inputs/outputs, env vars, resources) followed by 1-4 phases of 1-2 "
                   "mutations each (15 projgen kinds, drop/re-add of the sub-plan 12 %, disappearing source + repair "
                   "12 %), 30 % run by one watch-mode director, the rest by restarts; non-trivial = some phase executed "
                   "a command besides the plan; distinct = distinct (mutation sequence, mode)")


# ---------------------------------------------------------------------------------------------
# Correspondence
# ---------------------------------------------------------------------------------------------


async def correspond(ctx):
    await kcorr.run(ctx, SCOPES)
    import skipcorr

    await skipcorr.run(ctx)


async def replay(ctx, detail):
    d = detail.get("detail", detail)
    case = d.get("case", {})
    os.environ["VERIF_SEED"] = str(case.get("verif_seed", 0))
    ctx.seed = int(case.get("verif_seed", 0))
    sig = detail.get("signature", "")
    if d.get("explicit"):
        initial, events, final_project, seed, fresh_kwargs = buildkit.unpack_case(d["explicit"])
        found, summary = await asyncio.to_thread(evaluate, initial, events, final_project, seed, fresh_kwargs,
                                                 d["explicit"].get("reverted_env", ()))
        return {"reproduced": any(s == sig for s, _, _ in found), "signature": sig, "replayed_from": "explicit data",
                "found": [[s, w] for s, w, _ in found], "summary": summary}
    if case.get("salt") == "redef":
        found, summary = await asyncio.to_thread(run_redef_case, ctx, int(case.get("index", 0)))
    elif case.get("salt") == "tree":
        found, summary = await asyncio.to_thread(run_tree_case, ctx, int(case.get("index", 0)))
    elif case.get("salt") == "detached-edit":
        found, summary = await asyncio.to_thread(run_detached_edit_case, ctx, int(case.get("index", 0)))
    elif case.get("salt") == "timing":
        found, summary = await asyncio.to_thread(run_timing_case, ctx, int(case.get("index", 0)))
    else:
        found, summary, hist = await asyncio.to_thread(run_case, ctx, int(case.get("index", 0)),
                                                       salt=case.get("salt", "hist"))
    return {"reproduced": any(s == sig for s, _, _ in found), "signature": sig,
            "found": [[s, w] for s, w, _ in found], "summary": summary}
