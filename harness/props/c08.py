"""C08: every path has one owner and conflicts are rejected in either order.

Correspondence: kernel declarations scope (and what feeds it).  Oracles on the implementation:
(1) after every request of the generated sequences the ownership invariants hold on the real
database (one claim per path with a role and a creator, trees own what is beneath them and are
not nested, no attached glob matches a product, one boot step); (2) pairs of declarations by one
or two creators are applied in both orders on fresh workflows: the pair is rejected in one order
iff it is rejected in the other, with the same message text, and a repeated declaration by the
same creator in the same role is a no-op.
"""

from __future__ import annotations

import implkit
import kcorr
import kdump
import koracles
from common import Finding
from implkit import Need, Step

from stepup.core.exceptions import GraphError
from stepup.core.nglob import NamedGlob

PID = "C08"
LEVEL = "proof"
ASSUMPTIONS = [
    "message texts are compared on the implementation only (the model carries error kinds, not texts)",
    "path spelling: the director receives normalized root-relative paths (C20); the byte-exact prefix test is C18",
]
SCOPES = {"declarations", "completion", "cleanup"}


class Observer:
    def __init__(self, ctx, run):
        self.ctx = ctx
        self.attached: set[tuple[str, str]] = set()
        self.by_recycle: set[str] = set()

    def __call__(self, run, op, line, ans):
        legal = run.legal[-1]
        if not legal and ans.startswith("ok"):
            run.tainted = True
        if getattr(run, "tainted", False):
            return
        sn = koracles.Snapshot(run.wf)
        self.ctx.stats.count("oracle-states-checked")
        if op == "define" and ans.startswith("ok"):
            self.ctx.stats.count("oracle-definitions-checked")
            for b in koracles.declaration_recorded(sn, line):
                if b.startswith("C08"):
                    self.ctx.finding(Finding(PID, "declaration-not-recorded:" + ("role" if "recorded as" in b else "owner"),
                                             f"after '{kcorr.decode_line(line)[:100]}': {b}",
                                             {"violation": b, "requests": [kcorr.decode_line(x) for x in run.lines][-15:],
                                              "protocol_lines": list(run.lines)}))
        before = self.attached
        self.attached = {(n[0], n[1]) for n in sn.nodes.values() if not n[3]}
        came_back = self.attached - before if op == "define" else set()
        for b in koracles.ownership_invariants(sn)[:2]:
            words = b.split(" ")
            sig = "ownership-glob-matches-product" if words[1] == "glob" else "ownership-" + "-".join(words[1:4])
            # A full recycle (`define` of a detached step with unchanged arguments) brings the whole
            # product subtree of that step back without validating it against what was declared while
            # it was detached (known finding F21): a static tree, or a file beneath a tree declared in
            # the meantime, or a tree nested in another.
            involved = []
            if words[1:4] == ["file", "under", "static"]:
                involved = [("st", words[5]), ("file", words[-1])]
            elif words[1:4] == ["nested", "static", "trees:"]:
                involved = [("st", words[4]), ("st", words[-1])]
            if involved:
                key = "|".join(x[1] for x in involved)
                back = [x for x in involved if x in came_back]
                if back or key in self.by_recycle:
                    self.by_recycle.add(key)
                    kind = "tree" if not back or back[0][0] == "st" else "file"
                    sig = sig.rstrip(":") + f":{kind}-reattached-by-recycle"
            self.ctx.finding(Finding(PID, sig[:80], f"after '{kcorr.decode_line(line)[:100]}': {b}",
                                     {"violation": b, "requests": [kcorr.decode_line(x) for x in run.lines][-15:],
                                      "protocol_lines": list(run.lines)}))


async def correspond(ctx):
    await kcorr.run(ctx, SCOPES, observers=[Observer], salt="c08", exotic_share=0.3)


PATHS = ["d/a.txt", "d/b.txt", "d", "d/sub/c.txt", "e.txt", "D/a.txt", "d0", "d.txt", "d/sub", "a_b/f.txt", "axb/f.txt",
         "100%/g.txt", "100-percent/g.txt"]
TREES = ["d", "d/sub", "D", "d/", "a_b", "axb", "100%"]
GLOBS = ["d/*.txt", "*.txt", "d/*", "d/sub/*"]
# named wildcards with a sub-pattern wider than `*`: what the pattern matches depends on the substitution
GLOBS_SUBS = [("d/${*n}.txt", {"n": "**"}), ("${*top}/a.txt", {"top": "[dD]"}), ("d/${*n}", {"n": "**"})]


def gen_decl(r):
    k = r.random()
    if k < 0.3:
        return ("static", tuple(sorted(r.sample(PATHS, r.choice([1, 1, 2])))))
    if k < 0.45:
        return ("tree", r.choice(TREES))
    if k < 0.8:
        return ("step", r.choice(["c1", "c2"]), tuple(r.sample(PATHS, r.choice([0, 0, 1]))),
                tuple(r.sample(PATHS, r.choice([0, 1, 1, 2]))), tuple(r.sample(PATHS, r.choice([0, 0, 1]))))
    if k < 0.9:
        if r.random() < 0.35:
            pat, subs = r.choice(GLOBS_SUBS)
            ng = NamedGlob(pat, subs)
            ng.extend(PATHS)
            # (the client's scan found every match, as for the plain patterns: a scan that found nothing is the
            # known finding F15, which has its own witness)
            return ("glob", pat, tuple(sorted(str(p) for p in ng.files())), tuple(sorted(subs.items())))
        pat = r.choice(GLOBS)
        ng = NamedGlob(pat)
        ng.extend(PATHS)
        return ("glob", pat, tuple(sorted(str(p) for p in ng.files())))
    return ("amend", tuple(r.sample(PATHS, r.choice([0, 1]))), tuple(r.sample(PATHS, r.choice([0, 1]))),
            tuple(r.sample(PATHS, r.choice([0, 0, 1]))))


def apply_decl(wf, creator, decl):
    kind = decl[0]
    if kind == "static":
        return wf.declare_static_files(creator, list(decl[1]))
    if kind == "tree":
        return wf.register_static_tree(creator, decl[1])
    if kind == "step":
        return wf.define_step(creator, decl[1], inp_paths=list(decl[2]), out_paths=list(decl[3]), vol_paths=list(decl[4]))
    if kind == "glob":
        ng = NamedGlob(decl[1], dict(decl[3])) if len(decl) > 3 else NamedGlob(decl[1])
        ng.extend(decl[2])
        return wf.register_nglob(creator, ng)
    if kind == "amend":
        return wf.amend_step(creator, inp_paths=list(decl[1]), out_paths=list(decl[2]), vol_paths=list(decl[3]),
                             ran_concurrently=lambda a, b: False)
    raise ValueError(kind)


async def run_order(decls_with_creators):
    """Apply the declarations in the given order on a fresh workflow; each in its own transaction.
    Returns the list of outcomes ('ok' or the GraphError text / other error class) and the dump."""
    outcomes = []
    async with implkit.workflow() as wf:
        async with wf.db:
            wf.define_step(wf.root, "boot", need=Need.PLAN)
            boot = wf.find(Step, "boot")
            wf.define_step(boot, "S1", need=Need.PLAN)
            wf.define_step(boot, "S2", need=Need.PLAN)
        for cname, decl in decls_with_creators:
            try:
                async with wf.db:
                    apply_decl(wf, wf.find(Step, cname), decl)
                outcomes.append("ok")
            except GraphError as exc:
                outcomes.append("GraphError: " + str(exc))
            except Exception as exc:
                outcomes.append(f"{type(exc).__name__}: {exc}")
        async with wf.db:
            dump = kdump.dump_lines(wf)
    return outcomes, dump


def template(msg: str) -> str:
    """The message with every quoted path, label and pattern replaced by a placeholder."""
    import re

    msg = re.sub(r"\([^()]*\)", "(*)", msg)
    msg = re.sub(r": [^:]*$", ": *", msg)
    return msg


def named_paths(msg: str) -> set:
    """The generator's paths that a message names."""
    import re

    known = set(PATHS) | {t.rstrip("/") + "/" for t in TREES}
    named = set(re.findall(r"\(([^()]*)\)", msg))
    tail = re.search(r": ([^:]*)$", msg)
    if tail:
        named.add(tail.group(1).strip())
    return {x for x in named if x in known}


def message_class(m1: str, m2: str) -> str:
    t1, t2 = sorted([template(m1), template(m2)])
    if t1 == t2:
        return "same-sentence-names-different-path"
    p1, p2 = named_paths(m1), named_paths(m2)
    if p1 and p2 and not (p1 & p2):
        # the pair has two independent conflicts (on different paths); each order reports the one
        # its own request meets first
        return "different-conflict-of-the-pair-reported"
    if "volatile" in t1 and "volatile" in t2 and "nput" in t1 and "nput" in t2:
        return "input-versus-volatile-wording"
    if "subdirectory of an existing static tree" in t1 + t2 and "parent directory of an existing static tree" in t1 + t2:
        return "nested-trees-wording"
    import hashlib

    return "other-" + hashlib.sha1((t1 + "|" + t2).encode()).hexdigest()[:8]


async def search(ctx):
    import corr_kernel as _ck

    await _ck.run_scenarios(ctx, lambda ctx, run_: Observer(ctx, run_), ["rerole", "nested_chain", "rerole_same_step"])
    await recycle_scenarios(ctx)
    await spelled_glob_scenarios(ctx)
    r = ctx.rng("pairs")
    n = ctx.budget(500, 12000)
    st = ctx.stats
    # directed pairs first: a tree next to a path that only LOOKS as if it were beneath it (a name that
    # differs in case, extends the tree's name, or differs exactly at a LIKE wildcard of the tree's name)
    directed = []
    for tree, path in (("a_b", "axb/f.txt"), ("100%", "100-percent/g.txt"), ("d", "D/a.txt"), ("d", "d0"), ("d", "d.txt"),
                       ("D", "d/a.txt"), ("a_b", "a_b/f.txt"), ("d", "d/a.txt")):
        for other in (("static", (path,)), ("step", "c1", (), (path,), ()), ("step", "c1", (), (), (path,)),
                      ("step", "c1", (path,), (), ())):
            for ca, cb in (("S1", "S2"), ("S1", "S1")):
                directed.append((("tree", tree), other, ca, cb))
    # a pattern with a substituted named wildcard next to a product it matches only thanks to the substitution
    for pat, subs in GLOBS_SUBS:
        ng = NamedGlob(pat, subs)
        ng.extend(PATHS)
        plain = NamedGlob(pat)
        plain.extend(PATHS)
        only_by_subs = sorted({str(p) for p in ng.files()} - {str(p) for p in plain.files()})
        gdecl = ("glob", pat, tuple(sorted(str(p) for p in ng.files())), tuple(sorted(subs.items())))
        for path in only_by_subs[:3]:
            for other in (("step", "c1", (), (path,), ()), ("step", "c1", (), (), (path,)), ("amend", (), (path,), ())):
                for ca, cb in (("S1", "S2"), ("S1", "S1")):
                    directed.append((gdecl, other, ca, cb))
    for i in range(n + len(directed)):
        if i < len(directed):
            a, b, ca, cb = directed[i]
        else:
            a, b = gen_decl(r), gen_decl(r)
            ca = r.choice(["S1", "S2"])
            cb = r.choice(["S1", "S2"])
        if a[0] == "step" and b[0] == "step" and a[1] == b[1] and (a[2:] != b[2:]):
            continue  # the same command with different lists is a redefinition, not a pair of declarations
        ab, dump_ab = await run_order([(ca, a), (cb, b)])
        ba, dump_ba = await run_order([(cb, b), (ca, a)])
        st.count("pair:" + a[0] + "+" + b[0])
        key = (ca, a, cb, b)
        rejected_ab = ab[0] == "ok" and ab[1] != "ok"
        rejected_ba = ba[0] == "ok" and ba[1] != "ok"
        st.case(("pair", key), rejected_ab or rejected_ba)
        detail = {"A": {"creator": ca, "decl": a}, "B": {"creator": cb, "decl": b}, "A_then_B": ab, "B_then_A": ba}
        kinds = "+".join(sorted([a[0], b[0]]))
        if ab[0] != "ok" or ba[0] != "ok":
            continue  # one of the two is invalid on its own
        if rejected_ab != rejected_ba:
            ctx.finding(Finding(PID, f"order-dependent-rejection:{kinds}",
                                f"{a} by {ca} and {b} by {cb}: second declaration "
                                f"{'rejected' if rejected_ab else 'accepted'} in one order and "
                                f"{'rejected' if rejected_ba else 'accepted'} in the other", detail))
        elif rejected_ab and ab[1] != ba[1]:
            ctx.finding(Finding(PID, "order-dependent-message:" + message_class(ab[1], ba[1]),
                                "the conflict is reported with different texts in the two orders", detail))
        elif not rejected_ab and dump_ab != dump_ba:
            diff = sorted(set(dump_ab) ^ set(dump_ba))
            # the flag columns may differ by order; ownership (creator) and states may not
            import re

            def strip(l):
                return re.sub(r" (csafe|cafter|cready|ready|safe|snh|tail|ineed)=\S+", "", l)

            if sorted(map(strip, dump_ab)) != sorted(map(strip, dump_ba)):
                ctx.finding(Finding(PID, f"order-dependent-graph:{kinds}",
                                    "both orders are accepted but leave different graphs",
                                    {**detail, "differing_rows": [kcorr.decode_line(x) for x in diff][:8]}))
        # repetition by the same creator is a no-op
        if a[0] in ("static", "tree") and i % 4 == 0:
            once, d1 = await run_order([(ca, a)])
            twice, d2 = await run_order([(ca, a), (ca, a)])
            if once == ["ok"] and (twice != ["ok", "ok"] or d1 != d2):
                ctx.finding(Finding(PID, f"repeat-not-noop:{a[0]}", f"repeating {a} by {ca} is not a no-op",
                                    {"decl": a, "outcomes": twice}))


async def spelled_glob_scenarios(ctx):
    """The rule 'a glob pattern never matches a path that a step builds', through the client API: the pattern
    and matches that the real `glob()` / `static()` send for any SPELLING of a pattern (`./*.txt`, `sub/../*.txt`,
    from a working directory below the root) are given to the real Workflow next to a step that builds a file
    the pattern matches on disk; the pair must be rejected in both orders."""
    import os
    import tempfile
    import shutil

    from stepup.core import api

    r = ctx.rng("spelled-glob")
    base = os.path.realpath(tempfile.mkdtemp(prefix="verif-c08g-"))
    old_cwd = os.getcwd()
    keys = ("STEPUP_ROOT", "HERE", "ROOT", "STEPUP_JOB_I", "STEPUP_DIRECTOR_SOCKET")
    old_env = {k: os.environ.get(k) for k in keys}
    old_client = api._get_cached_rpc_client
    try:
        for d in ("", "sub", "sub/deep"):
            os.makedirs(os.path.join(base, d), exist_ok=True)
            for f in ("a.txt", "b.txt"):
                with open(os.path.join(base, d, f), "w") as fh:
                    fh.write("x")
        # (cwd of the step relative to the root, pattern as spelled there, the output it matches, root-relative)
        spellings = [("", "*.txt", "a.txt"), ("", "./*.txt", "a.txt"), ("", "sub/../*.txt", "a.txt"),
                     ("", "./sub/*.txt", "sub/a.txt"), ("sub", "./*.txt", "sub/a.txt"), ("sub", "../*.txt", "a.txt"),
                     ("sub", "./../*.txt", "a.txt"), ("sub", "./deep/*.txt", "sub/deep/a.txt"),
                     ("sub/deep", "./../*.txt", "sub/a.txt"), ("", "./sub/${*name}.txt", "sub/b.txt"),
                     ("", ".//*.txt", "a.txt"), ("", "././*.txt", "a.txt")]
        for cwd_rel, pattern, out in spellings:
            for fn in ("glob", "static"):
                client = _capture_client()
                os.chdir(os.path.join(base, cwd_rel))
                for k in keys:
                    os.environ.pop(k, None)
                os.environ["STEPUP_JOB_I"] = "0"
                os.environ["STEPUP_ROOT"] = base
                os.environ["HERE"] = cwd_rel or "."
                api._get_cached_rpc_client = lambda client=client: client
                try:
                    if fn == "glob":
                        api.glob(pattern)
                        call = [c for c in client.calls if c[0] == "register_glob"][-1]
                        sent = [(str(call[1][1]), [str(x) for x in call[1][3]])]
                    else:
                        api.static(pattern)
                        call = [c for c in client.calls if c[0] == "declare_static"][-1]
                        sent = [(str(pt), [str(x) for x in ms]) for pt, ms in call[1][3]]
                except Exception as exc:  # noqa: BLE001
                    ctx.stats.count(f"spelled-glob:{fn}:raises-{type(exc).__name__}")
                    continue
                finally:
                    os.chdir(old_cwd)
                for sent_pattern, sent_matches in sent:
                    outcomes = {}
                    for order in ("glob-then-step", "step-then-glob"):
                        async with implkit.workflow() as wf:
                            async with wf.db:
                                wf.define_step(wf.root, "boot", need=Need.PLAN)
                            res = []
                            for what in order.split("-then-"):
                                try:
                                    async with wf.db:
                                        boot = wf.find(Step, "boot")
                                        if what == "glob":
                                            ng = NamedGlob(sent_pattern)
                                            ng.extend(sent_matches)
                                            wf.register_nglob(boot, ng)
                                        else:
                                            wf.define_step(boot, "work", out_paths=[out])
                                    res.append("ok")
                                except GraphError as exc:
                                    res.append("GraphError: " + str(exc)[:80])
                            outcomes[order] = res
                    ctx.stats.count(f"spelled-glob:{fn}")
                    ctx.stats.case(("spelled-glob", fn, cwd_rel, pattern))
                    accepted = [o for o, res in outcomes.items() if res == ["ok", "ok"]]
                    if accepted:
                        ctx.finding(Finding(PID, "ownership-glob-matches-product:spelled-pattern",
                                            f"{fn}({pattern!r}) called in {cwd_rel or '.'!r} is sent to the director as "
                                            f"{sent_pattern!r} with matches {sent_matches}; next to a step that builds "
                                            f"{out!r} it is accepted ({', '.join(accepted)})",
                                            {"cwd": cwd_rel, "function": fn, "pattern": pattern, "sent_pattern": sent_pattern,
                                             "sent_matches": sent_matches, "output": out, "outcomes": outcomes}))
    finally:
        api._get_cached_rpc_client = old_client
        os.chdir(old_cwd)
        for k, v in old_env.items():
            if v is None:
                os.environ.pop(k, None)
            else:
                os.environ[k] = v
        shutil.rmtree(base, ignore_errors=True)


def _capture_client():
    import attrs
    from stepup.core.rpc import DummySyncRPCClient

    @attrs.define
    class Capture(DummySyncRPCClient):
        calls: list = attrs.field(factory=list)

        def __call__(self, name, /, *args, _rpc_timeout=None, **kwargs):
            self.calls.append((name, args, kwargs))
            return None

    return Capture()


async def recycle_scenarios(ctx):
    """A step that is re-declared unchanged after its plan reran is subject to the same checks
    as a fresh declaration: a glob registered in between that matches its output rejects it."""
    from stepup.core.enums import StepState

    r = ctx.rng("recycle")
    for i in range(ctx.budget(40, 600)):
        out = r.choice(["d/a.txt", "e.txt", "d/sub/c.txt"])
        pats = [p for p in GLOBS if NamedGlob(p)._match_values(out) is not None]
        if not pats:
            continue
        pat = r.choice(pats)
        on_disk = r.random() < 0.5
        outcomes = {}
        for variant in ("fresh", "recycled"):
            async with implkit.workflow() as wf:
                async with wf.db:
                    wf.define_step(wf.root, "boot", need=Need.PLAN)
                    boot = wf.find(Step, "boot")
                    if variant == "recycled":
                        wf.define_step(boot, "work", out_paths=[out])
                        boot.set_state(StepState.RUNNING)
                        boot.reset_for_rerun()  # the plan runs again: its steps are detached
                    ng = NamedGlob(pat)
                    ng.extend([out] if on_disk else [])
                    wf.register_nglob(boot, ng)
                try:
                    async with wf.db:
                        wf.define_step(wf.find(Step, "boot"), "work", out_paths=[out])
                    outcomes[variant] = "ok"
                except GraphError as exc:
                    outcomes[variant] = "GraphError: " + str(exc)
        ctx.stats.case(("recycle", out, pat, on_disk))
        if (outcomes["fresh"] == "ok") != (outcomes["recycled"] == "ok"):
            ctx.finding(Finding(PID, "recycle-skips-declaration-check",
                                f"declaring step 'work' with output {out} after glob({pat}) is "
                                f"{outcomes['fresh'][:40]!r} for a fresh step and {outcomes['recycled'][:40]!r} when the "
                                "step is recycled", {"output": out, "pattern": pat, "match_recorded": on_disk,
                                                     "outcomes": outcomes}))


async def replay(ctx, detail):
    d = detail.get("detail", {})
    sig = detail.get("signature", "")
    if "A" in d and "B" in d:
        def tup(x):
            return tuple(tup(y) if isinstance(y, list) else y for y in x)
        a, b = tup(d["A"]["decl"]), tup(d["B"]["decl"])
        ab, _ = await run_order([(d["A"]["creator"], a), (d["B"]["creator"], b)])
        ba, _ = await run_order([(d["B"]["creator"], b), (d["A"]["creator"], a)])
        return {"reproduced": (ab[1] != "ok") != (ba[1] != "ok") or ab[1:] != ba[1:], "A_then_B": ab, "B_then_A": ba}
    await search(ctx)
    return {"reproduced": any(f.signature == sig for f in ctx.findings), "signature": sig}
