"""C02: the result of a build does not depend on scheduling.

Correspondence: kernel scope declarations (the theorems of `Props/C02.lean` are about
`normPaths`, `checkDeclaration`, `declareStaticFiles`, `existingClaim`), plus the model of
`sorted(set(paths))` against the normalisation the real requests apply (`Workflow.define_step`,
`declare_static_files`, `amend_step` called with permuted and duplicated path lists must leave the
same database).

Oracle (on the real director code through `simdirector`), two families of projects, each built
from an empty database under 4 configurations (1-4 jobs, FIFO / LIFO / random dispatch and
completion order, resource limits as configured or larger):
 (a) projgen projects (valid, and with a conflict, a cycle, a missing input, failing commands);
 (b) racing projects: 2-3 plan steps that run concurrently and declare static files, static trees
     (two of them in one request), glob patterns and steps referring to each other's files,
     optionally with one pair of mutually exclusive declarations placed in two different plans;
 (c) amend timing: a consumer that reads a producer's output first and amends it afterwards, next
     to unrelated steps of different lengths, under 1 and 3-5 jobs (6 configurations).
Compared: the return-code class under all configurations; for successful builds the canonical
graph text (digests included) and all file bytes; the set of rejected-request texts; and the graph
after resuming the first configuration's database unchanged under another configuration.
"""

from __future__ import annotations

import asyncio
import copy
import os

import buildkit
import kcorr
import projgen
from common import Finding
from simdirector import SimDirector

PID = "C02"
LEVEL = "proof"
ASSUMPTIONS = [
    "schedule_confluence for whole builds is decided by the oracle on simulated builds under 4 configurations per "
    "project; the theorems are about the normalisation of path lists, the symmetry of the claim check and the "
    "commutation of two static declarations of different creators on the kernel model",
    "resource limits are varied upwards only: a step whose resources can never be satisfied stays pending, which "
    "is a question of configuration, not of scheduling",
    "step durations are represented by the completion order the schedule chooses (logical clock)",
]
SCOPES = {"declarations"}


def compare_runs(results, variants, info) -> list[tuple[str, str, dict]]:
    found = []
    classes = [buildkit.rc_class(x) for x in results]
    cfg = [{k: v for k, v in var.items()} for var in variants]
    base = {"configurations": cfg, "returncodes": [repr(x.returncode) for x in results], **info}
    for x in results:
        if x.status != "done":
            found.append((f"director-{x.status}", f"a build ended with status {x.status}: {(x.error or '')[-200:]}",
                          {**base, "error": (x.error or "")[-1200:]}))
            return found
    if len(set(classes)) > 1:
        found.append(("returncode-class-depends-on-schedule:" + "/".join(sorted(set(classes))),
                      f"the same project ends {classes} under the configurations {cfg}", base))
    ok = [i for i, c in enumerate(classes) if c == "success"]
    if len(ok) >= 2:
        ref = results[ok[0]]
        for i in ok[1:]:
            a, b = ref.graph_canon, results[i].graph_canon
            if a != b:
                va, vb = buildkit.active_view(a, digests="none"), buildkit.active_view(b, digests="none")
                scope = "graph" if va != vb else "digests"
                kinds = buildkit.diff_kinds(va, vb) if va != vb else buildkit.diff_kinds(a, b)
                found.append((f"{scope}-depend-on-schedule:" + ",".join(kinds)[:100],
                              f"successful builds under configurations {cfg[ok[0]]} and {cfg[i]} end in different graphs: "
                              + "; ".join(buildkit.diff_lines(a, b, 4))[:300],
                              {**base, "pair": [ok[0], i], "differences": buildkit.diff_lines(a, b, 12)}))
                break
        for i in ok[1:]:
            bad = sorted(p for p in set(ref.files) | set(results[i].files) if ref.files.get(p) != results[i].files.get(p))
            if bad:
                found.append(("files-depend-on-schedule",
                              f"successful builds under two configurations leave different files: {bad[:4]}",
                              {**base, "pair": [ok[0], i], "paths": bad}))
                break
    texts = [buildkit.rejected_texts(x) for x in results]
    if len({tuple(t) for t in texts}) > 1:
        found.append(("rejection-text-depends-on-schedule",
                      "the rejected requests differ between configurations: "
                      + " | ".join(sorted({m for t in texts for _, m in t}))[:400],
                      {**base, "rejected": texts}))
    return found


def run_case(ctx, index: int, *, salt="proj"):
    r = ctx.rng(salt, index)
    family = ("projgen", "race", "race", "amend-timing", "deferred-producer")[index % 5]
    info = {"family": family}
    if family == "projgen":
        roll = r.random()
        invalid = None
        fail_prob = 0.0
        if roll < 0.12:
            invalid = r.choice(["conflict", "cycle", "missing"])
        elif roll < 0.24:
            fail_prob = 0.25
        model = projgen.gen_model(r, invalid=invalid, fail_prob=fail_prob)
        project = projgen.render(model)
        resources = model.resources
        info.update({"invalid": invalid, "fail_prob": fail_prob, "nstep": len(model.steps)})
    elif family == "race":
        conflict = r.random() < 0.3
        project, rinfo = buildkit.gen_race_project(r, conflict=conflict)
        resources = None
        info.update(rinfo)
    elif family == "deferred-producer":
        project, rinfo = buildkit.gen_deferred_producer_project(r)
        resources = None
        info.update(rinfo)
    else:
        project, rinfo = buildkit.gen_amend_timing_project(r)
        resources = None
        info.update(rinfo)
    variants = buildkit.schedule_variants(r, resources, 4)
    if family == "deferred-producer":
        variants = [{"njob": 1, "schedule": ("fifo",)}, {"njob": 1, "schedule": ("lifo",)}] + [
            {"njob": r.randint(2, 5), "schedule": ("random", r.randrange(1 << 30))} for _ in range(3)]
    if family == "amend-timing":
        # the guard only matters with three or more jobs and many interleavings
        variants = [{"njob": 1, "schedule": ("fifo",)}] + [
            {"njob": r.randint(3, 5), "schedule": ("random", r.randrange(1 << 30))} for _ in range(5)]
    sim_seed = r.randrange(1 << 30)
    found, summary = evaluate(project, variants, sim_seed, info)
    summary["family"] = family
    if found:
        project.explicit = {"project": buildkit.to_json({"scripts": project.scripts, "files": project.files,
                                                         "env": project.env}),
                            "variants": buildkit.to_json(variants), "seed": sim_seed, "info": buildkit.to_json(info)}
    return found, summary, project


def evaluate(project, variants, sim_seed, info):
    """Build `project` from scratch under every configuration, resume the first database unchanged
    under the second one, compare. Returns `(findings, summary)`."""
    results = []
    resumed = None
    for n, variant in enumerate(variants):
        with SimDirector(copy.deepcopy(project), seed=sim_seed + n) as sim:
            res = sim.build(**buildkit.build_kwargs(variant))
            results.append(res)
            if n == 0 and res.ok:
                resumed = sim.build(**buildkit.build_kwargs(variants[1]))
    found = compare_runs(results, variants, info)
    if resumed is not None and results[0].ok:
        if resumed.status != "done" or not resumed.ok or resumed.graph_canon != results[0].graph_canon:
            a, b = results[0].graph_canon, resumed.graph_canon or ""
            found.append(("resumed-database-differs",
                          f"resuming an unchanged valid database under {variants[1]} gives {resumed.status} "
                          f"{resumed.returncode!r}: " + "; ".join(buildkit.diff_lines(a, b, 4))[:300],
                          {"differences": buildkit.diff_lines(a, b, 10), **info}))
    summary = {"classes": [buildkit.rc_class(x) for x in results],
               "commands": sum(len(x.commands) for x in results),
               "distinct_traces": len({tuple(x.trace) for x in results}),
               "rejected": sum(1 for x in results if buildkit.rejected_texts(x)), **info}
    return found, summary


WALL_LIMIT = {"quick": 240, "thorough": 1500}


def run_self_amend_case():
    """A plan creates a step and then announces that step's output as its own input (`amend(inp=...)`): with
    one job the child cannot start while the plan holds the slot, the plan is deferred, PENDING creators make
    their products unsafe, and the two wait for each other; with two jobs the child runs meanwhile."""
    from simdirector import A, Project, plan_file

    plan = [A.step("make x", out=["x.txt"]), A.nop(), A.nop(), A.amend(inp=["x.txt"]), A.read("x.txt")]
    project = Project(scripts={"./plan.py": plan, "make x": [A.write("x.txt", "hi\n")]}, files={"plan.py": plan_file(plan)})
    variants = [{"njob": 1, "schedule": ("fifo",)}, {"njob": 2, "schedule": ("fifo",)}, {"njob": 2, "schedule": ("lifo",)},
                {"njob": 3, "schedule": ("random", 7)}]
    found, summary = evaluate(project, variants, 11, {"family": "self-amend"})
    out = []
    for sig, what, extra in found:
        if sig.startswith("returncode-class-depends-on-schedule"):
            sig = sig + ":plan-amends-output-of-its-own-step"
        out.append((sig, what, extra))
    return out, summary


async def search(ctx):
    found, summary = await asyncio.to_thread(run_self_amend_case)
    ctx.stats.programs += 1
    ctx.stats.count("self-amend-scenario")
    for sig, what, extra in found:
        ctx.finding(Finding(PID, sig, what, {**extra, "how": "props/c02.py run_self_amend_case()"}))
    import time

    t0 = time.time()
    broken_runs = 0
    n = ctx.budget(130, 2400)
    st = ctx.stats
    for i in range(n):
        found, summary, project = await asyncio.to_thread(run_case, ctx, i)
        broken_runs += sum(1 for sig, _, _ in found if sig.startswith("director-"))
        if broken_runs >= 3 or time.time() - t0 > WALL_LIMIT[ctx.tier]:
            # a director that hangs or dies costs a watchdog period per case: the violation is
            # recorded, there is no point in paying for it hundreds of times
            st.count("search-stopped-early-after-cases", i + 1)
            stop = True
        else:
            stop = False
        st.case(("proj", i, summary["family"]), nontrivial=summary["distinct_traces"] > 1)
        st.programs += 1
        st.count("projects:" + summary["family"])
        st.count("builds", 6 if summary["family"] == "amend-timing" else 5 if summary["family"] == "deferred-producer" else 4)
        st.count("commands-executed", summary["commands"])
        st.count("class:" + "/".join(sorted(set(summary["classes"]))))
        st.count("distinct-interleavings", summary["distinct_traces"])
        if summary.get("conflict"):
            st.count("race-conflict:" + str(summary["conflict"]))
        if summary.get("invalid"):
            st.count("projgen-invalid:" + str(summary["invalid"]))
        if summary["rejected"]:
            st.count("projects-with-rejected-requests")
        if i < 4:
            st.sample({"summary": summary, "plan": buildkit.jsonable_project(project)["scripts"].get("./plan.py")})
        for sig, what, extra in found:
            st.count("finding:" + sig)
            ctx.finding(Finding(PID, sig, what, {
                "case": {"verif_seed": ctx.seed, "salt": "proj", "index": i},
                "project": buildkit.jsonable_project(project), **extra,
                "explicit": getattr(project, "explicit", None),
                "how": "props/c02.py run_case(ctx, index): the project is built from scratch with SimDirector under "
                       "each configuration (buildkit.build_kwargs) and the results are compared; `explicit` holds "
                       "the inputs of props.c02.evaluate",
            }))
        if stop:
            break
    import normcorr

    await normcorr.oracle(ctx)
    if not st.rule:
        st.rule = ("a case is one project built under 4 configurations (njob 1/4/2/3, FIFO/LIFO/random, resources as "
                   "configured or larger) plus one resumed-unchanged build; even indices: projgen projects (12 % with a "
                   "conflict/cycle/missing input, 12 % with failing commands), odd: racing projects (2-3 concurrent "
                   "plans, 30 % with a cross-plan conflict); non-trivial = at least two different interleavings")


async def correspond(ctx):
    await kcorr.run(ctx, SCOPES)
    import normcorr

    await normcorr.run(ctx)


async def replay(ctx, detail):
    d = detail.get("detail", detail)
    case = d.get("case", {})
    os.environ["VERIF_SEED"] = str(case.get("verif_seed", 0))
    ctx.seed = int(case.get("verif_seed", 0))
    sig = detail.get("signature", "")
    if d.get("explicit"):
        from simdirector import Project

        e = d["explicit"]
        data = buildkit.from_json(e["project"])
        project = Project(scripts=data["scripts"], files=data["files"], env=data["env"])
        variants = [{k: (tuple(v) if k == "schedule" else v) for k, v in var.items()} for var in e["variants"]]
        found, summary = await asyncio.to_thread(evaluate, project, variants, e["seed"], e.get("info", {}))
        return {"reproduced": any(s == sig for s, _, _ in found), "signature": sig, "replayed_from": "explicit data",
                "found": [[s, w] for s, w, _ in found], "summary": summary}
    found, summary, _ = await asyncio.to_thread(run_case, ctx, int(case.get("index", 0)), salt=case.get("salt", "proj"))
    return {"reproduced": any(s == sig for s, _, _ in found), "signature": sig,
            "found": [[s, w] for s, w, _ in found], "summary": summary}
