"""C09: the stored workflow satisfies its invariants after every transaction.

Correspondence: every kernel scope (the theorems are about the whole kernel model).
Oracle: after every request of every generated sequence, on the real database: the graph
invariants (detached <=> unreachable, kinds, acyclicity, UNDECLARED => detached), the
state/hash invariants, satellite rows, and the classification of every exception raised by a
request that the director's interface can deliver (anything but a UsageError is a violation).
"""

from __future__ import annotations

import kcorr
import koracles
from common import Finding

PID = "C09"
LEVEL = "proof"
ASSUMPTIONS = [
    "invariant I4 (SUCCEEDED => outputs BUILT) is a theorem over histories whose requests satisfy four side "
    "conditions (no raw set_state(SUCCEEDED) with unbuilt outputs, completed-with-hash only without PLANNED own "
    "outputs, no amend / reset_for_rerun of a SUCCEEDED step): what the executor and the handlers issue, read in "
    "executor.py/director.py, not verified there; each excluded request has a kernel-checked counterexample that is "
    "replayed on the real code (harness/witness/succ_outputs_*.txt); the oracle evaluates I4 on the real database "
    "after define/completed/check_consistency/reset_interrupted and on whole simulated builds (C01/C05)",
    "requests are those the director's interface can deliver: creators are RUNNING steps, hash results are for "
    "states a hash job can meet; the malformed stream is checked for agreement with the model only",
]

INTERNAL = ("integrity", "consistency", "assert", "hang", "value", "other")


def observer(ctx):
    def obs(run, op, line, ans):
        legal = run.legal[-1]
        if not legal and ans.startswith("ok"):
            run.tainted = True  # a request the director cannot deliver was applied: no claim about the rest
        if getattr(run, "tainted", False):
            return
        sn = koracles.Snapshot(run.wf)
        bad = koracles.graph_invariants(sn) + koracles.state_invariants(sn)
        if legal and op in ("define", "completed", "check_consistency", "reset_interrupted"):
            # at the requests that end a director transaction in which a step becomes or stays SUCCEEDED
            bad += koracles.succeeded_outputs(sn)
        for b in bad[:3]:
            sig = "inv-" + b.split(" ")[0]
            ctx.finding(Finding(PID, sig, f"after request '{kcorr.decode_line(line)[:120]}': {b}",
                                {"violations": bad[:10], "requests": [kcorr.decode_line(x) for x in run.lines][-15:],
                                 "protocol_lines": list(run.lines), "legal": legal}))
        if legal and ans.startswith("err "):
            kind = ans.split(" ")[1]
            if kind.split(":")[0] in INTERNAL:
                sig = f"internal-error-{kind.split(':')[0]}-{op}"
                # a path under an attached static tree that someone else declared while the tree was
                # detached (known finding of C08): a static declaration handed over to that tree then
                # collides and `_creator_phrase` cannot phrase the tree
                under_tree = [b for b in koracles.ownership_invariants(sn) if "file under static tree" in b]
                if kind == "consistency" and op in ("static", "declstatic") and under_tree:
                    sig += ":collision-with-tree-as-declarer"
                ctx.finding(Finding(PID, sig,
                                    f"request '{kcorr.decode_line(line)[:160]}' raised an internal error ({kind})",
                                    {"requests": [kcorr.decode_line(x) for x in run.lines][-15:],
                                     "protocol_lines": list(run.lines), "answer": ans}))
        ctx.stats.count("oracle-states-checked")
    return obs


async def correspond(ctx):
    await kcorr.run(ctx, kcorr.ALL_SCOPES, observers=[observer(ctx)])


async def search(ctx):
    import corr_kernel as _ck

    await _ck.run_scenarios(ctx, lambda ctx, run_: observer(ctx), ["detached_completion", "rerole", "nested_chain", "amended_consumer_rerun", "cycle_via_detached", "hold_recycle", "shrink_resources", "duplicate_definition", "self_define_detached"])
    # the oracle runs as an observer of the correspondence sequences; a second, differently seeded
    # pass without the model gives it more states
    import contextlib

    import corr_kernel

    n = ctx.budget(60, 1500)
    for i in range(n):
        r = ctx.rng("oracle", i)
        run_ = corr_kernel.KernelRun(r, exotic=False)
        run_.observers = [observer(ctx)]
        async with contextlib.AsyncExitStack() as cm:
            await run_.generate(cm, 70)


async def replay(ctx, detail):
    import contextlib

    import corr_kernel

    d = detail.get("detail", {})
    sig = detail.get("signature", "")
    await search(ctx)
    return {"reproduced": any(f.signature == sig for f in ctx.findings), "signature": sig,
            "requests": d.get("requests")}
