"""C04: rebuilding with nothing changed does nothing; edits rerun only their cone.

Correspondence: kernel scopes startup, scheduler, propagation (the theorems of `Props/C04.lean`
are about `reconcileTargets`, `rescanEnvVars`, `resetInterrupted`, `updateFileHashes` with an
empty update, `updateMeta*`), plus the model of the guard of `Executor._run_hash_job`
(`P/Skip.lean`, `hashJobApplies`) against the real coroutine on constructed workflows.

Oracle (on the real director code through `simdirector`): the histories of the C01 generator with
half of the phases editing source files only, and trees of nested plans (steps with environment
overrides, a named glob with a constrained wildcard next to a file that matches only the
unconstrained pattern) in which every phase touches exactly one source or plan file.
 (1) After every successful build the build is repeated with nothing changed, as a restart with
     another job count and schedule or as a watch-mode rebuild without edits: no command may
     run, the canonical graph text (digests included) and the bytes, mtime and inode of every
     file must be unchanged.
 (2) After a phase that edited source files only, every executed command must be justified as the
     property says: the executed steps must all lie in the least subset of the *executed* steps
     closed under "consumes an edited file or matches it with a glob pattern", "consumes an
     output of a step in the set", "was declared by a step in the set" (edges from the union of
     the graphs before and after the rebuild).  A step declared by a plan that was only
     re-checked and skipped is not justified by that plan.
"""

from __future__ import annotations

import asyncio
import copy
import os

import buildkit
import kcorr
import projgen
from common import Finding
from simdirector import SimDirector

PID = "C04"
LEVEL = "proof"
ASSUMPTIONS = [
    "noop_rebuild and cone for whole builds are decided by the oracle on simulated builds; the theorems are the "
    "T1 pieces of DESIGN (rescan guard, reconcile_targets/rescan_env/reset_interrupted identities on quiescent "
    "states, empty hash update) on the kernel model and the hash-job guard model",
    "file times: the simulation gives every written file a fresh mtime, so 'rewrites no output' is observed as "
    "unchanged (mtime_ns, inode) and unchanged bytes",
    "the cone is computed on the union of the graphs before and after the rebuild (a step the rebuild dropped "
    "was active when it started)",
]
SCOPES = {"startup", "scheduler", "propagation"}


def run_case(ctx, index: int, *, salt="hist"):
    r = ctx.rng(salt, index)
    model = projgen.gen_model(r)
    hist = buildkit.gen_hist(r, model, watch_prob=0.3, source_prob=0.5, break_prob=0.06)
    sim_seed = r.randrange(1 << 30)
    noop_seeds = [r.randrange(1 << 30) for _ in range(len(hist.events) + 1)]
    initial = projgen.render(model)
    source_only = [None if x is None else sorted(x) for x in hist.source_only]
    found, summary = evaluate(initial, hist.events, source_only, sim_seed, noop_seeds)
    summary["index"] = index
    if found:
        hist.explicit = {"initial": buildkit.to_json({"scripts": initial.scripts, "files": initial.files,
                                                      "env": initial.env}),
                         "events": buildkit.to_json(hist.events), "source_only": source_only, "seed": sim_seed,
                         "noop_seeds": noop_seeds}
    return found, summary, hist


def evaluate(initial, events, source_only, sim_seed, noop_seeds):
    """Run the events on `initial` with an unchanged rebuild after every successful build and the
    cone check after every source-only edit. Returns `(findings, summary)`."""
    found: list[tuple[str, str, dict]] = []
    summary = {"noop_checks": 0, "cone_checks": 0, "cone_executed": 0, "nbuild": 0,
               "watch": bool(events) and events[-1][0] == "shutdown", "commands": 0, "cone_nonempty": 0}

    def check_noop(before, again, mode, phase):
        summary["noop_checks"] += 1
        extra = {"phase": phase, "mode": mode}
        if again.status != "done" or not again.ok:
            found.append((f"noop-rebuild-not-successful:{mode}",
                          f"the rebuild with nothing changed ended with {again.status} {again.returncode!r}",
                          {**extra, "error": (again.error or "")[-800:], "log": again.log[-4:]}))
            return
        if again.commands:
            found.append((f"noop-rebuild-runs-commands:{mode}",
                          f"a rebuild with nothing changed executed {again.commands[:5]}",
                          {**extra, "commands": again.commands,
                           "events": [e[:2] for e in again.events if e[0] in ("START", "SKIP", "UPDATED", "DELETED")][:10]}))
        if again.graph_canon != before.graph_canon:
            a, b = before.graph_canon, again.graph_canon
            found.append((f"noop-rebuild-changes-graph:{mode}:" + ",".join(buildkit.diff_kinds(a, b))[:80],
                          "a rebuild with nothing changed altered the graph: " + "; ".join(buildkit.diff_lines(a, b, 4))[:300],
                          {**extra, "differences (- before, + after)": buildkit.diff_lines(a, b, 10)}))
        touched = sorted(p for p in before.file_meta if again.file_meta.get(p) != before.file_meta[p])
        touched += sorted(p for p in again.file_meta if p not in before.file_meta)
        changed = sorted(p for p in set(before.files) | set(again.files) if before.files.get(p) != again.files.get(p))
        if touched or changed:
            found.append((f"noop-rebuild-touches-files:{mode}",
                          f"a rebuild with nothing changed rewrote or removed {(touched or changed)[:5]}",
                          {**extra, "meta_changed": touched, "bytes_changed": changed}))

    def check_cone(before, after, edited, phase):
        summary["cone_checks"] += 1
        executed = ["step:" + x.label for x in after.runs]
        cone = buildkit.cone([before.graph_canon, after.graph_canon], set(edited), set(executed))
        summary["cone_executed"] += len(executed)
        summary["cone_nonempty"] += bool(executed)
        outside = sorted({k for k in executed if k not in cone})
        if outside:
            found.append(("command-outside-cone",
                          f"after editing only {sorted(edited)[:4]} the rebuild executed {outside[:4]}, which neither "
                          f"consume an edited file, nor an output of an executed step, nor were declared by one",
                          {"phase": phase, "edited": sorted(edited), "executed": executed, "cone": sorted(cone),
                           "outside": outside}))

    with SimDirector(copy.deepcopy(initial), seed=sim_seed) as sim:
        last_ok = None  # result of the last build phase when it was successful
        nedit = -1
        for n, event in enumerate(events):
            kind = event[0]
            watching = sim.session is not None and sim.session.watching
            result = None
            edited = None
            if kind == "build":
                result = sim.build(**event[1])
            elif kind == "edits":
                nedit += 1
                edited = source_only[nedit]
                if watching:
                    result = sim.watch_rebuild(event[1])
                else:
                    sim.apply(event[1])
                    pending_edit = (edited, last_ok)
                    continue
            elif kind == "shutdown":
                sim.shutdown()
                continue
            if result is None:
                continue
            summary["nbuild"] += 1
            summary["commands"] += len(result.commands)
            if result.status != "done":
                found.append((f"director-{result.status}", f"a build phase ended with status {result.status}",
                              {"error": (result.error or "")[-1200:]}))
                break
            # cone check: this phase follows a source-only edit of a successful state
            if kind == "build" and n > 0 and events[n - 1][0] == "edits":
                edited, before = pending_edit
            elif kind == "edits":
                before = last_ok
            else:
                edited, before = None, None
            if edited is not None and before is not None and result.ok:
                check_cone(before, result, edited, n)
            last_ok = result if result.ok else None
            if result.ok:
                if watching or (kind == "build" and event[1].get("watch")):
                    again = sim.watch_rebuild({})
                    check_noop(result, again, "watch", n)
                else:
                    kwargs = dict(event[1])
                    kwargs["njob"] = 1 + (noop_seeds[n] % 4)
                    kwargs["seed"] = noop_seeds[n]
                    again = sim.build(**kwargs)
                    check_noop(result, again, "restart", n)
                if again.status != "done":
                    break
                if again.ok:
                    last_ok = again
    return found, summary


WALL_LIMIT = {"quick": 240, "thorough": 1500}


def run_dropamend_case(ctx, index: int):
    """A step with an amended input on a static file declared by another plan; that plan and the boot
    plan are touched in the same rebuild.  Nothing the step consumes changed and its own plan is skipped,
    so it must not be executed."""
    from simdirector import A, FifoSchedule, Project, plan_file

    r = ctx.rng("dropamend", index)
    a = [A.step("work", inp=["common.txt"], out=["a/result.txt"])]
    b = [A.static("b/d.txt")]
    plan = [A.static("common.txt", "a.py", "b.py"), A.step("./a.py", inp=["a.py"], plan=True),
            A.step("./b.py", inp=["b.py"], plan=True)]
    scripts = {"./plan.py": plan, "./a.py": a, "./b.py": b,
               "work": [A.read_declared(), A.amend(inp=["b/d.txt"]), A.read("b/d.txt"), A.write_declared()]}
    files = {"plan.py": plan_file(plan), "a.py": plan_file(a), "b.py": plan_file(b), "common.txt": "c\n", "b/d.txt": "d\n"}
    njob = [1, 1, 2][index % 3]
    found = []
    info = {"njob": njob}
    with SimDirector(Project(scripts=copy.deepcopy(scripts), files=dict(files)), seed=r.randrange(1 << 30)) as sim:
        b1 = sim.build(njob=njob, schedule=FifoSchedule())
        if b1.status != "done" or not b1.ok:
            return [("director-" + b1.status, f"the first build ended with {b1.returncode!r}", info)], info
        sim.apply([("write", "plan.py", plan_file(plan, note="touched")), ("write", "b.py", plan_file(b, note="touched"))])
        b3 = sim.build(njob=njob, schedule=FifoSchedule())
        info["commands"] = b3.commands
        if "work" in b3.commands:
            found.append(("command-outside-cone:dropamend-while-dynamic-input-detached",
                          f"after touching only plan.py and b.py the rebuild executed {b3.commands}: `work` consumes "
                          f"common.txt and (amended) b/d.txt, neither edited nor built by a step, and its plan ./a.py was skipped",
                          {**info, "events": [e[:2] for e in b3.events if e[0] in ("START", "SKIP", "NOSKIP", "DROPAMEND", "UPDATED")][:12]}))
    return found, info


def run_injected_env_case(ctx, index: int):
    """A step of a sub-plan tracks a variable that the director itself injects into the environment of the steps
    (STEPUP_ROOT, ...).  Touching the boot plan wakes its hash check while its own plan is skipped: the stored
    and the recomputed hash must be computed from the same environment, so the step is skipped."""
    from simdirector import A, FifoSchedule, Project, plan_file

    r = ctx.rng("injected-env", index)
    name = ["STEPUP_ROOT", "STEPUP_BUILD_LOG_LEVEL", "STEPUP_DIRECTOR_SOCKET"][index % 3]
    # the input of `stamp` is declared by the boot plan: when that plan runs again the file is declared again,
    # confirmed unchanged, and `stamp` goes through a hash check
    sub = [A.step("stamp", inp=["sub/in.txt"], out=["sub/stamp.txt"], env=[name])]
    plan = [A.static("sub.py", "sub/in.txt"), A.step("./sub.py", inp=["sub.py"], plan=True)]
    scripts = {"./plan.py": plan, "./sub.py": sub, "stamp": [A.read_declared(), A.write_declared()]}
    files = {"plan.py": plan_file(plan), "sub.py": plan_file(sub), "sub/in.txt": "x\n"}
    found = []
    info = {"variable": name}
    with SimDirector(Project(scripts=copy.deepcopy(scripts), files=dict(files)), seed=r.randrange(1 << 30)) as sim:
        b1 = sim.build(njob=1, schedule=FifoSchedule())
        if b1.status != "done" or not b1.ok:
            return [("director-" + b1.status, f"the first build ended with {b1.returncode!r}", info)], info
        sim.apply([("write", "plan.py", plan_file(plan, note="touched"))])
        b2 = sim.build(njob=1, schedule=FifoSchedule())
        info["commands"] = b2.commands
        if "stamp" in b2.commands:
            found.append(("command-outside-cone:step-tracking-a-director-variable",
                          f"after touching only plan.py the rebuild executed {b2.commands}: `stamp` tracks {name}, which "
                          f"did not change, consumes only sub/in.txt and its plan ./sub.py was skipped",
                          {**info, "events": [e[:2] for e in b2.events if e[0] in ("START", "SKIP", "NOSKIP", "UPDATED")][:12]}))
    return found, info


def run_dir_pattern_case(ctx, index: int):
    """`static()` with a pattern whose matches are directories (they become static trees): a restart with
    nothing changed must find the recorded matches unchanged and run nothing."""
    from simdirector import A, FifoSchedule, Project, plan_file

    r = ctx.rng("dir-pattern", index)
    pattern = ["data/*/", "data/${*name}/", "da*/*/"][index % 3]
    plan = [A.static(pattern), A.step("use", inp=["data/a/x.txt"], out=["out/u.txt"])]
    scripts = {"./plan.py": plan}
    files = {"plan.py": plan_file(plan), "data/a/x.txt": "x\n", "data/b/y.txt": "y\n"}
    found = []
    info = {"pattern": pattern}
    with SimDirector(Project(scripts=copy.deepcopy(scripts), files=dict(files)), seed=r.randrange(1 << 30)) as sim:
        b1 = sim.build(njob=1, schedule=FifoSchedule())
        if b1.status != "done" or not b1.ok:
            return [("director-" + b1.status, f"the first build ended with {b1.returncode!r}: {(b1.error or '')[-200:]}", info)], info
        b2 = sim.build(njob=r.randint(1, 2))
        info["commands"] = b2.commands
        if b2.status != "done" or not b2.ok or b2.commands:
            found.append(("noop-rebuild-runs-commands:restart:directory-matches-of-a-static-pattern",
                          f"a restart with nothing changed executed {b2.commands} ({b2.returncode!r}) in a project whose plan "
                          f"declares static({pattern!r})",
                          {**info, "events": [e[:2] for e in b2.events if e[0] in ("START", "SKIP", "NOSKIP", "UPDATED", "DELETED")][:12]}))
    return found, info


def run_env_dropped_case(ctx, index: int):
    """A step stops reading an environment variable (its script and a declared input change, so it is
    run again and no longer announces the variable); afterwards the variable changes: nothing tracks it
    any more according to plans and scripts, so the rebuild must not execute anything."""
    from simdirector import A, Project, plan_file

    r = ctx.rng("env-dropped", index)
    dynamic = index % 2 == 0
    name = r.choice(["C04_MODE", "C04_LEVEL"])
    v1 = [A.read_declared()] + ([A.amend(env=[name])] if dynamic else []) + [A.getenv(name), A.write_declared()]
    v2 = [A.read_declared(), A.write_declared()]
    step1 = A.step("work", inp=["cfg.txt"], out=["out/w.txt"], env=[] if dynamic else [name])
    step2 = A.step("work", inp=["cfg.txt"], out=["out/w.txt"])
    other = A.step("other", inp=["cfg.txt"], out=["out/o.txt"], env=["C04_OTHER"])
    plan1, plan2 = [A.static("cfg.txt"), step1, other], [A.static("cfg.txt"), step2, other]
    project = Project(scripts={"./plan.py": plan1, "work": v1, "other": [A.read_declared(), A.write_declared()]},
                      files={"plan.py": plan_file(plan1), "cfg.txt": "v1\n"}, env={name: "fast", "C04_OTHER": "x"})
    found = []
    info = {"dynamic": dynamic, "variable": name}
    with SimDirector(copy.deepcopy(project), seed=r.randrange(1 << 30)) as sim:
        b1 = sim.build(njob=r.randint(1, 2))
        sim.apply([("script", "work", v2, ""), ("write", "cfg.txt", "v2\n")]
                  + ([] if dynamic else [("script", "./plan.py", plan2, ""), ("write", "plan.py", plan_file(plan2))]))
        b2 = sim.build(njob=r.randint(1, 2))
        info["build2_commands"] = b2.commands
        if b1.status != "done" or b2.status != "done" or not (b1.ok and b2.ok):
            return [("director-" + (b2.status if b2.status != "done" else "failed"),
                     f"a build of the env-dropped family ended with {b1.returncode!r} / {b2.returncode!r}", info)], info
        sim.apply([("setenv", name, "slow")])
        b3 = sim.build(njob=r.randint(1, 2))
        info["build3_commands"] = b3.commands
        if b3.commands:
            found.append(("noop-rebuild-runs-commands:env-no-longer-read",
                          f"after the step stopped reading {name} (and was run again without it) a change of {name} made "
                          f"the rebuild execute {b3.commands[:4]}",
                          {**info, "events": [e[:2] for e in b3.events if e[0] in ("START", "SKIP", "UPDATED", "NOSKIP")][:10]}))
    return found, info


async def search(ctx):
    import time

    t0 = time.time()
    broken_runs = 0
    n = ctx.budget(130, 2400)
    st = ctx.stats
    for i in range(n):
        found, summary, hist = await asyncio.to_thread(run_case, ctx, i)
        broken_runs += sum(1 for sig, _, _ in found if sig.startswith("director-"))
        if broken_runs >= 3 or time.time() - t0 > WALL_LIMIT[ctx.tier]:
            # a director that hangs or dies costs a watchdog period per case: the violation is
            # recorded, there is no point in paying for it hundreds of times
            st.count("search-stopped-early-after-cases", i + 1)
            stop = True
        else:
            stop = False
        st.case(("hist", tuple(hist.mutations), summary["watch"]), nontrivial=summary["cone_executed"] > 0)
        st.programs += 1
        for key in ("noop_checks", "cone_checks", "cone_executed", "cone_nonempty", "nbuild", "commands"):
            st.count(key.replace("_", "-"), summary[key])
        st.count("watch-histories" if summary["watch"] else "restart-histories")
        for m in hist.mutations:
            for kind in m.split("+"):
                st.count("mutation:" + kind)
        if i < 3:
            st.sample({"history": buildkit.describe_events(hist.events)[:4], "mutations": hist.mutations,
                       "summary": summary})
        for sig, what, extra in found:
            st.count("finding:" + sig)
            ctx.finding(Finding(PID, sig, what, {
                "case": {"verif_seed": ctx.seed, "salt": "hist", "index": i},
                "mutations": hist.mutations, "events": buildkit.describe_events(hist.events), **extra,
                "explicit": getattr(hist, "explicit", None),
                "how": "props/c04.py run_case(ctx, index): every successful build is repeated unchanged; phases "
                       "that edit sources only are checked against buildkit.cone; `explicit` holds the inputs of "
                       "props.c04.evaluate",
            }))
        if stop:
            break
    for i in range(ctx.budget(60, 1200)):
        r = ctx.rng("tree", i)
        initial, events, source_only = buildkit.gen_tree_source_history(r)
        seed = r.randrange(1 << 30)
        noop_seeds = [r.randrange(1 << 30) for _ in range(len(events) + 1)]
        found, summary = await asyncio.to_thread(evaluate, initial, events, source_only, seed, noop_seeds)
        st.case(("tree", i), nontrivial=summary["cone_executed"] > 0)
        st.programs += 1
        st.count("plan-tree-histories")
        for key in ("noop_checks", "cone_checks", "cone_executed", "cone_nonempty", "nbuild", "commands"):
            st.count(key.replace("_", "-"), summary[key])
        for sig, what, extra in found:
            st.count("finding:" + sig)
            ctx.finding(Finding(PID, sig, what, {
                "case": {"verif_seed": ctx.seed, "salt": "tree", "index": i},
                "events": buildkit.describe_events(events), **extra,
                "explicit": {"initial": buildkit.to_json({"scripts": initial.scripts, "files": initial.files,
                                                          "env": initial.env}),
                             "events": buildkit.to_json(events), "source_only": source_only, "seed": seed,
                             "noop_seeds": noop_seeds},
                "how": "props/c04.py: buildkit.gen_tree_source_history (nested plans, steps with env overrides, a "
                       "named glob with a constrained wildcard; every phase touches one source or one plan file), "
                       "evaluated by props.c04.evaluate"}))
        if any(sig.startswith("director-") for sig, _, _ in found):
            break
    for i in range(ctx.budget(3, 12)):
        found, info = await asyncio.to_thread(run_dropamend_case, ctx, i)
        st.case(("dropamend", i), nontrivial=True)
        st.programs += 1
        st.count("dropamend-histories")
        for sig, what, extra in found:
            st.count("finding:" + sig)
            ctx.finding(Finding(PID, sig, what, {
                "case": {"verif_seed": ctx.seed, "salt": "dropamend", "index": i}, **extra,
                "how": "props/c04.py run_dropamend_case(ctx, index); harness/repro/c04_dropamend_two_plans.py"}))
    for i in range(ctx.budget(3, 12)):
        found, info = await asyncio.to_thread(run_dir_pattern_case, ctx, i)
        st.case(("dir-pattern", i), nontrivial=True)
        st.programs += 1
        st.count("dir-pattern-histories")
        for sig, what, extra in found:
            st.count("finding:" + sig)
            ctx.finding(Finding(PID, sig, what, {
                "case": {"verif_seed": ctx.seed, "salt": "dir-pattern", "index": i}, **extra,
                "how": "props/c04.py run_dir_pattern_case(ctx, index)"}))
    for i in range(ctx.budget(3, 12)):
        found, info = await asyncio.to_thread(run_injected_env_case, ctx, i)
        st.case(("injected-env", i), nontrivial=True)
        st.programs += 1
        st.count("injected-env-histories")
        for sig, what, extra in found:
            st.count("finding:" + sig)
            ctx.finding(Finding(PID, sig, what, {
                "case": {"verif_seed": ctx.seed, "salt": "injected-env", "index": i}, **extra,
                "how": "props/c04.py run_injected_env_case(ctx, index)"}))
    for i in range(ctx.budget(6, 60)):
        found, info = await asyncio.to_thread(run_env_dropped_case, ctx, i)
        st.case(("env-dropped", i), nontrivial=True)
        st.programs += 1
        st.count("env-dropped-histories:" + ("dynamic" if info["dynamic"] else "declared"))
        for sig, what, extra in found:
            st.count("finding:" + sig)
            ctx.finding(Finding(PID, sig, what, {
                "case": {"verif_seed": ctx.seed, "salt": "env-dropped", "index": i}, **extra,
                "how": "props/c04.py run_env_dropped_case(ctx, index)"}))
    if not st.rule:
        st.rule = ("a case is one history of the C01 generator (half of the phases edit source files only); every "
                   "successful build is followed by an unchanged rebuild (restart with another job count and schedule, "
                   "or watch-mode rebuild); non-trivial = a source-only phase executed at least one command; "
                   "noop-checks / cone-checks count the individual comparisons")


async def correspond(ctx):
    await kcorr.run(ctx, SCOPES)
    import skipcorr

    await skipcorr.run(ctx, only=("hashjob",))


async def replay(ctx, detail):
    d = detail.get("detail", detail)
    case = d.get("case", {})
    os.environ["VERIF_SEED"] = str(case.get("verif_seed", 0))
    ctx.seed = int(case.get("verif_seed", 0))
    sig = detail.get("signature", "")
    if d.get("explicit"):
        e = d["explicit"]
        data = buildkit.from_json(e["initial"])
        from simdirector import Project

        initial = Project(scripts=data["scripts"], files=data["files"], env=data["env"])
        found, summary = await asyncio.to_thread(evaluate, initial, buildkit.from_json(e["events"]), e["source_only"],
                                                 e["seed"], e["noop_seeds"])
        return {"reproduced": any(s == sig for s, _, _ in found), "signature": sig, "replayed_from": "explicit data",
                "found": [[s, w] for s, w, _ in found], "summary": summary}
    found, summary, hist = await asyncio.to_thread(run_case, ctx, int(case.get("index", 0)),
                                                   salt=case.get("salt", "hist"))
    return {"reproduced": any(s == sig for s, _, _ in found), "signature": sig,
            "found": [[s, w] for s, w, _ in found], "summary": summary}
