"""C19: exit status and final report tell the truth about the build.

Correspondence
  * kernel scopes scheduler/completion/startup/cleanup (the columns the report reads: step state,
    `_implied_need`, detached, `deferred`, the cached safety columns);
  * the model of `finalize.report_unbuilt` (`c19 rc`) against the real coroutine on leftover graphs:
    the inputs handed to the model (attached FAILED steps, the pending universe, missing targets,
    glob violations) are recomputed here from the tables, not taken from the code under test;
  * the model of the attribution of `pending.py` (`c19 pend`) against the real `_analyze_pending`:
    the scratch tables `pend_step`, `pend_file_block`, `pend_dead_file`, `pend_unsafe_anc`,
    `pend_resource` are read back (the final DROP is held off by the harness) and given to the model,
    which must reproduce `pend_blocker`, `pend_attributed`, the bucket counts and examples, the exact
    counts and the hidden-row counters of `PendingSummary`.
  Leftover graphs come from kernel request sequences (`corr_kernel.KernelRun`, sampled at
  checkpoints, plus raw mutations at the end: interrupted steps, stale deferrals, holds) and from
  simulated builds (failing steps, missing inputs, unsatisfiable resources, dynamic cycles,
  keep-going, targets, drains).

Oracle (independent of the Lean model)
  * a from-scratch Python reference of the whole analysis (universe, blocking inputs, dead-end files,
    nearest chain-broken ancestor, unsatisfiable resources, candidate blockers, primary blocker,
    attribution by following the chain with a visited set) compared with what `_analyze_pending` did:
    every step of the universe has exactly one primary blocker and it is a true one of the best kind,
    every step is attributed to exactly one root or is cyclic, counts add up to `ntotal`;
  * the exit status of every simulated build phase against the final database: FAILED iff an attached
    step is FAILED / a glob error was reported on an otherwise clean build / the target was rejected;
    PENDING iff not draining and a required step (need recomputed from scratch) is PENDING; DRAINED iff
    the scheduler drained; zero only if every required step SUCCEEDED, its outputs exist, no glob
    violation and no missing target.
"""

from __future__ import annotations

import asyncio
import contextlib
import copy
import json
import os
import re
import shutil
import sqlite3
import tempfile

import common
import kcorr
import koracles
from common import Finding, hexs

from stepup.core.enums import FILE_ROLE_BY_STATE, FileRole, FileState, Need, ReturnCode, StepState

PID = "C19"
LEVEL = "proof"
ASSUMPTIONS = [
    "FAILED 'exactly when a glob pattern matched a built file' is read as the code does: glob violations are only "
    "looked at when nothing else is wrong (Props/C19 failed_bit_literal_negation keeps the literal form's witness); "
    "the direction FAILED -> one of the three reasons is proved without that reading",
    "a step whose failing command was superseded in the same phase (recycled to PENDING by its re-running creator) has "
    "not 'ended failed': the phase then ends DRAINED (non-zero) without FAILED",
    "the base relations of the pending analysis (which inputs block, which files are dead ends, the nearest "
    "chain-broken ancestor) are tied to their definitions by the from-scratch Python reference on generated leftover "
    "graphs, not by a theorem",
    "the exit status of a whole build is decided on simulated builds (real director code, scripted steps)",
    "INTERNAL and INTERRUPTED are set by the terminal front end (tui.py), outside the modelled code",
]
SCOPES = {"scheduler", "completion", "startup", "cleanup"}

ROOT_KINDS = {0: "FILE", 1: "RESOURCE", 2: "FAILED", 3: "DEFERRED", 4: "OTHER", 5: "RUNNABLE", 6: "BLOCK_STEP"}


# ---------------------------------------------------------------------------------------------
# Independent view of the database
# ---------------------------------------------------------------------------------------------


class RecReporter:
    """Stands in for `ReporterClient`; keeps (tag, text, pages)."""

    def __init__(self):
        self.events = []

    async def __call__(self, tag, text="", pages=None):
        self.events.append((tag, text, pages))

    async def warn_about_logs(self):
        return None


MSG_PATTERNS = [
    (re.compile(r"^(\d+) step\(s\) failed\.$"), "failed"),
    (re.compile(r"^Scheduler is draining"), "draining"),
    (re.compile(r"^(\d+) step\(s\) remained pending\.$"), "pending"),
    (re.compile(r"^Invalid build target: A build target cannot be a static file or a volatile output: (.*)$"), "invalid"),
    (re.compile(r"^(\d+) target\(s\) are not produced"), "targets"),
    (re.compile(r"^(\d+) directory target\(s\) matched no"), "dirs"),
    (re.compile(r"^(\d+) glob match\(es\) are not declared static"), "globwarn"),
    (re.compile(r"^(\d+) glob match\(es\) are files that a step builds"), "globerr"),
]


def report_messages(events) -> list[str]:
    out = []
    for tag, text, _ in events:
        if tag not in ("WARNING", "ERROR"):
            continue
        for rx, name in MSG_PATTERNS:
            m = rx.match(text)
            if m:
                if name == "invalid":
                    out.append(f"invalid:{len(m.group(1).split(', '))}")
                else:
                    out.append(name if name == "draining" else f"{name}:{m.group(1)}")
                break
    return out


class Shim:
    """What `koracles.Snapshot` needs, on a plain sqlite3 connection."""

    def __init__(self, con, targets=(), target_dirs=()):
        self.db = con
        self.targets = [str(t) for t in targets]
        self.target_dirs = [str(t) for t in target_dirs]


def threshold_of(targets, target_dirs) -> int:
    return Need.DEFAULT.value if (targets or target_dirs) else Need.OPTIONAL.value


def attached_steps(sn):
    return [i for i, n in sn.nodes.items() if n[0] == "step" and not n[3] and i in sn.steps]


def glob_violations(con, sn, exists) -> tuple[int, int, list]:
    """(warnings, errors, records) by the documented rule, from the tables and the disk."""
    from stepup.core.nglob import NamedGlob
    from stepup.core.cattrs import json_converter

    file_by_label = {n[1]: i for i, n in sn.nodes.items() if n[0] == "file" and not n[3] and i in sn.files}
    trees = [n[1] for n in sn.nodes.values() if n[0] == "st" and not n[3]]
    static_states = {s.value for s, r in FILE_ROLE_BY_STATE.items() if r == FileRole.STATIC}
    static_labels = [lab for lab, i in file_by_label.items() if sn.files[i][0] in static_states]
    warnings = errors = 0
    records = []
    for node, data in con.execute("SELECT nglob.node, nglob.data FROM nglob JOIN node ON node.i = nglob.node "
                                  "WHERE NOT node.detached"):
        ng = json_converter.structure(json.loads(data), NamedGlob)
        for path in ng.files():
            path = str(path)
            if path in file_by_label:
                st = sn.files[file_by_label[path]][0]
                if st in static_states:
                    continue
                errors += 1
                records.append(("error", sn.nodes[node][1], path))
                continue
            justified = any(path.startswith(t) for t in trees)
            if not justified and path.endswith("/"):
                is_root = path in ("./", "/")
                justified = any(is_root or t.startswith(path) for t in trees) or any(
                    is_root or lab.startswith(path) for lab in static_labels)
            if justified or not exists(path):
                continue
            warnings += 1
            records.append(("warning", sn.nodes[node][1], path))
    return warnings, errors, records


def missing_targets(sn, targets, target_dirs) -> tuple[int, int]:
    out_states = {s.value for s, r in FILE_ROLE_BY_STATE.items() if r == FileRole.OUTPUT}
    file_by_label = {n[1]: i for i, n in sn.nodes.items() if n[0] == "file" and not n[3] and i in sn.files}
    mt = 0
    invalid = set(invalid_targets_at_end(sn, targets))
    for t in targets:
        i = file_by_label.get(str(t))
        ok = (i is not None and sn.nodes[i][2] is not None and sn.nodes[sn.nodes[i][2]][0] == "step"
              and sn.files[i][0] in out_states)
        mt += 0 if ok or str(t) in invalid else 1
    md = 0
    for d in target_dirs:
        d = str(d)
        ok = False
        for lab, i in file_by_label.items():
            if (d == "./" or lab.startswith(d)) and sn.files[i][0] != FileState.VOLATILE.value and any(
                    True for _ in sn.sources(i)):
                ok = True
                break
        md += 0 if ok else 1
    return mt, md


def invalid_targets_at_end(sn, targets) -> list[str]:
    """Requested exact targets that are, in the final database, attached files nobody builds: static files
    (CONFIRMED / MISSING / UNCONFIRMED) or volatile outputs.  Decided on the database, not on what was reported."""
    bad_states = {s.value for s, r in FILE_ROLE_BY_STATE.items() if r == FileRole.STATIC} | {FileState.VOLATILE.value}
    file_by_label = {n[1]: i for i, n in sn.nodes.items() if n[0] == "file" and not n[3] and i in sn.files}
    return sorted(str(t) for t in targets if file_by_label.get(str(t)) is not None
                  and sn.files[file_by_label[str(t)]][0] in bad_states)


def rc_model_line(sn, thr, draining, mt, md, gw, ge, it=0) -> str:
    rows = []
    for i, n in sorted(sn.nodes.items()):
        if n[0] != "step" or i not in sn.steps:
            continue
        s = sn.steps[i]
        rows.append(f"{StepState(s['state']).name}:{Need(s['_implied_need']).name}:{int(n[3])}")
    return (f"c19 rc {Need(thr).name} {int(draining)} {mt} {md} {gw} {ge} {it} " + (",".join(rows) or "."))


# ---------------------------------------------------------------------------------------------
# The pending analysis: real tables, model request, from-scratch reference
# ---------------------------------------------------------------------------------------------

PEND_TABLES = ("pend_step", "pend_file_block", "pend_dead_file", "pend_unsafe_anc", "pend_resource",
               "pend_step_block", "pend_seed", "pend_blocker", "pend_attributed")


def run_real_analysis(wf):
    """`_analyze_pending` with its scratch tables kept; call inside a transaction."""
    import stepup.core.pending as P

    calls = {"n": 0}
    real_drop = P._drop_pend_tables

    def fake_drop(db):
        calls["n"] += 1
        if calls["n"] == 1:
            real_drop(db)

    P._drop_pend_tables = fake_drop
    try:
        summary, totals = P._analyze_pending(wf)
    finally:
        P._drop_pend_tables = real_drop
    tables = None
    if calls["n"] > 0:
        db = wf.db
        try:
            tables = {name: db.execute(f"SELECT * FROM {name}").fetchall() for name in PEND_TABLES}
            failed = StepState.FAILED.value
            tables["producers"] = db.execute(
                "SELECT pdep.sink, prod.i, prod.label, COALESCE(pstep.state = ?, 0) FROM dependency AS pdep "
                "JOIN node AS prod ON prod.i = pdep.source AND prod.kind = 'step' "
                "LEFT JOIN step AS pstep ON pstep.node = prod.i "
                "WHERE pdep.sink IN (SELECT src_file FROM pend_file_block)", (failed,)).fetchall()
            tables["anc"] = db.execute(
                "SELECT pua.dst_step, pua.anc, n.label, COALESCE(s.state = ?, 0) FROM pend_unsafe_anc AS pua "
                "JOIN node AS n ON n.i = pua.anc LEFT JOIN step AS s ON s.node = pua.anc", (failed,)).fetchall()
            tables["resblock"] = db.execute(
                "SELECT req.node, pr.id, pr.name FROM step_resource AS req JOIN pend_resource AS pr ON pr.name = req.name "
                "LEFT JOIN available_resource AS avail ON avail.name = req.name "
                "WHERE req.node IN (SELECT i FROM pend_step) AND (avail.name IS NULL OR avail.units < req.units)"
            ).fetchall()
        finally:
            real_drop(db)
    return summary, totals, tables


def opt_hex(x):
    return "~" if x is None else hexs(x)


def pend_model_line(t) -> str:
    def lst(items):
        items = list(items)
        return ",".join(items) if items else "."

    steps = lst(f"{i}:{hexs(label)}:{int(bool(u))}:{int(bool(d))}" for i, label, u, d in t["pend_step"])
    fb = lst(f"{f}:{d}" for f, d in t["pend_file_block"])
    dead = lst(f"{i}:{hexs(label)}" for i, label, _, _ in t["pend_dead_file"])
    prods = lst(f"{f}:{s}:{hexs(label)}:{int(bool(x))}" for f, s, label, x in t["producers"])
    ancs = lst(f"{d}:{a}:{hexs(label)}:{int(bool(x))}" for d, a, label, x in t["anc"])
    res = lst(f"{s}:{r}:{hexs(name)}" for s, r, name in t["resblock"])
    froots = lst(str(i) for i, *_ in sorted(t["pend_dead_file"]))
    rroots = lst(str(r[0]) for r in sorted(t["pend_resource"]))
    return f"c19 pend {steps} {fb} {dead} {prods} {ancs} {res} {froots} {rroots}"


def pend_real_answer(summary, totals, t) -> str:
    def lst(items):
        items = list(items)
        return ",".join(items) if items else "."

    blk = lst(f"{d}:{k}:{s}" for d, k, s in sorted(t["pend_blocker"]))
    att = lst(f"{i}:{k}:{r}" for i, k, r in sorted(t["pend_attributed"]))
    tot = lst(f"{k}:{n}" for k, n in sorted(totals.items()) if n)

    def bucket(name, b):
        return f"{name}:{b.nblocked}:{opt_hex(b.example)}"

    buckets = ";".join([bucket("failed", summary.failed), bucket("cyclic", summary.cyclic),
                        bucket("deferred", summary.deferred), bucket("other", summary.other),
                        bucket("runnable", summary.runnable)])
    fid = {label: i for i, label, _, _ in t["pend_dead_file"]}
    rid = {r[1]: r[0] for r in t["pend_resource"]}
    inputs = lst(f"{i}:{n}" for i, n in sorted((fid[row.path], row.nblocked) for row in summary.inputs))
    res = lst(f"{i}:{n}" for i, n in sorted((rid[row.name], row.nblocked) for row in summary.resources))
    return (f"blk={blk} att={att} tot={tot} {buckets} "
            f"inputs={inputs};{summary.ninputs_hidden};{summary.ninputs_hidden_blocked} "
            f"res={res};{summary.nresources_hidden};{summary.nresources_hidden_blocked}")


def reference_analysis(sn, thr, avail):
    """The analysis from its definitions, in plain Python, on a snapshot of the tables."""
    P, F = StepState.PENDING.value, StepState.FAILED.value
    ACTIVE = (StepState.RUNNING.value, StepState.SUCCEEDED.value)
    U = [i for i in attached_steps(sn) if sn.steps[i]["state"] == P and sn.steps[i]["_implied_need"] > thr]
    inU = set(U)
    label = {i: sn.nodes[i][1] for i in sn.nodes}

    def is_step(i):
        return i in sn.nodes and sn.nodes[i][0] == "step"

    blocking = {}
    for s in U:
        deferred = bool(sn.steps[s]["deferred"])
        bl = set()
        for d, src in sn.sources(s):
            if sn.nodes[src][0] != "file" or src not in sn.files:
                continue
            st = sn.files[src][0]
            if koracles.input_blocks(sn, d, src) or (
                    deferred and d in sn.dyn and st not in (FileState.CONFIRMED.value, FileState.BUILT.value)):
                bl.add(src)
        blocking[s] = bl
    producers = {}
    for f in set().union(*blocking.values()) if blocking else set():
        producers[f] = [p for _, p in sn.sources(f) if is_step(p)]

    def failed(p):
        return p in sn.steps and sn.steps[p]["state"] == F

    dead = {f for f, ps in producers.items() if not any(p in inU or failed(p) for p in ps)}

    def unsafe(s):
        r = sn.steps[s]
        return not (r["_safe"] or (r["_has_hash"] and r["_safe_ignoring_hold"]))

    anc = {}
    for s in U:
        if not unsafe(s):
            continue
        cur, guard = sn.nodes[s][2], 0
        while cur is not None and cur in sn.steps and is_step(cur) and guard <= len(sn.nodes):
            r = sn.steps[cur]
            if r["state"] in ACTIVE and r["_holding"] == 0:
                cur = sn.nodes[cur][2]
                guard += 1
                continue
            anc[s] = cur
            break
    unsat = {}
    for s in U:
        for name, units in sn.resources.get(s, {}).items():
            if avail is None or name not in avail or avail[name] < units:
                unsat.setdefault(s, []).append(name)
    cands = {}
    for s in U:
        c = []
        for f in blocking[s]:
            if f in dead:
                c.append((0, label[f].encode("utf-8", "surrogatepass"), ("file", f)))
            for p in producers[f]:
                if failed(p):
                    c.append((2, label[p].encode("utf-8", "surrogatepass"), ("step", p)))
                if p in inU:
                    c.append((6, label[p].encode("utf-8", "surrogatepass"), ("step", p)))
        for name in unsat.get(s, []):
            c.append((1, name.encode("utf-8", "surrogatepass"), ("res", name)))
        if s in anc:
            a = anc[s]
            if failed(a):
                c.append((2, label[a].encode("utf-8", "surrogatepass"), ("step", a)))
            elif a not in inU:
                c.append((4, b"", ("step", a)))
            if a in inU:
                c.append((6, label[a].encode("utf-8", "surrogatepass"), ("step", a)))
        if sn.steps[s]["deferred"] and not blocking[s]:
            c.append((3, b"", ("step", s)))
        cands[s] = c
    return {"U": U, "blocking": blocking, "dead": dead, "anc": anc, "unsat": unsat, "cands": cands, "label": label}


def check_analysis(ctx, sn, thr, avail, summary, totals, t, where: dict, legal: bool = True):
    """Compare what `_analyze_pending` did with the reference; report findings."""
    st = ctx.stats
    ref = reference_analysis(sn, thr, avail)
    U = ref["U"]

    def report(sig, what, **detail):
        ctx.finding(Finding(PID, sig, what, {**detail, **where}))

    if summary.ntotal != len(U):
        report("ntotal-differs", f"ntotal={summary.ntotal} but {len(U)} attached PENDING steps exceed the threshold",
               universe=[ref["label"][i] for i in U])
        return
    st.count("oracle-analyses")
    if not U:
        return
    if t is None:
        report("analysis-tables-missing", "the analysis produced no scratch tables for a non-empty universe")
        return
    st.count("oracle-pending-steps", len(U))
    # base relations
    got_u = sorted(r[0] for r in t["pend_step"])
    if got_u != sorted(U):
        report("base-relation-mismatch:pend_step", "pend_step is not the set of attached PENDING steps above the threshold",
               got=got_u, want=sorted(U))
        return
    want_fb = sorted((f, s) for s, fs in ref["blocking"].items() for f in fs)
    if sorted(t["pend_file_block"]) != want_fb:
        report("base-relation-mismatch:pend_file_block", "pend_file_block differs from the blocking inputs by definition",
               got=sorted(t["pend_file_block"]), want=want_fb, labels={i: ref["label"][i] for i in sn.files})
        return
    if sorted(r[0] for r in t["pend_dead_file"]) != sorted(ref["dead"]):
        report("base-relation-mismatch:pend_dead_file", "pend_dead_file differs from the dead-end files by definition",
               got=sorted(ref["label"][r[0]] for r in t["pend_dead_file"]),
               want=sorted(ref["label"][f] for f in ref["dead"]))
        return
    if sorted((d, a) for d, a in t["pend_unsafe_anc"]) != sorted(ref["anc"].items()):
        report("base-relation-mismatch:pend_unsafe_anc",
               "pend_unsafe_anc differs from the nearest chain-broken ancestor by definition",
               got=sorted(t["pend_unsafe_anc"]), want=sorted(ref["anc"].items()))
        return
    want_res = sorted({n for names in ref["unsat"].values() for n in names})
    if sorted(r[1] for r in t["pend_resource"]) != want_res:
        report("base-relation-mismatch:pend_resource", "pend_resource differs from the unsatisfiable resources",
               got=sorted(r[1] for r in t["pend_resource"]), want=want_res)
        return
    rname = {r[0]: r[1] for r in t["pend_resource"]}
    # exactly one primary blocker, a true one of the best kind
    blocker = {}
    for d, k, s in t["pend_blocker"]:
        if d in blocker:
            report("two-primary-blockers", f"step '{ref['label'].get(d)}' has two rows in pend_blocker")
            return
        blocker[d] = (k, s)
    if sorted(blocker) != sorted(U):
        report("blocker-not-total", "pend_blocker does not hold exactly the steps of the universe",
               missing=[ref["label"][i] for i in U if i not in blocker])
        return
    for s in U:
        k, src = blocker[s]
        c = ref["cands"][s]
        st.count("oracle-blocker-" + ROOT_KINDS.get(k, str(k)))
        if not c:
            if k != 5 or src != s:
                report("blocker-wrong", f"'{ref['label'][s]}' has no candidate blocker but is filed under "
                       f"{ROOT_KINDS.get(k, k)}", step=ref["label"][s])
                return
            continue
        best = min(c, key=lambda x: (x[0], x[1], x[2][1] if x[2][0] != "res" else 0))
        kinds = {x[0] for x in c}
        if k != min(kinds):
            report("blocker-wrong-kind", f"'{ref['label'][s]}' is filed under {ROOT_KINDS.get(k, k)} although a cause of "
                   f"kind {ROOT_KINDS[min(kinds)]} applies", step=ref["label"][s],
                   candidates=[(ROOT_KINDS[x[0]], x[1].decode("utf-8", "replace")) for x in c])
            return
        ident = ("res", rname.get(src)) if k == 1 else (("file", src) if k == 0 else ("step", src))
        if not any(x[0] == k and x[2] == ident for x in c):
            report("blocker-not-a-cause", f"the primary blocker of '{ref['label'][s]}' ({ROOT_KINDS.get(k, k)} {ident}) "
                   "is not a cause by definition", step=ref["label"][s],
                   candidates=[(ROOT_KINDS[x[0]], x[1].decode("utf-8", "replace")) for x in c])
            return
        if (best[0], best[1]) != (k, next(x[1] for x in c if x[0] == k and x[2] == ident)):
            report("blocker-tie-break", f"'{ref['label'][s]}': the primary blocker is not the first by (kind, label)",
                   step=ref["label"][s])
            return
    # attribution by following the chain
    expect = {}
    for s in U:
        seen, cur = set(), s
        while True:
            if cur in seen:
                expect[s] = None
                break
            seen.add(cur)
            k, src = blocker[cur]
            if k != 6:
                expect[s] = (k, src)
                break
            cur = src
    got = {}
    for i, k, r in t["pend_attributed"]:
        if i in got:
            report("attributed-twice", f"step '{ref['label'].get(i)}' is attributed to two roots")
            return
        got[i] = (k, r)
    for s in U:
        if expect[s] != got.get(s):
            report("attribution-wrong", f"'{ref['label'][s]}' should be "
                   f"{'cyclic' if expect[s] is None else ROOT_KINDS[expect[s][0]]} but the walk says "
                   f"{'cyclic' if s not in got else ROOT_KINDS.get(got[s][0], got[s][0])}", step=ref["label"][s])
            return
    ncyc = sum(1 for s in U if expect[s] is None)
    st.count("oracle-cyclic-steps", ncyc)
    if sum(totals.values()) + summary.cyclic.nblocked != summary.ntotal:
        report("counts-do-not-add-up", f"attributed {sum(totals.values())} + cyclic {summary.cyclic.nblocked} != "
               f"ntotal {summary.ntotal}")
        return
    want_bucket = {k: sorted(ref["label"][s] for s in U if expect[s] is not None and expect[s][0] == k) for k in range(6)}
    for k, b in ((2, summary.failed), (3, summary.deferred), (4, summary.other), (5, summary.runnable)):
        names = want_bucket[k]
        ex = min(names, key=lambda x: x.encode("utf-8", "surrogatepass")) if names else None
        if (b.nblocked, b.example) != (len(names), ex):
            report("bucket-wrong", f"bucket {ROOT_KINDS[k]} reports {b.nblocked} (e.g. {b.example}), by definition "
                   f"{len(names)} (e.g. {ex})")
            return
    if summary.cyclic.nblocked != ncyc:
        report("bucket-wrong", f"cyclic bucket reports {summary.cyclic.nblocked}, the chains give {ncyc}")
        return
    shown_f = sum(1 for _ in summary.inputs)
    if shown_f + summary.ninputs_hidden != len(ref["dead"]) or \
            len(summary.resources) + summary.nresources_hidden != len(want_res):
        report("hidden-rows-wrong", "displayed + hidden rows differ from the number of roots")
        return
    # exact counts: steps reachable from the root through the full blocking relation
    edges = {}
    for s in U:
        for x in ref["cands"][s]:
            if x[0] == 6:
                edges.setdefault(x[2][1], set()).add(s)

    def closure(seed):
        seen, todo = set(seed), list(seed)
        while todo:
            for nxt in edges.get(todo.pop(), ()):
                if nxt not in seen:
                    seen.add(nxt)
                    todo.append(nxt)
        return seen

    fid = {r[1]: r[0] for r in t["pend_dead_file"]}
    for row in summary.inputs:
        f = fid.get(row.path)
        want = len(closure([s for s in U if f in ref["blocking"][s]]))
        if row.nblocked != want or row.state.value != sn.files[f][0] or row.detached != sn.nodes[f][3]:
            report("input-row-wrong", f"Unavailable input {row.path}: shown {row.nblocked} {row.state.name}, by definition "
                   f"{want} {FileState(sn.files[f][0]).name}")
            return
    for row in summary.resources:
        users = [s for s in U if row.name in ref["unsat"].get(s, [])]
        want = len(closure(users))
        need = max(sn.resources[s][row.name] for s in users) if users else None
        have = None if avail is None else avail.get(row.name)
        if (row.nblocked, row.units_needed, row.units_available) != (want, need, have):
            report("resource-row-wrong", f"Insufficient resource {row.name}: shown {row.nblocked}/{row.units_needed}/"
                   f"{row.units_available}, by definition {want}/{need}/{have}")
            return
    if legal and totals.get(5, 0) and where.get("phase_ended_normally"):
        st.count("oracle-runnable-left-after-normal-end", totals.get(5, 0))


# ---------------------------------------------------------------------------------------------
# Leftover graphs from kernel request sequences
# ---------------------------------------------------------------------------------------------


async def examine_workflow(ctx, wf, sched, draining: bool, exists, where: dict, lines: list, expect: list,
                           do_oracle: bool, legal: bool = True):
    """One leftover graph: real report + real analysis; model requests are appended to `lines`
    with the implementation's answer in `expect`; the oracle checks are run when `do_oracle`."""
    from stepup.core.finalize import report_unbuilt

    thr = wf.need_threshold.value
    async with wf.db:
        sn = koracles.Snapshot(wf)
        gw, ge, _ = glob_violations(wf.db, sn, exists)
        mt, md = missing_targets(sn, wf.targets, wf.target_dirs)
        it = len(invalid_targets_at_end(sn, wf.targets))
    old = sched.draining
    sched.draining = draining
    rep = RecReporter()
    try:
        rc = await report_unbuilt(wf, sched, rep)
    finally:
        sched.draining = old
    msgs = report_messages(rep.events)
    lines.append(rc_model_line(sn, thr, draining, mt, md, gw, ge, it))
    if it:
        ctx.stats.count("rc-with-invalid-target" + ("-draining" if draining else ""))
    expect.append((f"{rc.value} {','.join(msgs) or '-'}", "rc", where))
    key = (rc.value, tuple(m.split(":")[0] for m in msgs))
    ctx.stats.case(("rc",) + key + (len(attached_steps(sn)),), nontrivial=True)
    ctx.stats.count("rc=" + (repr(rc).split(".")[-1].split(":")[0] if rc.value else "0"))
    if do_oracle:
        check_rc_against_tables(ctx, sn, thr, draining, rc.value, gw, ge, mt, md, False, where, it=it)
    async with wf.db:
        try:
            summary, totals, t = run_real_analysis(wf)
        except Exception as exc:  # noqa: BLE001
            ctx.finding(Finding(PID, "analysis-raises", f"_analyze_pending raised {type(exc).__name__}: {exc}", where))
            return
    if t is not None:
        lines.append(pend_model_line(t))
        expect.append((pend_real_answer(summary, totals, t), "pend", where))
        shape = (len(t["pend_step"]), tuple(sorted(totals.items())), summary.cyclic.nblocked,
                 len(t["pend_dead_file"]), len(t["pend_resource"]))
        ctx.stats.case(("pend",) + shape, nontrivial=len(t["pend_step"]) > 1)
        for k, n in totals.items():
            ctx.stats.count("attributed-" + ROOT_KINDS.get(k, str(k)), n)
        ctx.stats.count("attributed-CYCLIC", summary.cyclic.nblocked)
    if do_oracle:
        check_analysis(ctx, sn, thr, sn.avail, summary, totals, t, where, legal)
        check_printed_report(ctx, rep.events, summary, where)


def check_printed_report(ctx, events, summary, where):
    """The printed end-of-build summary (what the user reads) against the `PendingSummary` it was made
    from: every shown cause appears on its page with its count, and the printed counts add up to the
    number in the headline (exactly when no remainder row hides a lower bound)."""
    import re as _re

    shown = [(text, pages or []) for tag, text, pages in events
             if tag == "WARNING" and text.endswith("step(s) remained pending.")]

    def report(sig, what, **detail):
        ctx.finding(Finding(PID, sig, what, {**where, **detail,
                                              "printed": [[t, [list(p) for p in pg]] for t, pg in shown]}))

    if summary.ntotal == 0 or not shown:
        return
    ctx.stats.count("printed-reports-checked")
    text, pages = shown[-1]
    title_n = int(text.split()[0])
    if title_n != summary.ntotal:
        report("printed-total-differs", f"the headline says {title_n} pending steps, the summary has {summary.ntotal}")
    by_title = {}
    for title, body in pages:
        by_title.setdefault(title, []).extend(body.split("\n"))
    printed_sum = 0
    lower_bound = False

    def count_of(line):
        m = _re.search(r"(≥ )?(\d+) step\(s\)$", line)
        return (None, False) if m is None else (int(m.group(2)), m.group(1) is not None)

    for title, rows, nhidden, key in (("Unavailable inputs", summary.inputs, summary.ninputs_hidden, lambda r: r.path),
                                      ("Insufficient resources", summary.resources, summary.nresources_hidden,
                                       lambda r: r.name + ":")):
        lines = by_title.get(title, [])
        if (rows or nhidden) and not lines:
            report("printed-report-omits-cause", f"the summary has {len(rows)} row(s) for '{title}' "
                   f"({sum(r.nblocked for r in rows)} steps) but the printed report has no such page", page=title)
            continue
        for r in rows:
            hit = [ln for ln in lines if key(r) in ln and count_of(ln) == (r.nblocked, False)]
            if not hit:
                report("printed-report-omits-cause", f"'{title}' does not show {key(r)!r} with {r.nblocked} step(s)",
                       page=title, row=key(r))
        for ln in lines:
            n, lb = count_of(ln)
            if n is not None:
                printed_sum += n
                lower_bound |= lb
            elif "... and" in ln:
                lower_bound = True
    other = by_title.get("Other reasons", [])
    for name in ("failed", "cyclic", "deferred", "other", "runnable"):
        b = getattr(summary, name)
        if b.nblocked and not any(ln.startswith(f"{b.nblocked} step(s)") for ln in other):
            report("printed-report-omits-cause", f"'Other reasons' has no line for the {b.nblocked} {name} step(s)",
                   page="Other reasons", bucket=name)
    for ln in other:
        m = _re.match(r"(\d+) step\(s\)", ln)
        if m:
            printed_sum += int(m.group(1))
    if printed_sum > title_n:
        # The rows of the two tables show *exact* counts ("pending steps this file transitively blocks",
        # verified against their definition by `check_analysis`), so a step behind several dead-end
        # inputs or resources is counted in each of their rows: the partition into exactly one cause
        # exists only in the attribution that is not printed (`attributed_totals`).
        report("summary-counts-overlap:step-behind-several-roots",
               f"the printed causes account for {printed_sum} step(s), the headline says {title_n}: the rows count a step "
               "once per dead-end input / unsatisfiable resource that blocks it")
    elif not lower_bound and printed_sum != title_n:
        report("printed-counts-do-not-add-up", f"the printed causes account for {printed_sum} step(s), the headline "
               f"says {title_n}: some pending steps appear under no cause")


def check_rc_against_tables(ctx, sn, thr, draining, rc, gw, ge, mt, md, invalid_target, where, needs=None, it=0):
    """The property's statement about the exit status, on one leftover database."""
    F, W, P, D = (ReturnCode.FAILED.value, ReturnCode.WARNING.value, ReturnCode.PENDING.value,
                  ReturnCode.DRAINED.value)
    steps = attached_steps(sn)
    failed = [i for i in steps if sn.steps[i]["state"] == StepState.FAILED.value]
    if needs is None:
        needs = {i: sn.steps[i]["_implied_need"] for i in steps}
    req_pending = [i for i in steps if sn.steps[i]["state"] == StepState.PENDING.value and needs.get(i, 0) > thr]
    ctx.stats.count("oracle-exit-status-checked")

    def report(sig, what, **detail):
        ctx.finding(Finding(PID, sig, what, {"returncode": rc, **detail, **where}))

    if invalid_target:
        if rc != F:
            report("invalid-target-status", f"a rejected target must end the run with FAILED, got {rc}")
        return
    if bool(rc & D) != bool(draining):
        report("drained-bit", f"DRAINED bit is {bool(rc & D)} but draining was {draining}")
    clean_before_globs = not failed and not draining and not req_pending and mt == 0 and md == 0 and it == 0
    # a requested target that ended the phase as a static file or a volatile output is invalid (not looked at
    # while draining, like the other target checks)
    want_failed = bool(failed) or (not draining and it > 0) or (clean_before_globs and ge > 0)
    if bool(rc & F) != want_failed:
        report("failed-bit", f"FAILED bit is {bool(rc & F)}; attached FAILED steps: "
               f"{[sn.nodes[i][1] for i in failed]}, glob errors {ge}, otherwise clean: {clean_before_globs}")
    if not clean_before_globs and ge > 0 and not failed:
        ctx.stats.count("glob-error-not-looked-at (documented reading)")
    want_pending = (not draining) and bool(req_pending)
    if bool(rc & P) != want_pending:
        report("pending-bit", f"PENDING bit is {bool(rc & P)}; draining={draining}; required PENDING steps: "
               f"{[sn.nodes[i][1] for i in req_pending]}")
    settled = not any(sn.steps[i]["state"] in (StepState.RUNNING.value, StepState.CHECKING.value) for i in steps)
    if rc == 0:
        bad = [sn.nodes[i][1] for i in steps if needs.get(i, 0) > thr
               and sn.steps[i]["state"] != StepState.SUCCEEDED.value
               and (settled or sn.steps[i]["state"] in (StepState.PENDING.value, StepState.FAILED.value))]
        if bad or failed or gw or ge or mt or md or it or draining:
            report("zero-but-not-clean", f"exit status 0 although: unfinished required steps {bad}, failed "
                   f"{[sn.nodes[i][1] for i in failed]}, glob warnings/errors {gw}/{ge}, missing targets {mt}/{md}")
    elif not (rc & ~W) and not (gw or mt or md):
        report("warning-without-reason", "WARNING alone although no target is missing and no glob match is unjustified")


MENU_WEIGHTS = [("define", 20), ("static", 8), ("declstatic", 5), ("tree", 4), ("nglob", 6), ("amend", 10),
                ("recycle_under_glob", 2), ("confirm", 12), ("external", 6), ("pop", 18), ("run_step", 18),
                ("reset_rerun", 3), ("hold_release", 5), ("mark_pending", 2), ("end_phase", 2), ("restart", 3)]


@contextlib.contextmanager
def scratch_tree():
    """A directory in which about half of the kernel generator's paths exist (glob violations
    depend on the disk); the process works there while the kernel leftovers are examined."""
    import corr_kernel

    tmp = tempfile.mkdtemp(prefix="verif-c19-")
    old = os.getcwd()
    try:
        for k, p in enumerate(corr_kernel.PATHS):
            if k % 2 == 0:
                full = os.path.join(tmp, p)
                os.makedirs(os.path.dirname(full) or tmp, exist_ok=True)
                with open(full, "w") as fh:
                    fh.write("x")
        os.chdir(tmp)
        yield tmp
    finally:
        os.chdir(old)
        shutil.rmtree(tmp, ignore_errors=True)


def settle_with_glob_match(r, wf) -> str | None:
    """Make the graph one in which nothing is wrong but glob matches (correspondence and oracle of
    the glob arm of `report_unbuilt`): every attached step SUCCEEDED, and an attached step holds a
    registration whose recorded match is a file that an attached step builds (the state a recycled,
    skipped globbing step leaves when another step has meanwhile declared its match as an output).
    Executed inside a transaction; returns a description or None when the graph has no product."""
    import corr_kernel
    from stepup.core.nglob import NamedGlob
    from stepup.core.step import Step

    db = wf.db
    db.execute("UPDATE step SET deferred = 0")
    db.execute("UPDATE step SET state = ?", (StepState.SUCCEEDED.value,))
    products = [label for (label,) in db.execute(
        "SELECT node.label FROM node JOIN file ON file.node = node.i WHERE NOT node.detached AND file.state IN (?, ?, ?, ?)",
        (FileState.PLANNED.value, FileState.BUILT.value, FileState.OUTDATED.value, FileState.VOLATILE.value))]
    steps = [(i, label) for i, label in db.execute("SELECT i, label FROM node WHERE kind = 'step' AND NOT detached")]
    if not products or not steps or r.random() < 0.25:
        return "settled" if steps else None
    path = r.choice(sorted(products))
    patterns = [p for p in corr_kernel.PATTERNS if NamedGlob(p)._match_values(path) is not None] or ["**"]
    ng = NamedGlob(r.choice(patterns))
    ng.extend([path])
    if not list(ng.files()):
        return "settled"
    i, label = r.choice(sorted(steps))
    Step(wf, i, label).add_nglob(ng)
    return f"settled + glob {ng.pattern} of '{label}' records the product {path}"


def raw_mutation(r, wf):
    """Turn the state into what an interrupted or odd build could have left (correspondence only):
    steps that were running end FAILED or PENDING, some PENDING steps carry a deferred flag, cached
    safety columns are stale.  Executed inside a transaction."""
    db = wf.db
    P, R, S, F, C = (s.value for s in (StepState.PENDING, StepState.RUNNING, StepState.SUCCEEDED,
                                       StepState.FAILED, StepState.CHECKING))
    for (node, state) in db.execute("SELECT node, state FROM step").fetchall():
        x = r.random()
        if state in (R, C) and x < 0.8:
            db.execute("UPDATE step SET state = ? WHERE node = ?", (r.choice([F, P, P, S]), node))
            db.execute("DELETE FROM step_hash WHERE node = ? AND ? IN (?, ?)", (node, state, R, F))
        elif state == P and x < 0.25:
            db.execute("UPDATE step SET deferred = 1 WHERE node = ?", (node,))
        elif state == P and x < 0.4:
            db.execute("UPDATE step SET _safe = 0, _safe_ignoring_hold = ? WHERE node = ?", (r.choice([0, 1]), node))
        elif state == S and x < 0.15:
            db.execute("UPDATE step SET state = ? WHERE node = ?", (r.choice([F, P]), node))
            db.execute("DELETE FROM step_hash WHERE node = ?", (node,))


async def kernel_leftovers(ctx, nseq: int, nops: int, salt: str, do_model: bool, do_oracle: bool):
    import corr_kernel

    lines, expect = [], []
    with scratch_tree():
        for i in range(nseq):
            r = ctx.rng(salt, i)
            run_ = corr_kernel.KernelRun(r, exotic=False)
            fns = [getattr(run_, name) for name, w in MENU_WEIGHTS for _ in range(w)]
            async with contextlib.AsyncExitStack() as cm:
                await run_.reset(cm)
                await run_.define(boot=True)
                await run_.pop()
                tainted = False
                for k in range(nops):
                    await r.choice(fns)()
                    tainted = tainted or not all(run_.legal)
                    if k % 9 == 8 or k == nops - 1:
                        where = {"source": "kernel-sequence", "sequence_seed": [ctx.seed, salt, i], "after_request": k,
                                 "requests": [kcorr.decode_line(x) for x in run_.lines][-12:]}
                        await examine_workflow(ctx, run_.wf, run_.sched, r.random() < 0.3, os.path.exists, where,
                                               lines, expect, do_oracle, legal=not tainted)
                for m in range(3):
                    async with run_.wf.db:
                        raw_mutation(r, run_.wf)
                    where = {"source": "kernel-sequence+raw-mutation", "sequence_seed": [ctx.seed, salt, i],
                             "mutation_round": m}
                    # a requested target that is a static file or a volatile output by now (normally rejected earlier;
                    # reachable when the declaring plan is skipped): the report must call it invalid
                    saved_targets = run_.wf.targets
                    if r.random() < 0.5:
                        async with run_.wf.db:
                            cands = [l for (l,) in run_.wf.db.execute(
                                "SELECT label FROM node JOIN file ON file.node = node.i WHERE NOT detached AND file.state IN (?,?,?,?)",
                                (FileState.CONFIRMED.value, FileState.MISSING.value, FileState.UNCONFIRMED.value,
                                 FileState.VOLATILE.value))]
                        if cands:
                            run_.wf.targets = type(saved_targets)([*saved_targets, *r.sample(cands, min(len(cands), r.randint(1, 2)))])
                            where["extra_targets"] = sorted(set(map(str, run_.wf.targets)) - set(map(str, saved_targets)))
                    # unreachable states: the reference still defines every relation, so the oracle applies
                    try:
                        await examine_workflow(ctx, run_.wf, run_.sched, r.random() < 0.3, os.path.exists, where,
                                               lines, expect, do_oracle, legal=False)
                    finally:
                        run_.wf.targets = saved_targets
                async with run_.wf.db:
                    desc = settle_with_glob_match(r, run_.wf)
                if desc is not None:
                    ctx.stats.count("kernel-settled-graphs" + ("-with-glob-on-product" if "records" in desc else ""))
                    where = {"source": "kernel-sequence+settled", "sequence_seed": [ctx.seed, salt, i],
                             "how": "after the sequence every step row is set SUCCEEDED; " + desc}
                    await examine_workflow(ctx, run_.wf, run_.sched, False, os.path.exists, where, lines, expect,
                                           do_oracle, legal=False)
            ctx.stats.programs += 1
    if do_model:
        compare_with_model(ctx, lines, expect)
    return len(lines)


def compare_with_model(ctx, lines, expect):
    if not lines:
        return
    answers = common.run_driver(lines)
    for line, ans, (want, kind, where) in zip(lines, answers, expect):
        ctx.stats.count(f"model-{kind}-requests")
        if ans != want:
            ctx.disagree(f"c19:{kind}", {"request": line[:3000], **where}, ans[:3000], want[:3000])
    if lines:
        ctx.stats.sample({"request": lines[0][:300], "answer": answers[0][:300]})
        ctx.stats.sample({"request": lines[-1][:300], "answer": answers[-1][:300]})


# ---------------------------------------------------------------------------------------------
# Leftover graphs from simulated builds
# ---------------------------------------------------------------------------------------------


def gen_glob_product_case(r):
    """Build 1: `x.txt` is static and a step's glob("*.txt") records it. Then the plan is edited: `x.txt`
    becomes the output of a new step declared before the unchanged globbing step. In build 2 the globbing
    step is detached while the output is declared, then recycled and skipped with its match intact: only
    the end-of-build validation sees that a pattern matches a file a step builds."""
    from simdirector import A, Project

    name = r.choice(["x.txt", "notes.txt", "gen/x.txt"])
    pattern = "*.txt" if "/" not in name else "gen/*.txt"
    extra = [A.static("src/a.txt"), A.step("cc", inp=["src/a.txt"], out=["out/a.o"])] if r.random() < 0.6 else []
    globber = A.step("globber", inp=[], out=["out/list.out"])
    plan1 = [A.static(name), *extra, globber]
    plan2 = [A.step("mkx", inp=[], out=[name]), *extra, globber]
    files = {name: "hand written\n", "src/a.txt": "a\n"}
    project = Project(scripts={"./plan.py": plan1, "globber": [A.glob(pattern), A.write_declared()]}, files=files, env={})
    opts = {"njob": r.randint(1, 2), "keep_going": r.random() < 0.5}
    return project, opts, [("script", "./plan.py", plan2)]


def gen_sim_case(r):
    """A project with things that go wrong, the build options and what was put in."""
    import projgen
    from simdirector import A

    invalid = r.choice([None, None, None, "missing", "missing", "cycle", "conflict"])
    model = projgen.gen_model(r, invalid=invalid, fail_prob=r.choice([0.0, 0.15, 0.35]))
    project = projgen.render(model)
    plan = project.scripts["./plan.py"]
    feats = []
    if r.random() < 0.35:  # a dynamic cycle: two steps that amend each other's output
        feats.append("dyncycle")
        plan.append(A.step("cyc a", inp=[], out=["out/cyc_a.txt"]))
        plan.append(A.step("cyc b", inp=[], out=["out/cyc_b.txt"]))
        project.scripts["cyc a"] = [A.amend(inp=["out/cyc_b.txt"]), A.read("out/cyc_b.txt"), A.write_declared()]
        project.scripts["cyc b"] = [A.amend(inp=["out/cyc_a.txt"]), A.read("out/cyc_a.txt"), A.write_declared()]
        if r.random() < 0.5:
            plan.append(A.step("after cyc", inp=["out/cyc_a.txt"], out=["out/after_cyc.txt"]))
    if r.random() < 0.35:  # a resource nobody provides / provides enough of
        feats.append("resource")
        plan.append(A.step("big job", inp=[], out=["out/big.txt"], resources={"gpu": r.choice([1, 3])}))
        if r.random() < 0.5:
            plan.append(A.step("after big", inp=["out/big.txt"], out=["out/after_big.txt"]))
    if r.random() < 0.25:  # a step that amends a file nobody declares
        feats.append("amend-undeclared")
        plan.append(A.step("wants extra", inp=[], out=["out/wants.txt"]))
        project.scripts["wants extra"] = [A.amend(inp=["src/never.txt"]), A.read("src/never.txt"), A.write_declared()]
    if r.random() < 0.25:  # a failing step below a sub-plan-like step that defines work, then fails
        feats.append("failing-planner")
        plan.append(A.step("planner x", inp=[], plan=True))
        project.scripts["planner x"] = [A.step("child x1", inp=[], out=["out/x1.txt"]),
                                        A.step("child x2", inp=["out/x1.txt"], out=["out/x2.txt"]),
                                        A.exit(1) if r.random() < 0.6 else A.nop()]
    if r.random() < 0.2:  # a glob that matches a file a step builds later (reported as an error when clean)
        feats.append("glob-on-output")
        plan.insert(0, A.glob("out/*.txt"))
    if r.random() < 0.2:
        feats.append("glob-unjustified")
        plan.append(A.glob("src/*.txt"))
        project.files["src/stray.txt"] = "stray\n"
    if r.random() < 0.15:  # more root causes than the report ranks or shows: dead-end inputs and missing resources
        feats.append("many-roots")
        for i in range(r.randint(21, 34)):
            if r.random() < 0.75:
                plan.append(A.step(f"wants {i}", inp=[f"src/missing_{i}.txt"], out=[f"out/m{i}.txt"]))
            else:
                plan.append(A.step(f"needs {i}", inp=[], out=[f"out/m{i}.txt"], resources={f"unit{i}": 1}))
    project.files["plan.py"] = __import__("simdirector").plan_file(plan, note="c19")
    opts = {"njob": r.randint(1, 3), "keep_going": r.random() < 0.5}
    res = []
    if model.resources and r.random() < 0.85:
        res.append(model.resources if r.random() < 0.8 else "cpu:1")
    if "resource" in feats and r.random() < 0.5:
        res.append("gpu:1")
    if res:
        opts["resources"] = ",".join(res)
    outs = sorted({o for s in model.steps for o in s.out})
    k = r.random()
    if k < 0.2 and outs:
        opts["targets"] = [r.choice(outs)]
    elif k < 0.3:
        opts["targets"] = ["out/"]
    elif k < 0.36:
        opts["targets"] = ["out/nothing_builds_this.txt"]
    elif k < 0.42 and model.static:
        opts["targets"] = [sorted(model.static)[0]]  # a static file: rejected by reconcile_targets
    elif k < 0.46:
        opts["targets"] = ["nowhere/"]
    return project, opts, feats, invalid


async def open_copy(db_bytes_dir: str, targets, target_dirs, resources):
    """Workflow + Scheduler on a private copy of a director's database."""
    from stepup.core.scheduler import Scheduler
    from stepup.core.sqlite3 import DBSession
    from stepup.core.workflow import Workflow

    stack = contextlib.ExitStack()
    db = stack.enter_context(DBSession.open(os.path.join(db_bytes_dir, "graph.db")))
    wf = Workflow(db, dir_queue=None, targets=targets, target_dirs=target_dirs)
    await wf.initialize()
    sched = Scheduler(wf, db=db)
    await sched.initialize(resources)
    return stack, wf, sched


def copy_db(sim) -> str | None:
    src = os.path.join(sim.root, ".stepup", "graph.db")
    if not os.path.exists(src):
        return None
    tmp = tempfile.mkdtemp(prefix="verif-c19-db-")
    for suffix in ("", "-wal"):
        if os.path.exists(src + suffix):
            shutil.copyfile(src + suffix, os.path.join(tmp, "graph.db" + suffix))
    return tmp


def examine_build(ctx, sim, result, opts, where, lines, expect, do_oracle):
    """After one simulated build phase: the exit status against the final database, and the
    pending analysis on a copy of it."""
    from path import Path

    if result.status != "done" or result.returncode is None:
        ctx.stats.count(f"sim-status-{result.status}")
        if result.status == "error" and do_oracle:
            # the director raised: the process would exit with a traceback and status 1 (INTERNAL), which says
            # nothing true about the build
            last = (result.error or "").strip().splitlines()[-1:] or [""]
            ctx.finding(Finding(PID, "director-error" + (":" + where["directed"] if where.get("directed") else ""),
                                f"the simulated director raised: {last[0][:200]}", where))
        if result.status == "hang" and do_oracle:
            ctx.finding(Finding(PID, f"build-{result.status}", f"the simulated director ended with {result.status}: "
                                f"{(result.error or '')[-300:]}", where))
        return
    rc = result.returncode.value
    targets = [t for t in opts.get("targets", ()) if not t.endswith("/")]
    tdirs = [t for t in opts.get("targets", ()) if t.endswith("/")]
    thr = threshold_of(targets, tdirs)
    msgs = report_messages(result.events)
    draining = "draining" in msgs
    invalid_target = (any(tag == "ERROR" and text.startswith("Invalid build target") for tag, text, _ in result.events)
                      and not any(tag == "PHASE" for tag, _, _ in result.events))  # rejected before any build phase
    tmp = copy_db(sim)
    if tmp is None:
        return
    try:
        con = sqlite3.connect(os.path.join(tmp, "graph.db"))
        try:
            sn = koracles.Snapshot(Shim(con, targets, tdirs))
            gw, ge, grec = glob_violations(con, sn, lambda p: os.path.exists(os.path.join(sim.root, p)))
        finally:
            con.close()
        mt, md = missing_targets(sn, targets, tdirs)
        bad_targets = invalid_targets_at_end(sn, targets)
        if do_oracle and bad_targets and not (rc & ReturnCode.FAILED.value):
            mech = ":declaring-plan-skipped" if where.get("directed") == "invalid-target-skipped-plan" else ""
            ctx.finding(Finding(PID, "invalid-target-not-failed" + mech,
                                f"the requested target(s) {bad_targets} are static or volatile files (invalid targets) "
                                f"but the exit status {rc} has no FAILED bit",
                                {"targets": bad_targets, "returncode": rc, **where}))
        needs = koracles.implied_need_spec(sn)
        ctx.stats.case(("sim-rc", rc, tuple(m.split(":")[0] for m in msgs), tuple(where.get("features", ()))),
                       nontrivial=rc != 0)
        ctx.stats.count("sim-rc=" + (repr(ReturnCode(rc)).split(".")[-1].split(":")[0] if rc else "0"))
        if do_oracle:
            # the cleanup pass (only after a complete build) does not touch what the status speaks about,
            # except that a glob match it removed from disk is no longer a warning: use the reported count
            rep_gw = next((int(m.split(":")[1]) for m in msgs if m.startswith("globwarn:")), 0)
            rep_ge = next((int(m.split(":")[1]) for m in msgs if m.startswith("globerr:")), 0)
            if (rc & ~ReturnCode.WARNING.value) == 0 and rep_gw != gw:
                ctx.stats.count("glob-warnings-recounted-after-cleanup")
                gw = rep_gw
            check_rc_against_tables(ctx, sn, thr, draining, rc, gw, ge if rep_ge or ge else 0, mt, md,
                                    invalid_target, {**where, "events": [m for m in msgs]}, needs=needs,
                                    it=len(bad_targets))
            stale = [sn.nodes[i][1] for i in attached_steps(sn)
                     if not draining and sn.steps[i]["_implied_need"] != needs[i]
                     and sn.steps[i]["state"] == StepState.PENDING.value
                     and (sn.steps[i]["_implied_need"] > thr) != (needs[i] > thr)]
            if stale and not invalid_target:
                ctx.finding(Finding(PID, "required-by-definition-differs-from-cache",
                                    f"at the end of a phase that did not drain, steps {stale} are PENDING and their cached "
                                    "_implied_need is on the other side of the threshold than the need by definition",
                                    {"steps": stale, **where}))
            if rc == 0:
                missing_out = []
                for i in attached_steps(sn):
                    if needs.get(i, 0) > thr:
                        for _, f in sn.sinks(i):
                            if sn.nodes[f][0] == "file" and not sn.nodes[f][3] and \
                                    sn.files[f][0] != FileState.VOLATILE.value and sn.nodes[f][1] not in result.files:
                                missing_out.append(sn.nodes[f][1])
                if missing_out:
                    ctx.finding(Finding(PID, "zero-but-output-missing", f"exit status 0 but outputs {missing_out} of "
                                        "required steps are not on disk", {"outputs": missing_out, **where}))
        if invalid_target:
            return

        async def analyse():
            stack, wf, sched = await open_copy(tmp, [Path(t) for t in targets], [Path(t) for t in tdirs],
                                               opts.get("resources"))
            with stack:
                old = os.getcwd()
                os.chdir(sim.root)
                try:
                    await examine_workflow(ctx, wf, sched, draining, os.path.exists,
                                           {**where, "phase_ended_normally": not draining}, lines, expect, do_oracle)
                finally:
                    os.chdir(old)

        asyncio.run(analyse())
    finally:
        shutil.rmtree(tmp, ignore_errors=True)


def invalid_target_skipped_plan_case(ctx, do_oracle: bool):
    """A static file declared by a nested plan is requested as a target right after the top-level plan was edited:
    the startup check is skipped (a creator is pending) and the nested plan is skipped (unchanged), so nobody
    declares the file again.  The status must still say FAILED, as it does when the same command is repeated."""
    from simdirector import A, Project, SimDirector, plan_file

    nested = [A.static("legacy/table.csv")]
    plan = [A.static("legacy/plan.py"), A.step("./legacy/plan.py", inp=["legacy/plan.py"], plan=True)]
    project = Project(scripts={"./plan.py": plan, "./legacy/plan.py": nested},
                      files={"legacy/table.csv": "1,2\n", "legacy/plan.py": plan_file(nested, note="legacy"),
                             "plan.py": plan_file(plan, note="top")})
    lines, expect = [], []
    where = {"source": "simulated-build", "directed": "invalid-target-skipped-plan", "features": ["invalid-target-skipped-plan"]}
    with SimDirector(copy.deepcopy(project), seed=1) as sim:
        res = sim.build(njob=1)
        if res.status != "done":
            return
        sim.apply([("script", "./plan.py", plan, ""), ("write", "plan.py", plan_file(plan, note="top, edited"))])
        opts = {"njob": 1, "targets": ["legacy/table.csv"]}
        for phase in (1, 2):
            res = sim.build(**opts)
            ctx.stats.count("sim-directed-invalid-target-skipped-plan")
            examine_build(ctx, sim, res, opts, {**where, "phase": phase, "options": opts}, lines, expect, do_oracle)
            if res.status != "done":
                break
        if sim.session is not None:
            with contextlib.suppress(Exception):
                sim.shutdown()


def boot_target_case(ctx, do_oracle: bool):
    """`stepup build plan.py` (the boot script itself as the target), on a fresh project and on a resumed one:
    an invalid target, FAILED alone, never an internal error."""
    from simdirector import A, Project, SimDirector, plan_file

    plan = [A.static("src/a.txt"), A.step("copy a", inp=["src/a.txt"], out=["out/a.txt"])]
    project = Project(scripts={"./plan.py": plan, "copy a": [A.read_declared(), A.write_declared()]},
                      files={"src/a.txt": "a\n", "plan.py": plan_file(plan, note="boot")})
    lines, expect = [], []
    for first_build in (False, True):
        where = {"source": "simulated-build", "directed": "boot-script-as-target", "features": ["boot-script-as-target"],
                 "resumed": first_build}
        with SimDirector(copy.deepcopy(project), seed=2) as sim:
            if first_build and sim.build(njob=1).status != "done":
                continue
            opts = {"njob": 1, "targets": ["plan.py"]}
            res = sim.build(**opts)
            ctx.stats.count("sim-directed-boot-script-as-target")
            examine_build(ctx, sim, res, opts, {**where, "options": opts}, lines, expect, do_oracle)
            if do_oracle and res.status == "done" and res.returncode is not None and res.returncode.value != ReturnCode.FAILED.value:
                ctx.finding(Finding(PID, "invalid-target-status:boot-script-as-target",
                                    f"`stepup build plan.py` ends with {res.returncode!r}, expected FAILED alone", where))
            if sim.session is not None:
                with contextlib.suppress(Exception):
                    sim.shutdown()


def sim_leftovers(ctx, ncase: int, salt: str, do_model: bool, do_oracle: bool, only: int | None = None):
    import projgen
    from simdirector import SimDirector

    lines, expect = [], []
    for i in (range(ncase) if only is None else [only]):
        r = ctx.rng(salt, i)
        scripted = None
        if r.random() < 0.12:
            project, opts, scripted = gen_glob_product_case(r)
            feats, invalid = ["glob-match-becomes-output"], None
        else:
            project, opts, feats, invalid = gen_sim_case(r)
        where = {"source": "simulated-build", "case_seed": [ctx.seed, salt, i], "features": feats + ([invalid] if invalid else []),
                 "options": {k: v for k, v in opts.items()}}
        ctx.stats.programs += 1
        for f in feats + ([f"invalid-{invalid}"] if invalid else []):
            ctx.stats.count("sim-feature-" + f)
        with SimDirector(copy.deepcopy(project), seed=r.randint(0, 10**6)) as sim:
            watch = r.random() < 0.3 and scripted is None
            nphase = r.randint(1, 3) if scripted is None else 2
            for phase in range(nphase):
                w = {**where, "phase": phase, "watch": watch}
                try:
                    if phase == 0 or not watch:
                        res = sim.build(watch=watch, **opts)
                    else:
                        res = sim.watch_rebuild(edits)  # noqa: F821
                except Exception as exc:  # noqa: BLE001
                    ctx.finding(Finding(PID, "harness-exception", f"simulated build raised {type(exc).__name__}: {exc}", w))
                    break
                examine_build(ctx, sim, res, opts, w, lines, expect, do_oracle)
                if res.status != "done":
                    break
                # between phases: repair or break something
                edits = []
                kind = r.choice(["fix-missing", "touch-source", "none", "break-source"])
                if scripted is not None:
                    kind, edits = "scripted", list(scripted)
                if kind == "fix-missing":
                    edits = [("write", "src/does_not_exist.txt", "now it does\n"), ("write", "src/never.txt", "n\n")]
                elif kind == "touch-source":
                    srcs = sorted(p for p in res.files if p.startswith("src/"))
                    if srcs:
                        edits = [("write", r.choice(srcs), f"edited {phase}\n")]
                elif kind == "break-source":
                    srcs = sorted(p for p in res.files if p.startswith("src/") and p != "src/stray.txt")
                    if srcs:
                        edits = [("remove", r.choice(srcs))]
                if not watch and edits:
                    sim.apply(edits)
            if sim.session is not None:
                with contextlib.suppress(Exception):
                    sim.shutdown()
    if do_model:
        compare_with_model(ctx, lines, expect)
    return len(lines)


# ---------------------------------------------------------------------------------------------
# Entry points
# ---------------------------------------------------------------------------------------------


async def correspond(ctx):
    await kcorr.run(ctx, SCOPES, quick=(30, 60), thorough=(600, 80), salt="c19-kcorr")
    n1 = await kernel_leftovers(ctx, ctx.budget(40, 900), 54, "c19-kernel", True, False)
    n2 = await asyncio.to_thread(sim_leftovers, ctx, ctx.budget(45, 900), "c19-sim", True, False)
    ctx.extra["model_requests"] = n1 + n2
    ctx.stats.rule = ("a case is one leftover graph examined by report_unbuilt (key: exit status, message kinds, number of "
                      "steps) or by _analyze_pending (key: universe size, attributed totals per root kind, cyclic count, "
                      "number of dead-end files and unsatisfiable resources); non-trivial: non-zero status / more than one "
                      "pending step; plus one case per kernel request (distinct = distinct canonical database states)")


async def search(ctx):
    await kernel_leftovers(ctx, ctx.budget(40, 900), 54, "c19-oracle-kernel", False, True)
    await asyncio.to_thread(sim_leftovers, ctx, ctx.budget(70, 1500), "c19-oracle-sim", False, True)
    await asyncio.to_thread(invalid_target_skipped_plan_case, ctx, True)
    await asyncio.to_thread(boot_target_case, ctx, True)


async def replay(ctx, detail):
    sig = detail.get("signature", "")
    d = detail.get("detail", detail)
    seed = d.get("case_seed") or d.get("sequence_seed")
    if seed:
        os.environ["VERIF_SEED"] = str(seed[0])
    if d.get("source") == "simulated-build" and seed:
        await asyncio.to_thread(sim_leftovers, ctx, 0, seed[1], False, True, seed[2])
    else:
        await search(ctx)
    return {"reproduced": any(f.signature == sig for f in ctx.findings), "signature": sig,
            "findings": [f.what for f in ctx.findings][:5]}
