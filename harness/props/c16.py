"""C16: remote calls are answered exactly once and correctly paired.

Correspondence: the real `RPCServerConnection` and `SocketAsyncRPCClient` are driven in-process
on in-memory `asyncio.StreamReader`s and a real `StreamWriter` over a recording fake transport.
The harness owns every source of nondeterminism: how the byte stream is cut into chunks, when a
handler completes and how, when the writer pauses, drains or is lost, when the peer closes.  One
external event is applied at a time and the loop is run until quiescent; the same event script is
given to the Lean model driver (`P/Rpc.lean`) and the observations are compared event by event.
Also compared: `_encode_message` / `_recv_stream_message` on chunked streams, `_call_procedure`
on a real `DirectorHandler` for every attribute name, `RemoteFailure` round trips.

Oracle (independent of the model): exactly one reply per call with its own id while the
connection lives and never more than one, the class of the error seen by a caller, no call of
a procedure that is not exposed, `serve()` always ends without anything but `RPCError`, a real
`SocketRPCServer` keeps serving after vanished peers and malformed frames.
"""

from __future__ import annotations

import asyncio
import contextlib
import inspect
import logging
import os
import pickle
import re
import selectors
import shutil
import socket
import tempfile

import common
import implkit  # noqa: F401  (puts /repo first on sys.path)
from common import Finding

from stepup.core import exceptions as X
from stepup.core import rpc as R
from stepup.core.rpc import RemoteFailure, RPCCall, RPCServerConnection, allow_rpc

PID = "C16"
LEVEL = "proof"
ASSUMPTIONS = [
    "asyncio is modelled at the granularity the harness drives it: one external event (bytes, EOF, handler "
    "completion, writer pause/drain/loss, stop) at a time, each run to quiescence of the event loop",
    "pickle is not modelled: what a request body unpickles to (an RPCCall with a name and whether its arguments "
    "bind, or something else) is an input of the model, computed by the harness with pickle.loads/inspect",
    "in the event in which the connection fails (bad header, non-call body) the replies of calls rejected in "
    "the same chunk may or may not have reached the writer before the send loop is cancelled: the model writes "
    "them, the implementation may write a prefix of them (at most once either way)",
    "a UsageError subclass whose constructor raises something other than TypeError is outside the model "
    "(no such class exists in stepup.core.exceptions; the generated table is checked)",
    "cancelled callers of the asynchronous client and the synchronous client's timeouts are not modelled",
]

TIMEOUT = 20.0
HANG_TIMEOUT = 3.0  # for an in-memory connection that has nothing left to wait for
MAX_HANGS = 3  # stop generating scenarios after this many connections that did not end
logging.getLogger("stepup.core.rpc").setLevel(logging.CRITICAL)


def hx(b: bytes) -> str:
    return b.hex() if b else "-"


# ---------------------------------------------------------------------------------------------
# In-memory transport
# ---------------------------------------------------------------------------------------------


HIGH_WATER = 64 * 1024  # a single write beyond this fills the buffer: the protocol is told to pause
LOSS_CLASSES = {"reset": ConnectionResetError, "pipe": BrokenPipeError, "abort": ConnectionAbortedError}


class FakeTransport(asyncio.Transport):
    """Records what is written; the harness decides when it pauses, drains or loses the peer."""

    def __init__(self, loop):
        super().__init__()
        self.loop = loop
        self.protocol = None
        self.data = bytearray()
        self.closing = False
        self.lost = False
        self.paused = False
        self.fail_write = None  # exception class raised by `write` once the peer is lost

    def write(self, data):
        if self.lost:
            if self.fail_write is not None:
                raise self.fail_write(32, "lost (write)")
            return
        self.data += bytes(data)
        if len(data) > HIGH_WATER and not self.paused:
            self.pause()

    def pause(self):
        self.paused = True
        self.protocol.pause_writing()

    def resume(self):
        self.paused = False
        self.protocol.resume_writing()

    def is_closing(self):
        return self.closing

    def close(self):
        if not self.closing:
            self.closing = True
            self.loop.call_soon(self._lost, None)

    def abort(self):
        self.close()

    def _lost(self, exc):
        if not self.lost:
            self.lost = True
            self.protocol.connection_lost(exc)

    def lose(self, cls=ConnectionResetError, site="d"):
        """The peer vanishes: a pending `drain()` gets `cls`; later `write` (site w) or `drain` (site d) raise it."""
        self.closing = True
        if site == "w":
            self.fail_write = cls
        else:
            self.protocol.drain_error = cls
        self._lost(cls(32, "peer vanished"))

    def get_extra_info(self, name, default=None):
        return default


class LossyProtocol(asyncio.StreamReaderProtocol):
    """`drain()` after the loss raises the error class chosen by the harness (asyncio's own protocol
    always turns it into `ConnectionResetError('Connection lost')`, a kernel socket may report EPIPE)."""

    drain_error = None

    async def _drain_helper(self):
        if self._connection_lost and self.drain_error is not None:
            raise self.drain_error(32, "lost (drain)")
        await super()._drain_helper()


def make_writer(loop):
    tr = FakeTransport(loop)
    proto = LossyProtocol(asyncio.StreamReader(), loop=loop)
    tr.protocol = proto
    proto.connection_made(tr)
    return asyncio.StreamWriter(tr, proto, None, loop), tr, proto


async def settle():
    """Run the event loop until nothing but this coroutine is runnable."""
    loop = asyncio.get_running_loop()
    ready = getattr(loop, "_ready", None)
    if ready is None:  # not a BaseEventLoop: a fixed, generous number of turns
        for _ in range(300):
            await asyncio.sleep(0)
        return
    for _ in range(200_000):
        await asyncio.sleep(0)
        if not ready:
            return
    raise RuntimeError("the event loop does not become quiescent")


class _JumpSelector(selectors.DefaultSelector):
    """Instead of sleeping until the next timer is due, advance the virtual clock of the loop."""

    loop = None
    idle = 0

    def select(self, timeout=None):
        events = super().select(0)
        if events or timeout == 0:
            return events
        if timeout is None:  # no timer, nothing ready: only another thread could wake this loop
            self.idle += 1
            if self.idle > 200:
                raise RuntimeError("virtual loop: nothing left that could ever happen")
            return super().select(0.01)
        self.loop.vnow += timeout
        return events


class VirtualLoop(asyncio.SelectorEventLoop):
    """An event loop on a virtual clock: `asyncio.sleep(3600)` returns at once, after every timer due
    within that hour has fired in order.  No real time passes."""

    def __init__(self):
        self.vnow = 1000.0
        sel = _JumpSelector()
        super().__init__(selector=sel)
        sel.loop = self

    def time(self):
        return self.vnow


def run_virtual(make_coro):
    """Run a coroutine to completion on a fresh `VirtualLoop` (call this from a worker thread)."""
    loop = VirtualLoop()
    try:
        return loop.run_until_complete(make_coro())
    finally:
        with contextlib.suppress(Exception):
            loop.run_until_complete(loop.shutdown_asyncgens())
        loop.close()


HOUR = 3600.0


def parse_frames(data: bytes):
    """Reference framing parser of the harness: [(id, body|None)], leftover bytes."""
    out, i = [], 0
    while len(data) - i >= 16:
        cid = int.from_bytes(data[i:i + 8], "big")
        size = int.from_bytes(data[i + 8:i + 16], "big")
        if size > 2**32 or len(data) - i - 16 < size:
            break
        out.append((cid, None if size == 0 else data[i + 16:i + 16 + size]))
        i += 16 + size
    return out, data[i:]


# ---------------------------------------------------------------------------------------------
# Exception classes used as handler outcomes
# ---------------------------------------------------------------------------------------------


class TwoArgUsage(X.UsageError):
    """A `UsageError` with a richer constructor: cannot be rebuilt from one string."""

    def __init__(self, a, b):
        super().__init__(f"{a}{b}")


def _local_usage():
    class LocalUsage(X.UsageError):
        pass

    return LocalUsage


LocalUsage = _local_usage()


class Outer:
    class NestedUsage(X.UsageError):
        pass


class PlainInternal(Exception):
    pass


# (factory, usage, importable, ctor_ok)
EXC_POOL = [
    (lambda m="m": X.GraphError(m), True, True, True),
    (lambda m="m": X.CyclicError(m), True, True, True),
    (lambda m="m": X.ConfigError(m), True, True, True),
    (lambda m="m": X.PathError(m), True, True, True),
    (lambda m="m": X.UsageError(m), True, True, True),
    (lambda m="m": X.AmendWhileHoldingError(m), True, True, True),
    (lambda m="m": TwoArgUsage(m, ""), True, True, False),
    (lambda m="m": LocalUsage(m), True, False, True),
    (lambda m="m": Outer.NestedUsage(m), True, False, True),
    (lambda m="m": X.ConsistencyError(m), False, True, True),
    (lambda m="m": X.RPCError(m), False, True, True),
    (lambda m="m": X.InputNotFoundError(m), False, True, True),
    (lambda m="m": ValueError(m), False, True, True),
    (lambda m="m": KeyError(m), False, True, True),
    (lambda m="m": PlainInternal(m), False, True, True),
    (lambda m="m": ZeroDivisionError(m), False, True, True),
]
USAGE_IDX = [i for i, e in enumerate(EXC_POOL) if e[1]]
INTERNAL_IDX = [i for i, e in enumerate(EXC_POOL) if not e[1]]


def pool_index(module: str, qualname: str):
    for i, (fac, *_rest) in enumerate(EXC_POOL):
        t = type(fac())
        if t.__module__ == module and t.__qualname__ == qualname:
            return i
    return None


# ---------------------------------------------------------------------------------------------
# The handler served by the connections under test
# ---------------------------------------------------------------------------------------------


class Handler:
    """Allowed coroutines block on futures owned by the harness; everything else must stay out of reach."""

    public_attr = 5

    def __init__(self):
        self.started = []  # tags, in the order the procedures were entered
        self.futs = {}
        self.cancelled = []
        self.inside = set()  # tags whose future the harness cancels: a CancelledError from inside
        self.applied = []  # tags whose handler got past its wait: the side effect of the request
        self.lock = asyncio.Lock()  # `work_lock` waits for it, like a request waits for the database session
        self.lock_tags = set()
        self.forbidden = []  # names of non-exposed procedures that were entered

    async def _block(self, tag):
        fut = asyncio.get_running_loop().create_future()
        self.started.append(tag)
        self.futs[tag] = fut
        try:
            kind, val = await fut
        except asyncio.CancelledError:
            if tag not in self.inside:
                self.cancelled.append(tag)
            raise
        self.applied.append(tag)
        if kind == "raise":
            raise val
        return val

    @allow_rpc
    async def work_lock(self, tag):
        """Wait for a lock that the harness holds, then apply."""
        fut = asyncio.get_running_loop().create_future()  # bookkeeping only: pending until released
        self.started.append(tag)
        self.futs[tag] = fut
        self.lock_tags.add(tag)
        try:
            async with self.lock:
                self.applied.append(tag)
                return ("value", tag)
        except asyncio.CancelledError:
            self.cancelled.append(tag)
            raise

    @allow_rpc
    async def work(self, tag):
        return await self._block(tag)

    @allow_rpc
    async def work_kw(self, tag, extra=None, *, flag=False):
        return await self._block(tag)

    @allow_rpc
    def work_awaitable(self, tag):
        """A plain function returning an awaitable."""
        return self._block(tag)

    async def hidden(self, tag=None):
        self.forbidden.append("hidden")

    def plain(self, tag=None):
        self.forbidden.append("plain")

    def _private(self, tag=None):
        self.forbidden.append("_private")

    def __secret__(self, tag=None):
        self.forbidden.append("__secret__")


def handler_table(handler) -> list[tuple[str, bool]]:
    return [(n, bool(R.is_rpc_allowed(getattr(handler, n)))) for n in sorted(dir(handler))]


ALLOWED = ["work", "work_kw", "work_awaitable"]  # `work_lock` is only used by the directed family
REJECTED_NAMES = ["hidden", "plain", "_private", "__secret__", "public_attr", "started", "futs", "__init__",
                  "__class__", "__dict__", "__getattribute__", "_block", "nope", "", "work.__func__", "work ",
                  "Work", "__work__", "work\n", "wörk", "work.work", "handler.work", "__call__"]


def classify_body(handler, body: bytes) -> str:
    """What a request body is to the model: `c:<name>:<bind>` or `n`."""
    try:
        obj = pickle.loads(body)
    except Exception:
        return "n"
    if not isinstance(obj, RPCCall):
        return "n"
    bind = True
    try:
        proc = getattr(handler, obj.name)
        if callable(proc):
            inspect.signature(proc).bind(*obj.args, **obj.kwargs)
    except TypeError:
        bind = False
    except (AttributeError, ValueError):
        pass
    return f"c:{hx(obj.name.encode('utf-8', 'surrogatepass'))}:{int(bind)}"


REJECTION_PREFIXES = ("Unknown remote procedure ", "Remote procedure ", "Invalid arguments: ")


def reply_kind(body) -> tuple[str, object]:
    """Canonical kind of a written reply: v, fu<i>, fi<i>, fr, s (and the unpickled payload)."""
    if body is None:
        return "s", None
    obj = pickle.loads(body)
    if not isinstance(obj, RemoteFailure):
        return "v", obj
    if ((obj.module, obj.qualname, obj.usage) == (X.RPCError.__module__, "RPCError", False)
            and obj.message.startswith(REJECTION_PREFIXES)):
        return "fr", obj
    if (obj.module, obj.qualname, obj.usage) == ("asyncio.exceptions", "CancelledError", False):
        return "fc", obj
    idx = pool_index(obj.module, obj.qualname)
    if idx is None:
        return f"f?{obj.qualname}", obj
    return ("fu" if obj.usage else "fi") + str(idx), obj


def serve_status(task) -> str:
    if not task.done():
        return "open"
    if task.cancelled():
        return "fail:cancelled"
    exc = task.exception()
    if exc is None:
        return "done"
    if isinstance(exc, BaseExceptionGroup) and len(exc.exceptions) == 1:
        inner = exc.exceptions[0]
        if isinstance(inner, X.RPCError):
            text = str(inner)
            if "exceeds the maximum" in text:
                return "fail:badHeader"
            if "RPC request" in text:
                return "fail:notCall"
            return f"fail:rpc:{text[:60]}"
        if isinstance(inner, (pickle.PicklingError, AttributeError, TypeError)):
            return "fail:unpicklable"
        return f"fail:other:{type(inner).__name__}"
    return f"fail:other:{type(exc).__name__}"


def stream_has_terminal(data: bytes) -> bool:
    """Whether the bytes contain a frame that ends the receive loop (reference view of the harness)."""
    frames, rest = parse_frames(data)
    for _cid, body in frames:
        if body is None:
            return True
        try:
            if not isinstance(pickle.loads(body), RPCCall):
                return True
        except Exception:
            return True
    return len(rest) >= 16 and int.from_bytes(rest[8:16], "big") > 2**32


def stream_is_malformed(data: bytes) -> bool:
    """Whether the receive loop meets a frame that is not an RPC request (before any close request)."""
    frames, rest = parse_frames(data)
    for _cid, body in frames:
        if body is None:
            return False
        try:
            if not isinstance(pickle.loads(body), RPCCall):
                return True
        except Exception:
            return True
    return len(rest) >= 16 and int.from_bytes(rest[8:16], "big") > 2**32


class ConnSim:
    """One real `RPCServerConnection` under harness control, with the script it is driven by."""

    def __init__(self, handler, cid: int):
        loop = asyncio.get_running_loop()
        self.handler = handler
        self.cid = cid
        self.reader = asyncio.StreamReader()
        self.writer, self.tr, self.proto = make_writer(loop)
        self.conn = RPCServerConnection(handler, self.reader, self.writer)
        self.task = asyncio.create_task(self.conn.serve())
        self.events: list[str] = []  # tokens of the model script
        self.obs: list[str] = []  # one observation per event
        self.fed = bytearray()
        self.tags: dict = {}  # tag -> call id
        self.invoked: list = []  # tags in invocation order (this connection)
        self.seen_started = 0
        self.seen_written = 0
        self.parsed_upto = 0
        self.seen_cancelled = 0
        self.replies: list = []  # (call id, kind, payload)
        self.injected: dict = {}  # tag -> ("ok", value) | ("raise", idx)
        self.impl_events: list = []  # what was applied, exactly (for replays)
        self.lost = False
        self.eof = False
        self.completed_live: list = []  # tags completed while no end-of-connection event had happened
        self.ending = False  # an event that may end the connection was applied
        self.clean_eof = False

    @property
    def paused(self) -> bool:
        return self.tr.paused

    def mine(self, tag) -> bool:
        return tag in self.tags

    def pending_tags(self):
        futs = getattr(self.handler, "futs", {})
        return [t for t in self.invoked if t in futs and not futs[t].done()]

    async def apply(self, tok: str, arg=None):
        """Apply one event to the implementation and record the observation."""
        h = self.handler
        self.impl_events.append([tok, bytes(arg).hex() if tok == "b" else list(arg) if arg is not None else None])
        if tok == "b":
            self.reader.feed_data(bytes(arg))
            self.fed += arg
            self.events.append("b:" + hx(bytes(arg)))
            if not self.ending and stream_has_terminal(bytes(self.fed)):
                self.ending = True
        elif tok == "e":
            if not self.ending:  # EOF at quiescence: every reply is already written
                self.clean_eof = not self.pending_tags() and not self.paused
            self.reader.feed_eof()
            self.eof = True
            self.ending = True
            self.events.append("e")
        elif tok == "x":  # a reset instead of a clean EOF: same event for the model
            self.reader.set_exception(ConnectionResetError("reset by peer"))
            self.eof = True
            self.ending = True
            self.events.append("e")
        elif tok == "s":
            self.conn.stop()
            self.ending = True
            self.events.append("s")
        elif tok == "t":  # an hour passes (only on the virtual clock)
            if isinstance(asyncio.get_running_loop(), VirtualLoop):
                await asyncio.sleep(HOUR)
            self.events.append("t")
        elif tok == "p":
            self.tr.pause()
            self.events.append("p")
        elif tok == "d":
            self.tr.resume()
            self.events.append("d")
        elif tok == "l":
            cls, site = arg if arg is not None else ("reset", "d")
            self.tr.lose(LOSS_CLASSES[cls], site)
            self.lost = True
            self.ending = True
            self.events.append(f"l:{cls}:{site}")
        elif tok == "c":
            tag, out = arg
            k = self.invoked.index(tag)
            fut = h.futs[tag]
            if tag in getattr(h, "lock_tags", ()):  # the harness lets go of the lock the handler waits for
                fut.set_result(None)
                h.lock.release()
                self.injected[tag] = ("ok", ("value", tag))
                out = "r"
            elif out in ("r", "R"):
                val = ("value", tag) if out == "r" else ("value", tag, bytes(3 * HIGH_WATER))
                fut.set_result(("ok", val))
                self.injected[tag] = ("ok", val)
            elif out == "k":
                h.inside.add(tag)
                fut.cancel()  # what the handler awaits is cancelled by somebody else
                self.injected[tag] = ("cancel-inside", None)
            elif out == "n":
                fut.set_result(("ok", lambda: None))
                self.injected[tag] = ("unpicklable", None)
                self.ending = True
            else:
                idx = int(out[1:])
                fut.set_result(("raise", EXC_POOL[idx][0](f"tag={tag};")))
                self.injected[tag] = ("raise", idx)
            if not self.ending:
                self.completed_live.append(tag)
            self.events.append(f"c:{k}:{out}")
        else:
            raise ValueError(tok)
        await asyncio.wait_for(settle(), TIMEOUT)
        self.observe()

    def observe(self):
        h = self.handler
        new_inv = []
        started = getattr(h, "started", [])
        for tag in started[self.seen_started:]:
            if self.mine(tag):
                self.invoked.append(tag)
                new_inv.append(str(self.tags[tag]))
        self.seen_started = len(started)
        frames, rest = parse_frames(bytes(self.tr.data[self.parsed_upto:]))
        self.parsed_upto = len(self.tr.data) - len(rest)
        new_wr = list(frames)
        wr_toks = []
        for cid, body in new_wr:
            kind, payload = reply_kind(body)
            self.replies.append((cid, kind, payload))
            wr_toks.append(f"{cid}:{kind}")
        cancelled = getattr(h, "cancelled", [])
        new_c = [t for t in cancelled[self.seen_cancelled:] if self.mine(t)]
        self.seen_cancelled = len(cancelled)
        canc = sorted(self.invoked.index(t) for t in new_c)
        self.obs.append((new_inv, wr_toks, canc, serve_status(self.task), self.paused and not self.lost))

    def script_line(self, table, bodies) -> str:
        return f"c16 conn {table} {bodies} {','.join(self.events) if self.events else '.'}"


def table_token(handler) -> str:
    return ",".join(f"{hx(n.encode())}:{int(f)}" for n, f in handler_table(handler))


def bodies_token(handler, streams: list[bytes]) -> str:
    seen = {}
    for data in streams:
        frames, _ = parse_frames(data)
        for _cid, body in frames:
            if body is not None and body not in seen:
                seen[body] = classify_body(handler, body)
    return ",".join(f"{hx(b)}:{c}" for b, c in seen.items()) if seen else "."


# ---------------------------------------------------------------------------------------------
# Scenario generation for the server connection
# ---------------------------------------------------------------------------------------------

GARBAGE_HEADERS = [b"\xff" * 16, bytes(8) + (2**32 + 1).to_bytes(8, "big"), b"GET / HTTP/1.1\r\n",
                   bytes(8) + b"\x80" + bytes(7), (7).to_bytes(8, "big") + (2**63).to_bytes(8, "big")]
NOT_CALLS = [pickle.dumps(42), pickle.dumps({"name": "work"}), b"\x00", b"hello world", pickle.dumps(("work", (1,))),
             pickle.dumps(None), b"\x80\x05K\x01", pickle.dumps(RemoteFailure("m", "q", "x", "t", False))]


class TagSource:
    def __init__(self):
        self.n = 0

    def __call__(self):
        self.n += 1
        return self.n


def pick_id(r, used: list[int]) -> int:
    k = r.random()
    if k < 0.75 or not used:
        return (max(used) + 1) if used and max(used) < 2**63 else r.randint(1, 1000)
    if k < 0.85:
        return r.choice(used)  # a peer that reuses a call id
    if k < 0.9:
        return r.choice([0, 2**64 - 1, 2**32, 2**63])
    return r.getrandbits(64)


def gen_call(r, newtag, big: bool):
    """(name, args, kwargs, tag or None): tag is set iff the call must be invoked."""
    k = r.random()
    pad = (bytes(r.getrandbits(8) for _ in range(64)) * r.randint(200, 1400),) if big else ()
    if k < 0.62:
        name = r.choice(ALLOWED)
        tag = newtag()
        if name == "work_kw":
            form = r.randrange(4)
            if form == 0:
                return name, (tag,), {}, tag
            if form == 1:
                return name, (tag, pad or 1), {"flag": True}, tag
            if form == 2:
                return name, (), {"tag": tag, "extra": pad or None}, tag
            return name, (tag,), {"extra": 3}, tag
        if pad and name == "work":
            return "work_kw", (tag, pad[0]), {}, tag
        return name, (tag,), {}, tag
    if k < 0.75:  # arguments that do not bind
        name = r.choice(ALLOWED)
        bad = r.choice([((), {}), ((1, 2, 3, 4), {}), ((1,), {"bogus": 2}), ((), {"flag": True}), ((1,), {"tag": 2})])
        return name, bad[0], bad[1], None
    name = r.choice(REJECTED_NAMES)
    return name, r.choice([(), (1,), (newtag(),)]), {}, None


def gen_stream(r, newtag, *, nframes=None, allow_terminal=True, big=False):
    """A request stream: list of frame records and the bytes."""
    n = nframes if nframes is not None else r.choice([1, 1, 2, 3, 4, 6, 9])
    frames, used = [], []
    terminal_at = r.randrange(n + 1) if allow_terminal and r.random() < 0.45 else None
    for i in range(n + (1 if terminal_at is not None else 0)):
        cid = pick_id(r, used)
        if terminal_at is not None and i == terminal_at:
            kind = r.choice(["close", "close", "notcall", "garbage"])
            if kind == "close":
                data = R._encode_message(cid, None if r.random() < 0.7 else b"")
            elif kind == "notcall":
                data = R._encode_message(cid, r.choice(NOT_CALLS))
            else:
                data = r.choice(GARBAGE_HEADERS) + bytes(r.getrandbits(8) for _ in range(r.randint(0, 20)))
            frames.append({"kind": kind, "id": cid, "tag": None, "data": data})
            continue
        used.append(cid)
        name, args, kwargs, tag = gen_call(r, newtag, big and r.random() < 0.5)
        data = R._encode_message(cid, R._encode_body(RPCCall(name, args, kwargs)))
        frames.append({"kind": "call", "id": cid, "tag": tag, "name": name, "data": data})
    return frames, b"".join(f["data"] for f in frames)


def chunkings(r, data: bytes, mode: str) -> list[bytes]:
    if not data:
        return []
    if mode == "whole":
        return [data]
    if mode == "bytes":
        return [data[i:i + 1] for i in range(len(data))]
    if mode == "frames+1":  # cut one byte after/before natural boundaries
        cuts = sorted({min(len(data), max(1, c)) for c in (8, 15, 16, 17, len(data) - 1)})
    else:
        ncut = r.choice([1, 2, 3, 5, 9, 17]) if len(data) < 4000 else r.choice([2, 5, 12, 40])
        cuts = sorted({r.randrange(1, len(data) + 1) for _ in range(ncut)})
    out, prev = [], 0
    for c in cuts + [len(data)]:
        if c > prev:
            out.append(data[prev:c])
            prev = c
    return out


async def drive_random(r, sims: list[ConnSim], plans: list[dict]):
    """Interleave the events of several connections until every plan is exhausted."""
    active = list(range(len(sims)))
    guard = 0
    while active and guard < 5000:
        guard += 1
        i = r.choice(active)
        sim, plan = sims[i], plans[i]
        pend = sim.pending_tags()
        opts = []
        if plan["chunks"] and not sim.eof:
            opts += ["b"] * 5
        if pend:
            opts += ["c"] * 4
        if sim.task.done():
            active.remove(i)
            continue
        if plan["faults"] and plan["nfault"] > 0:
            if r.random() < 0.25:
                opts += ["p" if not sim.paused else "d"] * 2
            if r.random() < 0.06 and not sim.lost:
                opts += ["l"]
            if r.random() < 0.05:
                opts += ["s"]
            if r.random() < 0.05 and not sim.eof:
                opts += ["e", "x"]
        if not plan["chunks"] and not sim.eof and (not pend or r.random() < 0.3):
            opts += ["e"] * 2 + ["x"]
        if not opts:
            active.remove(i)
            continue
        tok = r.choice(opts)
        if tok in "pdlsex":
            plan["nfault"] -= 1
        if tok == "b":
            await sim.apply("b", plan["chunks"].pop(0))
        elif tok == "c":
            tag = r.choice(pend)
            k = r.random()
            if k < 0.45:
                out = "r"
            elif k < 0.50:
                out = "R"
            elif k < 0.60:
                out = "k"
            elif k < 0.78:
                out = f"u{r.choice(USAGE_IDX)}"
            elif k < 0.96 or not plan["faults"]:
                out = f"i{r.choice(INTERNAL_IDX)}"
            else:
                out = "n"
            await sim.apply("c", (tag, out))
        elif tok == "l":
            await sim.apply("l", (r.choice(sorted(LOSS_CLASSES)), r.choice("wd")))
        else:
            await sim.apply(tok)
    await finish_all(r, sims)


async def finish_all(r, sims: list[ConnSim]):
    """Let every connection end: drain, complete what is in flight, close the reading side."""
    for sim in sims:
        sim.clean = (not sim.ending) or sim.clean_eof
        if sim.paused:
            await sim.apply("d")
        for tag in sim.pending_tags():
            await sim.apply("c", (tag, r.choice(["r", "k", f"u{USAGE_IDX[0]}", f"i{INTERNAL_IDX[0]}"])))
            if sim.paused:  # a big reply filled the buffer
                await sim.apply("d")
        if not sim.eof and not sim.task.done():
            await sim.apply("e")
        for _ in range(200):  # every big reply queued behind the first fills the buffer again
            if not sim.paused or sim.task.done():
                break
            await sim.apply("d")
        # the implementation may still have handlers the model does not know of: they would hang here
        try:
            await asyncio.wait_for(asyncio.shield(sim.task), HANG_TIMEOUT)
        except (asyncio.TimeoutError, TimeoutError):
            sim.hung = True
            sim.task.cancel()
            for fut in getattr(sim.handler, "futs", {}).values():
                if not fut.done():
                    fut.cancel()
            with contextlib.suppress(BaseException):
                await asyncio.wait_for(sim.task, HANG_TIMEOUT)
        except BaseException:
            pass


def new_sims(handler, r, newtag, nconn: int, *, faults: bool, big=False, mode=None):
    sims, plans, streams = [], [], []
    for c in range(nconn):
        frames, data = gen_stream(r, newtag, big=big)
        sim = ConnSim(handler, c)
        sim.frames = frames
        sim.hung = False
        for f in frames:
            if f["tag"] is not None:
                sim.tags[f["tag"]] = f["id"]
        m = mode or r.choice(["whole", "random", "random", "random", "frames+1", "bytes" if len(data) < 400 else "random"])
        sims.append(sim)
        plans.append({"chunks": chunkings(r, data, m), "faults": faults, "nfault": r.choice([1, 2, 4, 8])})
        streams.append(data)
    return sims, plans, streams


def compare_with_model(ctx, sim: ConnSim, answer: str, line: str) -> bool:
    """Event-by-event comparison of the implementation's observations with the model's."""
    if answer == "bad-op":
        ctx.disagree("conn", {"script": line[:400]}, "bad-op", "n/a")
        return False
    toks = answer.split(";") if answer != "." else []
    if len(toks) != len(sim.obs):
        ctx.disagree("conn", {"script": line[:400]}, f"{len(toks)} events", f"{len(sim.obs)} events")
        return False
    prev_status = "open"
    held = False  # serve() is over in the model but its final drain waits for the paused writer
    for n, (tok, ob) in enumerate(zip(toks, sim.obs)):
        inv, wr, canc, status = tok.split("/")
        m_inv = [] if inv == "." else inv.split("+")
        m_wr = [] if wr == "." else wr.split("+")
        m_canc = [] if canc == "." else sorted(int(x) for x in canc.split("+"))
        i_inv, i_wr, i_canc, i_status, writer_blocks = ob
        fatal_now = status.startswith("fail:") and not prev_status.startswith("fail:")
        wr_ok = (i_wr == m_wr) or (fatal_now and status != "fail:unpicklable" and m_wr[:len(i_wr)] == i_wr)
        if fatal_now and i_wr != m_wr and wr_ok:
            ctx.stats.count("conn.fatal-event-reply-not-written", len(m_wr) - len(i_wr))
        if status != "open" and prev_status == "open":
            held = writer_blocks
        elif held and not writer_blocks:
            held = False
        exp_status = "open" if (status != "open" and held) else status
        if not (m_inv == i_inv and wr_ok and m_canc == i_canc and exp_status == i_status):
            ctx.disagree("conn", {"script": line if len(line) < 6000 else line[-6000:], "event": n, "token": sim.events[n][:80]},
                         {"invoked": m_inv, "writes": m_wr, "cancelled": m_canc, "status": exp_status},
                         {"invoked": i_inv, "writes": i_wr, "cancelled": i_canc, "status": i_status})
            return False
        prev_status = status
    return True


# ---------------------------------------------------------------------------------------------
# Correspondence
# ---------------------------------------------------------------------------------------------


async def recv_all(chunks: list[bytes]) -> str:
    """The real `_recv_stream_message` on a reader fed chunk by chunk, then EOF."""
    reader = asyncio.StreamReader()
    msgs, end = [], None

    async def consume():
        nonlocal end
        while True:
            try:
                m = await R._recv_stream_message(reader)
            except X.RPCError:
                end = "error"
                return
            if m is None:
                end = "gone"
                return
            msgs.append(m)

    task = asyncio.create_task(consume())
    for c in chunks:
        if task.done():
            break
        reader.feed_data(c)
        await asyncio.wait_for(settle(), TIMEOUT)
    if not task.done():
        reader.feed_eof()
    await asyncio.wait_for(task, TIMEOUT)
    toks = [f"{cid}:{'~' if body is None else hx(body)}" for cid, body in msgs]
    return (",".join(toks) if toks else ".") + " " + end


def gen_messages(r) -> list[tuple[int, bytes | None]]:
    out = []
    for _ in range(r.choice([0, 1, 1, 2, 3, 5])):
        cid = r.choice([0, 1, 2, 255, 256, 2**32, 2**63, 2**64 - 1, r.getrandbits(64), r.getrandbits(16)])
        k = r.random()
        if k < 0.15:
            body = None
        elif k < 0.25:
            body = b""
        elif k < 0.9:
            body = bytes(r.getrandbits(8) for _ in range(r.choice([1, 2, 15, 16, 17, 40])))
        else:
            body = bytes(r.getrandbits(8) for _ in range(64)) * r.randint(100, 1200)
        out.append((cid, body))
    return out


async def correspond_framing(ctx):
    r = ctx.rng("framing")
    st = ctx.stats
    lines, impls, keys = [], [], []
    for _ in range(ctx.budget(600, 6000)):
        msgs = gen_messages(r)
        for cid, body in msgs[:2]:
            lines.append(f"c16 enc {cid} {'~' if body is None else hx(body)}")
            impls.append(hx(R._encode_message(cid, body)))
            keys.append(("enc", cid, body is None, len(body or b"")))
        data = b"".join(R._encode_message(c, b) for c, b in msgs)
        tail = r.random()
        if tail < 0.2 and data:
            data = data[:r.randrange(len(data))]  # truncated
        elif tail < 0.4:
            data += r.choice(GARBAGE_HEADERS) + bytes(r.getrandbits(8) for _ in range(r.randint(0, 30)))
        elif tail < 0.5:
            data += bytes(r.getrandbits(8) for _ in range(r.randint(1, 15)))
        modes = ["whole", "random", "random", "frames+1"] + (["bytes"] if len(data) < 300 else [])
        chunks = chunkings(r, data, r.choice(modes))
        lines.append("c16 dec " + (",".join(hx(c) for c in chunks) if chunks else "."))
        impls.append(await recv_all(chunks))
        keys.append(("dec", len(msgs), len(chunks), len(data)))
    # every two-chunk split, every truncation and garbage at every offset of a short stream
    for _ in range(ctx.budget(2, 12)):
        msgs = [(r.getrandbits(16), bytes(r.getrandbits(8) for _ in range(r.choice([1, 5, 17])))),
                (r.getrandbits(40), None if r.random() < 0.5 else b"xy")]
        data = b"".join(R._encode_message(c, b) for c, b in msgs)
        for k in range(len(data) + 1):
            for chunks in ([data[:k], data[k:]], [data[:k]], [data[:k], GARBAGE_HEADERS[0], data[k:]]):
                chunks = [c for c in chunks if c]
                lines.append("c16 dec " + (",".join(hx(c) for c in chunks) if chunks else "."))
                impls.append(await recv_all(chunks))
                keys.append(("dec-offset", k, len(chunks), len(data)))
    ans = common.run_driver(lines)
    for line, a, got, key in zip(lines, ans, impls, keys):
        st.case(key + (line[:200],), key[0] != "enc" or key[3] > 0)
        st.count("framing." + key[0])
        if a != got:
            ctx.disagree("framing", line[:300], a[:300], got[:300])
    st.sample({"request": lines[2][:120], "model": ans[2][:120], "impl": impls[2][:120]})


def director_probe():
    """A real `DirectorHandler` without components, whose non-exposed callables record being entered."""
    from stepup.core.director import DirectorHandler

    entered = []

    def recorder(name):
        def fn(self, *a, **k):
            entered.append(name)
        return fn

    ns = {}
    for name in dir(DirectorHandler):
        attr = getattr(DirectorHandler, name)
        if callable(attr) and not R.is_rpc_allowed(attr) and not (name.startswith("__") and name.endswith("__")):
            ns[name] = recorder(name)
    ns["__slots__"] = ()
    probe_cls = type("ProbeHandler", (DirectorHandler,), ns)
    fields = {a.name.lstrip("_"): None for a in DirectorHandler.__attrs_attrs__ if a.init}
    return probe_cls(**fields), entered


def name_candidates(r) -> list[str]:
    from stepup.core.director import DirectorHandler

    names = sorted(dir(DirectorHandler))
    extra = ["", "nope", "shutdown ", "Shutdown", "shutdown.__func__", "workflow.clean", "db.con", "__class__.__init__",
             "builder.stop", "__dict__", "__getattr__", "__call__", "_allow_rpc", "__shutdown__", "é", "shutdown\x00",
             "stop_event.set", "executor.interrupt", "scheduler", "__init_subclass__", "__reduce_ex__", "__slots__"]
    for n in names:
        if not n.startswith("_"):
            extra += [n + ".__call__", "_" + n, "__" + n + "__", n.upper()]
    return names + extra


async def decide_impl(handler, entered, name: str, args=(), kwargs=None) -> str:
    """What the real `_call_procedure` does with a name: the model's `Decision`, from the error text."""
    before = len(entered)
    try:
        await asyncio.wait_for(R._call_procedure(handler, RPCCall(name, args, kwargs or {})), TIMEOUT)
        res = "invoke"
    except X.RPCError as exc:
        text = str(exc)
        if text.startswith("Unknown remote procedure"):
            res = "unknown"
        elif text.endswith("exists but is not allowed"):
            res = "notAllowed"
        elif text.startswith("Invalid arguments"):
            res = "badArgs"
        else:
            res = f"rpc:{text[:40]}"
    except (asyncio.TimeoutError, TimeoutError):
        res = "hang"
    except BaseException:  # the exposed procedure was entered and failed on the missing components
        res = "invoke"
    if len(entered) != before and res != "invoke":
        res += "+entered-forbidden"
    return res


async def correspond_allowed(ctx):
    r = ctx.rng("allowed")
    handler, entered = director_probe()
    lines, impls = [], []
    for name in name_candidates(r):
        for bind_ok in (True, False):
            # arguments that cannot bind to any exposed procedure: far too many positionals
            args = () if bind_ok else tuple(range(40))
            got = await decide_impl(handler, entered, name, args)
            if bind_ok and got == "badArgs":
                # exposed procedures need arguments: give each parameter a value
                try:
                    sig = inspect.signature(getattr(handler, name))
                    kwargs = {p: None for p, q in sig.parameters.items() if q.default is q.empty
                              and q.kind in (q.POSITIONAL_OR_KEYWORD, q.KEYWORD_ONLY)}
                    got = await decide_impl(handler, entered, name, (), kwargs)
                except (TypeError, ValueError, AttributeError):
                    pass
            lines.append(f"c16 allowed {hx(name.encode('utf-8', 'surrogatepass'))} {int(bind_ok)}")
            impls.append(got)
    ans = common.run_driver(lines)
    for line, a, got in zip(lines, ans, impls):
        ctx.stats.case(("allowed", line))
        ctx.stats.count("allowed." + a)
        if a != got:
            ctx.disagree("allowed", line, a, got)


def expected_class(idx: int, debug: bool) -> str:
    fac, usage, importable, ctor = EXC_POOL[idx]
    return type(fac()).__qualname__ if (usage and importable and ctor and not debug) else "RPCError"


@contextlib.contextmanager
def debug_env(on: bool):
    old = os.environ.get("STEPUP_DEBUG")
    if on:
        os.environ["STEPUP_DEBUG"] = "1"
    else:
        os.environ.pop("STEPUP_DEBUG", None)
    try:
        yield
    finally:
        if old is None:
            os.environ.pop("STEPUP_DEBUG", None)
        else:
            os.environ["STEPUP_DEBUG"] = old


def client_side_class(exc: BaseException, debug: bool) -> str:
    """Server `from_exception`, the wire, then the client's `_raise_remote_error`."""
    failure = pickle.loads(R._encode_body(RemoteFailure.from_exception(exc)))
    with debug_env(debug):
        try:
            R._raise_remote_error(failure, RPCCall("p", (), {}))
        except BaseException as seen:  # noqa: BLE001
            return type(seen).__qualname__
    return "no-exception"


async def correspond_failure_class(ctx):
    lines, impls = [], []
    for idx, (fac, usage, importable, ctor) in enumerate(EXC_POOL):
        for debug in (False, True):
            exc = fac()
            name = type(exc).__qualname__
            lines.append(f"c16 exc {hx(name.encode())} {int(usage)} {int(importable)} {int(ctor)} {int(debug)}")
            impls.append(hx(client_side_class(exc, debug).encode()))
    # every class of stepup.core.exceptions through the generated table
    for name in sorted(n for n, o in vars(X).items() if isinstance(o, type) and issubclass(o, BaseException)):
        for debug in (False, True):
            lines.append(f"c16 exct {hx(name.encode())} {int(debug)}")
            try:
                impls.append(hx(client_side_class(getattr(X, name)("m"), debug).encode()))
            except TypeError:
                impls.append("ctor-needs-more")
    ans = common.run_driver(lines)
    for line, a, got in zip(lines, ans, impls):
        ctx.stats.case(("exc", line))
        ctx.stats.count("failure_class")
        if a != got:
            ctx.disagree("failure_class", line, a, got)


async def run_conn_batch(ctx, r, n_batches: int, *, check):
    """Random multi-connection scenarios; `check(sims, streams, handler)` sees each finished batch."""
    newtag = TagSource()
    hangs = 0
    for b in range(n_batches):
        if hangs >= MAX_HANGS:
            ctx.stats.count("conn.aborted-after-hangs")
            break
        handler = Handler()
        nconn = r.choice([1, 1, 1, 2, 3])
        faults = r.random() < 0.6
        big = r.random() < 0.04
        sims, plans, streams = new_sims(handler, r, newtag, nconn, faults=faults, big=big)
        await asyncio.wait_for(settle(), TIMEOUT)
        await drive_random(r, sims, plans)
        hangs += sum(1 for sim in sims if sim.hung)
        await check(sims, streams, handler)


async def offset_family(ctx, r, newtag, *, check):
    """EOF, a reset and garbage at every byte offset of a short stream; every two-chunk split."""
    hangs = 0
    for _ in range(ctx.budget(1, 6)):
        frames, data = gen_stream(r, newtag, nframes=r.choice([1, 2]), allow_terminal=False)
        if r.random() < 0.5:
            data += R._encode_message(99, None)
        for k in range(len(data) + 1):
            for variant in ("eof", "reset", "garbage", "split"):
                if hangs >= MAX_HANGS:
                    return
                handler = Handler()
                sim = ConnSim(handler, 0)
                sim.frames, sim.hung = frames, False
                for f in frames:
                    if f["tag"] is not None:
                        sim.tags[f["tag"]] = f["id"]
                await asyncio.wait_for(settle(), TIMEOUT)
                if k:
                    await sim.apply("b", data[:k])
                fed = data[:k]
                if variant == "eof":
                    await sim.apply("e")
                elif variant == "reset":
                    await sim.apply("x")
                elif variant == "garbage":
                    g = r.choice(GARBAGE_HEADERS)
                    await sim.apply("b", g)
                    fed += g
                elif k < len(data):
                    await sim.apply("b", data[k:])
                    fed = data
                await finish_all(r, [sim])
                hangs += int(sim.hung)
                await check([sim], [fed], handler)


def plain_sim(handler, newtag, ncalls: int):
    """A connection with `ncalls` good calls of `work`, ids 1..n."""
    sim = ConnSim(handler, 0)
    sim.frames, sim.hung = [], False
    data = bytearray()
    tags = []
    for i in range(ncalls):
        tag = newtag()
        sim.tags[tag] = i + 1
        tags.append(tag)
        data += R._encode_message(i + 1, R._encode_body(RPCCall("work", (tag,), {})))
    return sim, bytes(data), tags


async def complete_if_pending(sim: ConnSim, arg):
    """Complete a handler unless the implementation already cancelled it (a mutant may)."""
    if arg[0] in sim.pending_tags():
        await sim.apply("c", arg)


async def fault_families(ctx, r, newtag, *, check):
    """Writer loss with every ConnectionError subclass, raised by `write` and by `drain`, while the send loop
    is idle, waits for a paused writer, or waits behind a reply bigger than the buffer, with other calls in
    flight; and a handler cancelled from inside in every position."""
    for cls in sorted(LOSS_CLASSES):
        for site in "wd":
            for state in ("idle", "paused", "big"):
                for after in ("r", "u0", "k"):
                    handler = Handler()
                    sim, data, tags = plain_sim(handler, newtag, 4)
                    await asyncio.wait_for(settle(), TIMEOUT)
                    await sim.apply("b", data)
                    if state == "paused":
                        await sim.apply("p")
                        await complete_if_pending(sim, (tags[1], "r"))
                    elif state == "big":
                        await complete_if_pending(sim, (tags[1], "R"))
                    await sim.apply("l", (cls, site))
                    await complete_if_pending(sim, (tags[0], after))  # a reply attempted on the lost writer
                    await complete_if_pending(sim, (tags[2], "r"))
                    await finish_all(r, [sim])
                    await check([sim], [data], handler)
    for n in (1, 2, 3):
        for pos in range(n):
            for paused in (False, True):
                handler = Handler()
                sim, data, tags = plain_sim(handler, newtag, n)
                await asyncio.wait_for(settle(), TIMEOUT)
                await sim.apply("b", data)
                if paused:
                    await sim.apply("p")
                await complete_if_pending(sim, (tags[pos], "k"))
                for t in tags:
                    if t != tags[pos]:
                        await complete_if_pending(sim, (t, "r"))
                if paused:
                    await sim.apply("d")
                await finish_all(r, [sim])
                await check([sim], [data], handler)


async def burst_families(ctx, r, newtag, *, check):
    """However many calls are in flight: tens to hundreds of calls on one connection that complete while the
    writer is paused (a slow reader), then the writer resumes; every call must still get its one reply."""
    for n in (33, 40, 100, 150):
        for order in ("forward", "shuffled"):
            handler = Handler()
            sim, data, tags = plain_sim(handler, newtag, n)
            await asyncio.wait_for(settle(), TIMEOUT)
            await sim.apply("b", data)
            await sim.apply("p")
            todo = list(tags)
            if order == "shuffled":
                r.shuffle(todo)
            for t in todo:
                await complete_if_pending(sim, (t, "r"))
            await sim.apply("d")
            await finish_all(r, [sim])
            await check([sim], [data], handler)


async def correspond_conn(ctx):
    r = ctx.rng("conn")
    st = ctx.stats
    pending = []  # (sim, line)

    async def check(sims, streams, handler):
        table = table_token(handler)
        for sim, data in zip(sims, streams):
            line = sim.script_line(table, bodies_token(handler, [data, bytes(sim.fed)]))
            pending.append((sim, line))

    await run_conn_batch(ctx, r, ctx.budget(1500, 12000), check=check)
    await offset_family(ctx, r, TagSource(), check=check)
    await fault_families(ctx, r, TagSource(), check=check)

    def collect(sims, handler):
        table = table_token(handler)
        for sim in sims:
            pending.append((sim, sim.script_line(table, bodies_token(handler, [bytes(sim.fed)]))))

    await asyncio.wait_for(asyncio.to_thread(run_virtual, lambda: gone_family(lambda *a: None, collect)), 300)
    ans = common.run_driver([line for _, line in pending])
    for (sim, line), a in zip(pending, ans):
        nontrivial = len(sim.invoked) > 0 or len(sim.replies) > 0
        st.case(("conn", tuple(sim.events)), nontrivial)
        st.count("conn.scripts")
        st.count("conn.events", len(sim.events))
        st.count("conn.end." + sim.obs[-1][3].split(":")[0] if sim.obs else "conn.end.none")
        for e in sim.events:
            st.count("conn.ev." + e[0])
        if sim.hung:
            ctx.disagree("conn", {"script": line[:400]}, "serve ends", "serve() did not end")
        elif compare_with_model(ctx, sim, a, line) and len(st.samples) < 5 and len(sim.events) > 4:
            st.sample({"events": [e[:40] for e in sim.events][:12], "model": a[:300]})


async def correspond(ctx):
    ctx.stats.rule = (
        "server: generated request streams (exposed and non-exposed names, non-binding arguments, reused and extreme "
        "call ids, close / non-call / bad-header frames anywhere), cut into whole/random/byte-wise chunks, interleaved "
        "on 1-3 connections with handler completions in harness-chosen order (result, result bigger than the "
        "transport buffer, UsageError family, internal, CancelledError from inside, unpicklable), writer pause/drain, "
        "writer loss with ConnectionResetError/BrokenPipeError/ConnectionAbortedError raised by write or by drain "
        "(idle, waiting on a paused writer, waiting behind a big reply, with calls in flight), stop, EOF/reset; plus EOF, reset, garbage and a split at every byte "
        "offset of short streams; non-trivial = at least one handler ran or one reply was written; distinct by event "
        "script.  framing: message lists with truncation/garbage tails under all chunkings; allowed: every attribute "
        "name of DirectorHandler and derived names; failure_class: 16 exception classes x debug flag; client: scripts "
        "of calls and replies with unknown/duplicate ids, sentinels, bad headers, EOF")
    await correspond_framing(ctx)
    await correspond_allowed(ctx)
    await correspond_failure_class(ctx)
    await correspond_conn(ctx)
    await correspond_client(ctx)
    ctx.stats.programs = 5


# ---------------------------------------------------------------------------------------------
# The asynchronous client on in-memory streams
# ---------------------------------------------------------------------------------------------


class ClientSim:
    def __init__(self):
        loop = asyncio.get_running_loop()
        self.reader = asyncio.StreamReader()
        self.writer, self.tr, self.proto = make_writer(loop)
        self.client = R.SocketAsyncRPCClient("in-memory")
        self.tasks: dict[int, asyncio.Task] = {}
        self.id_of: dict[int, int] = {}
        self.events: list[str] = []
        self.seen_frames = 0
        self.eof = False
        self.problems: list[str] = []

    async def call(self, caller: int):
        async def fake_open(path):
            return self.reader, self.writer

        real = asyncio.open_unix_connection
        asyncio.open_unix_connection = fake_open
        try:
            self.tasks[caller] = asyncio.create_task(self.client.call.proc(caller, key=caller))
            await asyncio.wait_for(settle(), TIMEOUT)
        finally:
            asyncio.open_unix_connection = real
        frames, rest = parse_frames(bytes(self.tr.data))
        for cid, body in frames[self.seen_frames:]:
            call = pickle.loads(body)
            if call != RPCCall("proc", (caller,), {"key": caller}):
                self.problems.append(f"request of caller {caller} carries {call}")
            self.id_of[caller] = cid
        if rest:
            self.problems.append("partial request frame written")
        self.seen_frames = len(frames)
        self.events.append(f"c:{caller}")

    async def feed(self, chunk: bytes):
        self.reader.feed_data(chunk)
        self.events.append("b:" + hx(chunk))
        await asyncio.wait_for(settle(), TIMEOUT)

    async def end(self):
        self.reader.feed_eof()
        self.eof = True
        self.events.append("e")
        await asyncio.wait_for(settle(), TIMEOUT)

    def outcome(self, caller: int) -> str:
        t = self.tasks[caller]
        if not t.done():
            return "pending"
        if t.cancelled():
            return "cancelled"
        exc = t.exception()
        return f"val:{t.result()!r}" if exc is None else f"exc:{type(exc).__qualname__}"


def gen_reply_body(r, expected_by_body: dict) -> bytes | None:
    k = r.random()
    if k < 0.5:
        val = r.choice([None, 0, "text", [1, 2], {"a": (1, 2)}, b"\x00" * r.randint(1, 50), r.getrandbits(40)])
        body = R._encode_body(val)
        expected_by_body[hx(body)] = f"val:{val!r}"
        return body
    if k < 0.8:
        idx = r.randrange(len(EXC_POOL))
        body = R._encode_body(RemoteFailure.from_exception(EXC_POOL[idx][0]()))
        expected_by_body[hx(body)] = "exc:" + expected_class(idx, False)
        return body
    if k < 0.9:
        return None  # the sentinel: no reply is coming
    body = r.choice([b"\x00", b"not a pickle", b"\x80\x05K"])
    expected_by_body[hx(body)] = "exc:RPCError"
    return body


async def correspond_client(ctx):
    r = ctx.rng("client")
    st = ctx.stats
    sims, lines, expectations = [], [], []
    with debug_env(False):
        for _ in range(ctx.budget(1500, 12000)):
            sim = ClientSim()
            expected_by_body = {"~": "exc:RPCError"}
            ncalls = r.choice([1, 2, 3, 5, 8])
            caller = 0
            outbox = bytearray()
            answered: list[int] = []
            steps = 0
            while steps < 60 and not sim.eof:
                steps += 1
                k = r.random()
                open_ids = [sim.id_of[c] for c in sim.tasks if sim.outcome(c) == "pending" and c in sim.id_of]
                if caller < ncalls and (k < 0.35 or not sim.tasks):
                    await sim.call(caller)
                    caller += 1
                elif k < 0.75:
                    j = r.random()
                    if open_ids and j < 0.94:
                        cid = r.choice(open_ids)
                        answered.append(cid)
                    elif j < 0.96 and answered:
                        cid = r.choice(answered)  # a second reply to an answered call
                    elif j < 0.985:
                        cid = r.choice([0, 999, 2**64 - 1, sim.client._counter + 1])  # never issued
                    else:
                        outbox += r.choice(GARBAGE_HEADERS)
                        continue
                    outbox += R._encode_message(cid, gen_reply_body(r, expected_by_body))
                elif k < 0.95 and outbox:
                    n = r.randint(1, len(outbox))
                    await sim.feed(bytes(outbox[:n]))
                    del outbox[:n]
                elif k > 0.985:
                    await sim.end()
            if outbox and not sim.eof:
                await sim.feed(bytes(outbox))
            if not sim.eof:
                await sim.end()
            try:
                await asyncio.wait_for(sim.client.close(), TIMEOUT)
                closed = "ok"
            except BaseException as exc:  # noqa: BLE001
                closed = f"exc:{type(exc).__qualname__}"
            sims.append((sim, closed))
            lines.append("c16 client " + (",".join(sim.events) if sim.events else "."))
            expectations.append(expected_by_body)
    ans = common.run_driver(lines)
    for (sim, closed), line, a, exp in zip(sims, lines, ans, expectations):
        st.case(("client", line[:300]), len(sim.tasks) > 1)
        st.count("client.scripts")
        if a == "bad-op":
            ctx.disagree("client", line[:300], a, "n/a")
            continue
        res, pend, alive, recv_error = a.split(" ")
        model = {}
        for tok in ([] if res == "." else res.split(",")):
            c, what = tok.split(":", 1)
            if what.startswith("body="):
                model[int(c)] = exp.get(what[5:], f"unexpected-body:{what[5:40]}")
            else:
                model[int(c)] = {"lost": "exc:ConnectionResetError", "looperr": "exc:RPCError"}[what]
        m_pending = {} if pend == "." else {int(t.split(":")[1]): int(t.split(":")[0]) for t in pend.split(",")}
        for c, cid in m_pending.items():
            model[c] = "pending"
        impl = {c: sim.outcome(c) for c in sim.tasks}
        m_closed = "exc:RPCError" if recv_error == "1" else "ok"
        ids_ok = all(sim.id_of.get(c) == cid for c, cid in m_pending.items())
        st.count("client.end." + ("loop-error" if recv_error == "1" else "eof"))
        if model != impl or m_closed != closed or not ids_ok or sim.problems:
            ctx.disagree("client", line[:400], {"calls": model, "close": m_closed},
                         {"calls": impl, "close": closed, "problems": sim.problems})


# ---------------------------------------------------------------------------------------------
# Oracle on the implementation alone
# ---------------------------------------------------------------------------------------------


def decoded_calls(sim: ConnSim) -> list[tuple[int, dict | None]]:
    """Reference view of what the connection can have received: the call frames of the bytes fed,
    up to the first frame that ends the receive loop (close request, body that is not a call)."""
    frames, _ = parse_frames(bytes(sim.fed))
    out = []
    for cid, body in frames:
        if body is None:
            break
        try:
            obj = pickle.loads(body)
        except Exception:
            break
        if not isinstance(obj, RPCCall):
            break
        out.append((cid, obj))
    return out


def oracle_conn(ctx, sim: ConnSim, handler: Handler, where: str):
    """Properties of one finished connection, decided from what the harness fed and recorded."""
    detail = {"where": where, "events": [e[:60] for e in sim.events][:80]}
    script_size = sum(len(a) for _t, a in sim.impl_events if isinstance(a, str))
    if script_size < 4_000_000:  # the exact script: `./check C16 --replay <file>` applies it to the real code again
        detail["replay"] = {"impl_events": sim.impl_events, "tags": {str(t): i for t, i in sim.tags.items()}}
    if sim.hung:
        ctx.finding(Finding(PID, "serve-hangs", "serve() does not end after the peer is gone and all handlers "
                            "completed", detail))
        return
    status = serve_status(sim.task)
    injected_unpicklable = any(v[0] == "unpicklable" for v in sim.injected.values())
    allowed_status = {"done", "fail:badHeader", "fail:notCall"} | ({"fail:unpicklable"} if injected_unpicklable else set())
    if status not in allowed_status:
        ctx.finding(Finding(PID, "serve-unexpected-end", f"serve() ended with {status}", detail))
    mine_cancelled = [t for t in getattr(handler, "cancelled", []) if sim.mine(t)]
    if mine_cancelled and not injected_unpicklable and not stream_is_malformed(bytes(sim.fed)):
        ctx.finding(Finding(PID, "handlers-cancelled-without-protocol-violation",
                            f"{len(mine_cancelled)} handler(s) were cancelled although every request arrived in full "
                            "and the peer sent nothing malformed (a vanished peer must not cost a handler)", detail))
    if handler.forbidden:
        ctx.finding(Finding(PID, "non-exposed-procedure-called",
                            f"a procedure without @allow_rpc was entered: {handler.forbidden[:3]}", detail))
    calls = decoded_calls(sim)
    recv_ids: dict[int, int] = {}
    for cid, _obj in calls:
        recv_ids[cid] = recv_ids.get(cid, 0) + 1
    sent_ids: dict[int, int] = {}
    for cid, kind, _payload in sim.replies:
        sent_ids[cid] = sent_ids.get(cid, 0) + 1
    for cid, n in sent_ids.items():
        if cid not in recv_ids:
            ctx.finding(Finding(PID, "reply-with-foreign-id", f"a reply carries call id {cid} that no request had",
                                {**detail, "received": sorted(recv_ids)[:20]}))
        elif n > recv_ids[cid]:
            ctx.finding(Finding(PID, "duplicate-reply", f"{n} replies for {recv_ids[cid]} call(s) with id {cid}", detail))
    # procedures entered: only good calls (the generator attaches a tag to exactly those)
    for tag in sim.invoked:
        if tag not in sim.tags:
            ctx.finding(Finding(PID, "unexpected-invocation", f"a handler ran for tag {tag} that no good call carried",
                                detail))
    # each reply to an invoked call must be what the handler produced, under the id of that call
    by_payload = {}
    for cid, kind, payload in sim.replies:
        if kind == "v" and isinstance(payload, tuple) and len(payload) >= 2 and payload[0] == "value":
            by_payload.setdefault(("ok", payload[1]), []).append(cid)
        elif isinstance(payload, RemoteFailure) and kind[:2] in ("fu", "fi") and re.search(r"tag=(\d+);", payload.message):
            tag = int(re.search(r"tag=(\d+);", payload.message).group(1))
            by_payload.setdefault(("raise", tag), []).append((cid, kind))
    clean_end = status == "done" and not sim.lost
    for tag, inj in sim.injected.items():
        if inj[0] == "ok":
            got = by_payload.get(("ok", tag), [])
            wrong = [c for c in got if c != sim.tags[tag]]
        elif inj[0] == "raise":
            got = by_payload.get(("raise", tag), [])
            exp_kind = ("fu" if EXC_POOL[inj[1]][1] else "fi") + str(inj[1])
            wrong = [c for c in got if c != (sim.tags[tag], exp_kind)]
        else:
            continue
        if wrong:
            ctx.finding(Finding(PID, "reply-mispaired", f"the result of the call with id {sim.tags[tag]} was sent as "
                                f"{wrong[:2]}", detail))
        if len(got) > 1:
            ctx.finding(Finding(PID, "duplicate-reply", f"{len(got)} replies for one call (id {sim.tags[tag]})", detail))
        if len(got) == 0 and clean_end and tag in sim.completed_live:
            ctx.finding(Finding(PID, "reply-missing", f"the call with id {sim.tags[tag]} completed while the connection "
                                "was live and was never answered", detail))
    # handlers that raised CancelledError from inside: an error reply under their id, like any internal fault
    want_fc: dict[int, int] = {}
    live_fc: dict[int, int] = {}
    for tag, inj in sim.injected.items():
        if inj[0] == "cancel-inside":
            want_fc[sim.tags[tag]] = want_fc.get(sim.tags[tag], 0) + 1
            if tag in sim.completed_live:
                live_fc[sim.tags[tag]] = live_fc.get(sim.tags[tag], 0) + 1
    got_fc: dict[int, int] = {}
    for cid, kind, _payload in sim.replies:
        if kind == "fc":
            got_fc[cid] = got_fc.get(cid, 0) + 1
    for cid, n in got_fc.items():
        if n > want_fc.get(cid, 0):
            ctx.finding(Finding(PID, "duplicate-reply", f"{n} CancelledError replies under id {cid} for "
                                f"{want_fc.get(cid, 0)} such handler(s)", detail))
    if clean_end:
        for cid, n in live_fc.items():
            if got_fc.get(cid, 0) < n:
                ctx.finding(Finding(PID, "reply-missing", f"the handler of the call with id {cid} ended on a "
                                    "CancelledError from inside while the connection was live and the call was "
                                    "never answered", detail))
    if getattr(sim, "clean", False) and clean_end and sent_ids != recv_ids:
        ctx.finding(Finding(PID, "reply-missing", "a connection without faults did not answer every call exactly once",
                            {**detail, "received": recv_ids, "replied": sent_ids}))
    # the class of the error a caller sees
    for cid, kind, payload in sim.replies:
        if isinstance(payload, RemoteFailure) and kind[:2] in ("fu", "fi") and kind[2:].isdigit():
            idx = int(kind[2:])
            for debug in (False, True):
                with debug_env(debug):
                    try:
                        R._raise_remote_error(payload, RPCCall("p", (), {}))
                        seen = "no-exception"
                    except BaseException as exc:  # noqa: BLE001
                        seen = type(exc).__qualname__
                if seen != expected_class(idx, debug):
                    ctx.finding(Finding(PID, "failure-class-mismatch",
                                        f"{type(EXC_POOL[idx][0]()).__qualname__} raised by a handler reaches the caller "
                                        f"as {seen} (debug={debug}), expected {expected_class(idx, debug)}", detail))


async def oracle_director_names(ctx):
    """Every name that `DirectorHandler` does not expose, sent to a real connection serving it."""
    handler, entered = director_probe()
    names = [n for n in name_candidates(None)
             if not (hasattr(type(handler), n) and R.is_rpc_allowed(getattr(type(handler), n, None)))]
    sim = ConnSim(handler, 0)
    sim.hung, sim.frames = False, []
    await asyncio.wait_for(settle(), TIMEOUT)
    data = b"".join(R._encode_message(i + 1, R._encode_body(RPCCall(n, (), {}))) for i, n in enumerate(names))
    for chunk in chunkings(ctx.rng("names"), data, "random"):
        await sim.apply("b", chunk)
    await finish_all(ctx.rng("names2"), [sim])
    ctx.stats.case(("director-names", len(names)))
    kinds = [k for _c, k, _p in sim.replies]
    if entered:
        ctx.finding(Finding(PID, "non-exposed-procedure-called",
                            f"DirectorHandler.{entered[0]} was entered through RPC", {"entered": entered[:10]}))
    if len(kinds) != len(names) or any(k != "fr" for k in kinds) or [c for c, _k, _p in sim.replies] != list(
            range(1, len(names) + 1)):
        bad = [(n, k) for n, k in zip(names, kinds) if k != "fr"][:5]
        ctx.finding(Finding(PID, "non-exposed-name-not-rejected",
                            f"{len(names)} non-exposed names, {len(kinds)} replies, not rejected: {bad}",
                            {"names": names[:40]}))
    if serve_status(sim.task) != "done":
        ctx.finding(Finding(PID, "serve-unexpected-end", f"serve() ended with {serve_status(sim.task)}", {}))


class EchoHandler:
    @allow_rpc
    async def echo(self, x):
        await asyncio.sleep(0)
        return x

    @allow_rpc
    async def fail(self, which):
        raise (X.GraphError("usage") if which == "usage" else KeyError("internal"))

    @allow_rpc
    async def slow(self, x):
        await asyncio.sleep(0.05)
        return x


async def oracle_real_socket(ctx):
    """A real `SocketRPCServer`: vanished peers and malformed frames must leave it serving."""
    r = ctx.rng("socket")
    tmp = tempfile.mkdtemp(prefix="verif-c16-")
    path = os.path.join(tmp, "s")
    loop = asyncio.get_running_loop()
    contexts = []
    old_handler = loop.get_exception_handler()
    loop.set_exception_handler(lambda _loop, context: contexts.append(context))
    stop = asyncio.Event()
    server = R.SocketRPCServer(EchoHandler(), path)
    task = asyncio.create_task(server.serve(stop))
    problems = []
    n_malformed = 0
    try:
        for _ in range(200):
            if os.path.exists(path):
                break
            await asyncio.sleep(0.01)
        good = R.SocketAsyncRPCClient(path)
        try:
            if await asyncio.wait_for(good.call.echo(1), TIMEOUT) != 1:
                problems.append("echo before faults")
        except Exception as exc:  # noqa: BLE001
            problems.append(f"first call: {type(exc).__name__}: {exc}")
        request = R._encode_message(5, R._encode_body(RPCCall("slow", (7,), {})))
        faults = ["connect-close", "garbage", "half-header", "half-body", "call-then-vanish", "not-a-call",
                  "zero-bytes-then-garbage", "close-then-garbage"]
        for i in range(ctx.budget(16, 120)):
            if len(problems) > 5:
                break
            fault = faults[i % len(faults)]
            rd, wr = await asyncio.wait_for(asyncio.open_unix_connection(path), TIMEOUT)
            if fault == "garbage":
                wr.write(r.choice(GARBAGE_HEADERS))
                n_malformed += 1
            elif fault == "half-header":
                wr.write(request[:r.randrange(1, 16)])
            elif fault == "half-body":
                wr.write(request[:r.randrange(17, len(request))])
            elif fault == "call-then-vanish":
                wr.write(request)
            elif fault == "not-a-call":
                wr.write(R._encode_message(1, r.choice(NOT_CALLS)))
                n_malformed += 1
            elif fault == "zero-bytes-then-garbage":
                wr.write(bytes(16) + b"\xff" * 16)  # a close request, then bytes that are never read
            elif fault == "close-then-garbage":
                wr.write(R._encode_message(3, None) + b"junk")
            with contextlib.suppress(ConnectionError):
                await asyncio.wait_for(wr.drain(), TIMEOUT)
            if fault == "call-then-vanish" and r.random() < 0.5:
                wr.transport.abort()
            else:
                wr.close()
            with contextlib.suppress(ConnectionError, OSError):
                await asyncio.wait_for(wr.wait_closed(), TIMEOUT)
            try:
                val = await asyncio.wait_for(good.call.echo(i), TIMEOUT)
                if val != i:
                    problems.append(f"echo returned {val!r} for {i} after {fault}")
                other = R.SocketAsyncRPCClient(path)
                try:
                    await asyncio.wait_for(other.call.fail("usage"), TIMEOUT)
                    problems.append("no exception from fail()")
                except X.GraphError:
                    pass
                await asyncio.wait_for(other.close(), TIMEOUT)
            except Exception as exc:  # noqa: BLE001
                problems.append(f"{type(exc).__name__}: {exc} after {fault}")
            ctx.stats.case(("socket", fault, i))
        await asyncio.sleep(0.1)
        try:
            await asyncio.wait_for(good.close(), TIMEOUT)
        except Exception as exc:  # noqa: BLE001
            problems.append(f"closing the well-behaved client raised {type(exc).__name__}: {exc}")
        stop.set()
        try:
            await asyncio.wait_for(task, TIMEOUT)
        except Exception as exc:  # noqa: BLE001
            problems.append(f"server.serve raised {type(exc).__name__}: {exc}")
    finally:
        loop.set_exception_handler(old_handler)
        if not task.done():
            task.cancel()
        shutil.rmtree(tmp, ignore_errors=True)
    # asyncio reports the ExceptionGroup that `serve()` raises by design for a malformed frame through the
    # loop's exception handler; anything else there is an unhandled exception of the director side
    unexpected = []
    for c in contexts:
        exc = c.get("exception")
        ok = (isinstance(exc, BaseExceptionGroup) and all(isinstance(e, X.RPCError) for e in exc.exceptions))
        if not ok:
            unexpected.append(f"{c.get('message')}: {exc!r}"[:200])
    ctx.extra["socket_malformed_frames_reported_via_loop_handler"] = len(contexts) - len(unexpected)
    ctx.extra["socket_malformed_frames_sent"] = n_malformed
    if problems:
        ctx.finding(Finding(PID, "server-disturbed-by-faulty-peer", problems[0], {"problems": problems[:10]}))
    if unexpected:
        ctx.finding(Finding(PID, "server-unhandled-exception", unexpected[0], {"contexts": unexpected[:10]}))


async def oracle_sync_client(ctx):
    """Thorough tier: the blocking client over a socketpair against a real connection."""
    r = ctx.rng("sync")
    for i in range(30):
        a, b = socket.socketpair(socket.AF_UNIX)
        reader, writer = await asyncio.wait_for(asyncio.open_connection(sock=a), TIMEOUT)
        conn = RPCServerConnection(EchoHandler(), reader, writer)
        serve = asyncio.create_task(conn.serve())
        client = R.SocketSyncRPCClient("socketpair")
        client._socket = b
        client._reader = R._SocketReader(b, "socketpair")
        results = []

        def work():
            for j in range(r.randint(1, 6)):
                k = r.random()
                try:
                    if k < 0.6:
                        results.append(("echo", j, client("echo", j, _rpc_timeout=10.0)))
                    elif k < 0.8:
                        client("fail", "usage", _rpc_timeout=10.0)
                    elif k < 0.9:
                        client("fail", "internal", _rpc_timeout=10.0)
                    else:
                        client("nope", _rpc_timeout=10.0)
                except BaseException as exc:  # noqa: BLE001
                    results.append(("exc", j, type(exc).__qualname__, k))
            client.close()

        await asyncio.wait_for(asyncio.to_thread(work), 60)
        try:
            await asyncio.wait_for(serve, TIMEOUT)
        except Exception as exc:  # noqa: BLE001
            ctx.finding(Finding(PID, "serve-unexpected-end", f"serve() raised {exc!r} with the sync client", {}))
        ctx.stats.case(("sync", i, len(results)))
        for res in results:
            ok = ((res[0] == "echo" and res[1] == res[2])
                  or (res[0] == "exc" and ((0.6 <= res[3] < 0.8 and res[2] == "GraphError")
                                           or (res[3] >= 0.8 and res[2] == "RPCError"))))
            if not ok:
                ctx.finding(Finding(PID, "sync-client-mispaired", f"synchronous call got {res}", {"results": results}))


# witnesses of the `_negation` theorems, replayed on the real code (not defects of their own: see Props/C16.lean)


async def replay_drop_after_eof() -> dict:
    """`server_exactly_once_negation`: call, EOF, the handler completes: no reply is written."""
    handler = Handler()
    sim = ConnSim(handler, 0)
    sim.hung, sim.frames = False, []
    sim.tags[1] = 7
    await asyncio.wait_for(settle(), TIMEOUT)
    await sim.apply("b", R._encode_message(7, R._encode_body(RPCCall("work", (1,), {}))))
    await sim.apply("e")
    await sim.apply("c", (1, "r"))
    with contextlib.suppress(BaseException):
        await asyncio.wait_for(sim.task, TIMEOUT)
    return {"invoked": list(sim.invoked), "replies": [(c, k) for c, k, _p in sim.replies],
            "serve": serve_status(sim.task), "reproduced": len(sim.invoked) == 1 and not sim.replies}


async def replay_unpicklable_cancels_others() -> dict:
    """`failure_isolated_negation`: two calls in flight, the first returns a value that cannot be pickled."""
    handler = Handler()
    sim = ConnSim(handler, 0)
    sim.hung, sim.frames = False, []
    sim.tags[1], sim.tags[2] = 1, 2
    await asyncio.wait_for(settle(), TIMEOUT)
    await sim.apply("b", b"".join(R._encode_message(i, R._encode_body(RPCCall("work", (i,), {}))) for i in (1, 2)))
    await sim.apply("c", (1, "n"))
    with contextlib.suppress(BaseException):
        await asyncio.wait_for(sim.task, TIMEOUT)
    return {"replies": [(c, k) for c, k, _p in sim.replies], "cancelled": list(handler.cancelled),
            "serve": serve_status(sim.task),
            "reproduced": handler.cancelled == [2] and [(c, k) for c, k, _p in sim.replies] == [(1, "s")]}


async def replay_unknown_reply_id() -> dict:
    """`client_pairing_negation`: a reply with an unknown id fails the other pending call."""
    sim = ClientSim()
    await sim.call(0)
    await sim.feed(R._encode_message(99, R._encode_body("x")))
    out = sim.outcome(0)
    try:
        await asyncio.wait_for(sim.client.close(), TIMEOUT)
        closed = "ok"
    except BaseException as exc:  # noqa: BLE001
        closed = type(exc).__qualname__
    return {"call": out, "close": closed, "reproduced": out == "exc:ConnectionResetError" and closed == "RPCError"}


# ---------------------------------------------------------------------------------------------
# "Requester gone, handler still busy": shared with C15 (received in full is applied in full)
# ---------------------------------------------------------------------------------------------

GONE_WAYS = ["eof", "reset", "close", "close+eof", "vanish", "midframe", "stop"]
GONE_POINTS = ["after-start", "after-other-reply", "writer-blocked"]
GONE_WAITS = ["future", "lock"]


async def gone_case(how: str, point: str, wait: str):
    """One scenario on the virtual clock.  Connection A has a busy call (id 1, waits on a future or
    on a lock) and another call (id 2); connection B, served for the same handler, has one call in
    flight.  After the requests arrived in full the peer of A goes away (`how`) at `point`, an hour
    passes, then the handlers are released.  Returns (problems, sims, handler)."""
    handler = Handler()
    if wait == "lock":
        await asyncio.wait_for(handler.lock.acquire(), TIMEOUT)
    a, b = ConnSim(handler, 0), ConnSim(handler, 1)
    for sim in (a, b):
        sim.frames, sim.hung = [], False
    a.tags = {1: 1, 2: 2, 3: 3}
    b.tags = {10: 1}
    busy = "work_lock" if wait == "lock" else "work"
    req = [R._encode_message(1, R._encode_body(RPCCall(busy, (1,), {}))),
           R._encode_message(2, R._encode_body(RPCCall("work", (2,), {}))),
           R._encode_message(3, R._encode_body(RPCCall("work", (3,), {})))]
    await asyncio.wait_for(settle(), TIMEOUT)
    await a.apply("b", req[0] + req[1])
    await b.apply("b", R._encode_message(1, R._encode_body(RPCCall("work", (10,), {}))))
    if point == "after-other-reply":
        await a.apply("c", (2, "r"))
    elif point == "writer-blocked":
        await a.apply("p")
        await a.apply("c", (2, "r"))
    # the requester goes away
    if how == "eof":  # half-close: the peer shut down its sending side
        await a.apply("e")
    elif how == "reset":
        await a.apply("x")
    elif how == "close":
        await a.apply("b", R._encode_message(9, None))
    elif how == "close+eof":  # what `SocketAsyncRPCClient.close()` does
        await a.apply("b", R._encode_message(9, None))
        await a.apply("e")
    elif how == "vanish":
        await a.apply("e")
        await a.apply("l", ("reset", "d"))
    elif how == "midframe":  # dies while sending a later request
        await a.apply("b", req[2][:len(req[2]) // 2])
        await a.apply("e")
    elif how == "stop":
        await a.apply("s")
    await a.apply("t")
    cancelled_early = [t for t in handler.cancelled if t in a.tags]
    if a.paused and not a.task.done():
        await a.apply("d")
    for tag in (1, 2):
        await complete_if_pending(a, (tag, "r"))
    await complete_if_pending(b, (10, "r"))
    if wait == "lock" and handler.lock.locked() and 1 not in handler.applied and 1 in handler.cancelled:
        handler.lock.release()
    await finish_all(common.rng("gone"), [a, b])
    problems = []
    where = {"how": how, "point": point, "handler_waits_on": wait}
    for tag in (1, 2):
        if tag in handler.cancelled or handler.applied.count(tag) != 1:
            when = "within the hour after the peer went away" if tag in cancelled_early else "at teardown"
            problems.append((f"handler-cancelled-after-peer-gone:{how}",
                             f"the request with call id {a.tags[tag]} had arrived in full; after the requester went away "
                             f"({how}, {point}) its handler was cancelled {when} instead of running to completion "
                             f"(applied {handler.applied.count(tag)} times)", where))
    if [(c, k) for c, k, _p in b.replies] != [(1, "v")] or 10 in handler.cancelled or handler.applied.count(10) != 1:
        problems.append((f"other-connection-disturbed:{how}", "a call on another connection of the same handler was not "
                         f"answered exactly once: {[(c, k) for c, k, _p in b.replies]}", where))
    for sim, name in ((a, "the connection of the vanished peer"), (b, "the other connection")):
        if sim.hung or serve_status(sim.task) != "done":
            problems.append((f"serve-unexpected-end:{how}", f"serve() of {name} "
                             f"{'did not end' if sim.hung else 'ended with ' + serve_status(sim.task)}", where))
    ids = [c for c, _k, _p in a.replies]
    if len(ids) != len(set(ids)) or any(c not in (1, 2) for c in ids):
        problems.append(("duplicate-reply", f"replies {ids} for the calls 1 and 2", where))
    return problems, [a, b], handler


async def gone_family(report, collect=None):
    for how in GONE_WAYS:
        for point in GONE_POINTS:
            for wait in GONE_WAITS:
                problems, sims, handler = await gone_case(how, point, wait)
                for sig, what, where in problems:
                    report(sig, what, {**where, "gone_case": [how, point, wait],
                                       "events": {f"connection {sim.cid}": [e[:50] for e in sim.events] for sim in sims}})
                if collect is not None:
                    collect(sims, handler)
    return len(GONE_WAYS) * len(GONE_POINTS) * len(GONE_WAITS)


async def applied_after_disconnect(ctx, pid: str, collect=None) -> int:
    """Shared oracle (C16, C15): a request that was received in full is applied in full, exactly once,
    however and whenever its requester goes away afterwards and however long the handler still waits; other
    connections are not disturbed.  Real `RPCServerConnection`s on in-memory streams, on a virtual clock (one
    hour passes between the disconnect and the release of the handler; no real sleeps).  Findings are reported
    under `pid` with signatures `handler-cancelled-after-peer-gone:<how>` etc."""
    def report(sig, what, detail):
        ctx.finding(Finding(pid, sig, what, detail))

    n = await asyncio.wait_for(asyncio.to_thread(run_virtual, lambda: gone_family(report, collect)), 300)
    for i in range(n):
        ctx.stats.case(("requester-gone", i))
    ctx.stats.count("requester-gone.cases", n)
    return n


async def oracle_concurrent_callers(ctx):
    """Several callers of ONE async client at once, payloads from tiny to larger than the transport buffer, the
    transport pausing (`drain()` yields) at any of them: the bytes on the wire must be whole request frames, one
    per caller, and each caller gets the reply that carries its own call id."""
    r = ctx.rng("concurrent-callers")
    for i in range(ctx.budget(30, 300)):
        sim = ClientSim()
        ncall = r.randint(2, 5)
        sizes = [r.choice([0, 10, HIGH_WATER // 2, HIGH_WATER + 5, 3 * HIGH_WATER]) for _ in range(ncall)]
        if i % 2 == 0:
            sizes[r.randrange(ncall)] = 3 * HIGH_WATER  # at least one pauses the transport
        if r.random() < 0.4:
            sim.tr.pause()

        async def fake_open(path, sim=sim):
            return sim.reader, sim.writer

        real = asyncio.open_unix_connection
        asyncio.open_unix_connection = fake_open
        try:
            tasks = [asyncio.create_task(sim.client.call.proc(c, pad=b"p" * sizes[c])) for c in range(ncall)]
            await asyncio.wait_for(settle(), TIMEOUT)
            victim = None
            if sim.tr.paused and r.random() < 0.5:
                # a caller gives up (asyncio.timeout) while its send waits for the paused transport: its request
                # is already on the wire; the other calls of the client must not notice
                victim = r.randrange(ncall)
                tasks[victim].cancel()
                await asyncio.wait_for(settle(), TIMEOUT)
            for _ in range(ncall + 2):
                if sim.tr.paused:
                    sim.tr.resume()
                await asyncio.wait_for(settle(), TIMEOUT)
        finally:
            asyncio.open_unix_connection = real
        ctx.stats.count("oracle:concurrent-callers")
        ctx.stats.case(("concurrent-callers", tuple(sizes)), nontrivial=max(sizes) > HIGH_WATER)
        problems = []
        try:
            frames, rest = parse_frames(bytes(sim.tr.data))
        except Exception as exc:  # noqa: BLE001
            frames, rest = [], b"?"
            problems.append(f"the request stream does not parse: {exc!r}")
        id_of = {}
        for cid, body in frames:
            try:
                call = pickle.loads(body) if body is not None else None
            except Exception as exc:  # noqa: BLE001
                problems.append(f"frame {cid}: the body is not a pickled call ({type(exc).__name__})")
                continue
            if not isinstance(call, RPCCall) or call.name != "proc" or len(call.args) != 1 or \
                    call.kwargs.get("pad") != b"p" * sizes[call.args[0]]:
                problems.append(f"frame {cid}: not the request of one caller")
                continue
            if call.args[0] in id_of:
                problems.append(f"caller {call.args[0]} appears in two frames")
            id_of[call.args[0]] = cid
        if rest:
            problems.append(f"{len(rest)} trailing bytes that are not a frame")
        if not problems and sorted(id_of) != list(range(ncall)):
            problems.append(f"requests on the wire for callers {sorted(id_of)} of {ncall}")
        if not problems:
            order = list(id_of.items())
            r.shuffle(order)
            for caller, cid in order:
                sim.reader.feed_data(R._encode_message(cid, R._encode_body(("reply-of", caller))))
            await asyncio.wait_for(settle(), TIMEOUT)
            for caller, t in enumerate(tasks):
                got = (t.result() if t.done() and not t.cancelled() and t.exception() is None else
                       ("pending" if not t.done() else repr(t.exception() if not t.cancelled() else "cancelled")))
                if caller == victim:
                    if got != "'cancelled'":
                        problems.append(f"the cancelled caller {caller} got {got!r}")
                elif got != ("reply-of", caller):
                    problems.append(f"caller {caller} got {got!r}" + (" after caller %d was cancelled in drain()" % victim
                                                                      if victim is not None else ""))
            if victim is not None and not problems:
                ctx.stats.count("oracle:concurrent-callers:cancelled-in-drain")
        for t in tasks:
            if not t.done():
                t.cancel()
        sim.reader.feed_eof()
        with contextlib.suppress(BaseException):
            await asyncio.wait_for(sim.client.close(), TIMEOUT)
        await asyncio.gather(*tasks, return_exceptions=True)
        if problems:
            ctx.finding(Finding(PID, "client-requests-interleaved" if any("parse" in p or "frame" in p for p in problems)
                                else ("client-call-cancelled-in-drain-disturbs-others" if victim is not None else "client-pairing-wrong"),
                                f"{ncall} concurrent callers of one async client (payload sizes {sizes}): " + "; ".join(problems[:3]),
                                {"sizes": sizes, "problems": problems[:8]}))


async def search(ctx):
    r = ctx.rng("oracle")
    counts = {"connections": 0}
    await oracle_concurrent_callers(ctx)

    async def check(sims, streams, handler):
        for sim in sims:
            counts["connections"] += 1
            ctx.stats.case(("oracle-conn", tuple(sim.events)), bool(sim.replies))
            oracle_conn(ctx, sim, handler, "random")

    await run_conn_batch(ctx, r, ctx.budget(1200, 10000), check=check)
    await offset_family(ctx, r, TagSource(), check=check)
    await fault_families(ctx, r, TagSource(), check=check)
    await burst_families(ctx, r, TagSource(), check=check)
    await applied_after_disconnect(ctx, PID)
    with debug_env(False):
        await oracle_director_names(ctx)
        await oracle_real_socket(ctx)
        if ctx.tier == "thorough":
            await oracle_sync_client(ctx)
    ctx.extra["oracle_connections"] = counts["connections"]
    ctx.extra["negation_witnesses_on_real_code"] = {
        "server_exactly_once_negation": await replay_drop_after_eof(),
        "client_pairing_negation": await replay_unknown_reply_id(),
        "failure_isolated_negation": await replay_unpicklable_cancels_others(),
    }


async def replay_script(ctx, script: dict, sig: str) -> dict:
    """Apply a recorded event script to a fresh real connection and run the oracle on it."""
    handler = Handler()
    sim = ConnSim(handler, 0)
    sim.frames, sim.hung = [], False
    sim.tags = {int(t): i for t, i in script["tags"].items()}
    await asyncio.wait_for(settle(), TIMEOUT)
    for tok, arg in script["impl_events"]:
        if tok == "b":
            await sim.apply("b", bytes.fromhex(arg))
        elif tok == "c":
            tag, out = arg
            if tag in handler.futs and not handler.futs[tag].done():
                await sim.apply("c", (tag, out))
        elif tok == "l":
            await sim.apply("l", tuple(arg) if arg else None)
        elif (tok == "d" and not sim.paused) or (tok == "p" and sim.paused):
            continue
        else:
            await sim.apply(tok)
    await finish_all(ctx.rng("replay"), [sim])
    oracle_conn(ctx, sim, handler, "replay")
    return {"reproduced": any(f.signature == sig for f in ctx.findings), "signature": sig,
            "findings": [[f.signature, f.what] for f in ctx.findings],
            "observed": {"events": [e[:60] for e in sim.events], "replies": [(c, k) for c, k, _p in sim.replies],
                         "cancelled_handlers": list(handler.cancelled), "serve": serve_status(sim.task)}}


async def replay(ctx, detail):
    sig = detail.get("signature", "")
    script = detail.get("detail", {}).get("replay")
    if script:
        return await replay_script(ctx, script, sig)
    case = detail.get("detail", {}).get("gone_case")
    if case:
        problems, sims, handler = await asyncio.wait_for(
            asyncio.to_thread(run_virtual, lambda: gone_case(*case)), 120)
        return {"reproduced": any(p[0] == sig for p in problems), "signature": sig,
                "problems": [[p[0], p[1]] for p in problems],
                "observed": {"applied": handler.applied, "cancelled_handlers": handler.cancelled,
                             "serve": [serve_status(sim.task) for sim in sims],
                             "events": [[e[:50] for e in sim.events] for sim in sims]}}
    if sig == "server_exactly_once_negation":
        return {**(await replay_drop_after_eof()), "signature": sig}
    if sig == "client_pairing_negation":
        return {**(await replay_unknown_reply_id()), "signature": sig}
    if sig == "failure_isolated_negation":
        return {**(await replay_unpicklable_cancels_others()), "signature": sig}
    await search(ctx)
    return {"reproduced": any(f.signature == sig for f in ctx.findings), "signature": sig,
            "findings": [f.signature for f in ctx.findings]}
