"""C11: exactly the needed steps are executed.

Kernel part: correspondence over the scheduler/declaration/cleanup/startup scopes (need
propagation, target reconciliation, revert of optional steps).  Oracle on the real database: at
every dispatch the dispatched step's need, computed from scratch by the definition (declared
need, exact and directory targets, consumers through chains of producers), is above the
threshold, and nothing needed and otherwise eligible is left; after `revert_optional_steps`
exactly the outputs of attached steps that are not needed are queued and reset.
"""

from __future__ import annotations

import kcorr
import koracles
from common import Finding
from stepup.core.enums import FileState, Need, StepState

PID = "C11"
LEVEL = "proof"
ASSUMPTIONS = [
    "that the cached _implied_need equals its definition whenever a decision is taken is decided by the "
    "from-scratch oracle on generated sequences (C10 cache invariant), not by a theorem yet",
    "whole-build statements (every needed step built, nothing else) are decided on simulated builds",
]
SCOPES = {"scheduler", "declarations", "cleanup", "startup", "completion"}


class Observer:
    def __init__(self, ctx, run):
        self.ctx = ctx
        self.pre_revert = None
        run.before_pop = self.before_pop
        self.run = run
        self.needs = None

    def before_pop(self):
        if getattr(self.run, "tainted", False):
            self.needs = None
            return
        sn = koracles.Snapshot(self.run.wf)
        self.needs = (koracles.implied_need_spec(sn), sn)

    def __call__(self, run, op, line, ans):
        legal = run.legal[-1]
        if not legal and ans.startswith("ok"):
            run.tainted = True
        if getattr(run, "tainted", False) or not ans.startswith("ok"):
            return
        ctx = self.ctx
        wf = run.wf
        if op == "pop" and self.needs is not None and ans.split(" ")[1] != "none":
            needs, sn = self.needs
            label = bytes.fromhex(line.split(" ")[2].split(":")[1]).decode()
            i = next(j for j, n in sn.nodes.items() if n[0] == "step" and n[1] == label)
            ctx.stats.count("oracle-dispatches-checked")
            if needs.get(i, 0) <= wf.need_threshold.value:
                ctx.finding(Finding(PID, "unneeded-step-dispatched",
                                    f"'{label}' was dispatched although its need by definition is "
                                    f"{Need(needs.get(i, 31)).name} (threshold {wf.need_threshold.name})",
                                    {"step": label, "requests": [kcorr.decode_line(x) for x in run.lines][-15:],
                                     "protocol_lines": list(run.lines)}))
        if op == "update_meta":
            sn = koracles.Snapshot(wf)
            needs = koracles.implied_need_spec(sn)
            self.pre_revert = (sn, needs)
            for i, need in needs.items():
                ctx.stats.count("oracle-need-comparisons")
                if sn.steps[i]["_implied_need"] != need:
                    ctx.finding(Finding(PID, "implied-need-differs",
                                        f"_implied_need of '{sn.nodes[i][1]}' is {sn.steps[i]['_implied_need']}, "
                                        f"the definition gives {need}",
                                        {"step": sn.nodes[i][1], "requests": [kcorr.decode_line(x) for x in run.lines][-15:],
                                         "protocol_lines": list(run.lines)}))
        if op == "revert_optional" and self.pre_revert is not None:
            sn0, needs = self.pre_revert
            sn1 = koracles.Snapshot(wf)
            expect = set()
            for i, need in needs.items():
                if need == Need.OPTIONAL.value:
                    for _, f in sn0.sinks(i):
                        if sn0.nodes[f][0] == "file" and sn0.files[f][0] in (FileState.BUILT.value, FileState.OUTDATED.value,
                                                                            FileState.VOLATILE.value):
                            expect.add(sn0.nodes[f][1])
            queued = {str(p) for p in wf.to_be_deleted if not str(p).endswith("/")}
            ctx.stats.count("oracle-reverts-checked")
            if queued != expect:
                ctx.finding(Finding(PID, "revert-optional-selection",
                                    f"revert_optional_steps queued {sorted(queued)}, the outputs of attached unneeded "
                                    f"steps are {sorted(expect)}",
                                    {"requests": [kcorr.decode_line(x) for x in run.lines][-15:],
                                     "protocol_lines": list(run.lines)}))
            for i, need in needs.items():
                if need == Need.OPTIONAL.value and i in sn1.steps and sn1.steps[i]["state"] != StepState.PENDING.value:
                    ctx.finding(Finding(PID, "revert-optional-state",
                                        f"unneeded step '{sn1.nodes[i][1]}' is {StepState(sn1.steps[i]['state']).name} "
                                        f"after the revert", {"requests": [kcorr.decode_line(x) for x in run.lines][-15:]}))
            self.pre_revert = None


async def correspond(ctx):
    await kcorr.run(ctx, SCOPES, observers=[Observer], salt="c11")


async def cli_targets(ctx):
    """Targets as the user types them: `stepup build <targets>` started in any directory of the project
    (STEPUP_ROOT pointing at the root) must hand the director the root-relative paths of the files
    the user named from where they stand.  Runs the real `tui._async_build` with the parser's own
    arguments; only the launch of the director process is replaced (its argv is captured)."""
    import os
    import shutil
    import sys
    import tempfile

    from stepup.core import __main__ as stepup_main
    from stepup.core import tui

    r = ctx.rng("cli-targets")
    saved = (tui._supervise_director, os.getcwd(), os.environ.get("STEPUP_ROOT"), sys.argv)
    captured = {}

    async def fake_supervise(argv, *a, **k):
        captured["argv"] = list(argv)
        return 0

    tui._supervise_director = fake_supervise
    base = os.path.realpath(tempfile.mkdtemp(prefix="c11-cli-"))
    try:
        for i in range(ctx.budget(40, 400)):
            depth = r.choice([0, 1, 1, 2])
            root = os.path.join(base, f"p{i}")
            sub = os.path.join(root, *["sub", "deep"][:depth])
            os.makedirs(os.path.join(sub, "gen"), exist_ok=True)
            os.makedirs(os.path.join(root, "gen"), exist_ok=True)
            open(os.path.join(root, "plan.py"), "w").write("#!/usr/bin/env python3\n")
            raw = []
            for _ in range(r.randint(1, 3)):
                name = r.choice(["out.txt", "gen/", "gen/deep.txt", "./out.txt", "x/../out.txt"])
                style = r.random()
                if style < 0.6:
                    raw.append(name)
                elif style < 0.8 and depth:
                    raw.append("../" + name)
                else:
                    raw.append(os.path.join(sub, name))
            os.chdir(sub)
            os.environ["STEPUP_ROOT"] = root if r.random() < 0.5 else os.path.relpath(root, sub)
            captured.clear()
            try:
                sys.argv = ["stepup", "build", "-j", "1", *raw]
                import contextlib
                import io

                with contextlib.redirect_stdout(io.StringIO()):
                    parser, _loader = stepup_main._setup_cli()
                    args = parser.parse_args(sys.argv[1:])
                    await tui._async_build(args)
            except SystemExit:
                pass
            except Exception as exc:
                ctx.finding(Finding(PID, "cli-targets-error", f"stepup build {raw} in {os.path.relpath(sub, base)}: "
                                    f"{type(exc).__name__}: {exc}", {"raw": raw, "cwd": os.path.relpath(sub, root)}))
                continue
            finally:
                os.chdir(base)
            argv = captured.get("argv", [])
            got_files = sorted(a.split("=", 1)[1] for a in argv if a.startswith("--target="))
            got_dirs = sorted(a.split("=", 1)[1] for a in argv if a.startswith("--target-dir="))
            want_files, want_dirs = [], []
            for t in raw:
                abs_t = os.path.normpath(t if os.path.isabs(t) else os.path.join(sub, t))
                rel = os.path.relpath(abs_t, root)
                (want_dirs if t.endswith("/") else want_files).append(rel + ("/" if t.endswith("/") else ""))
            ctx.stats.count("cli-target-cases")
            ctx.stats.case(("cli", i), depth > 0)
            if (got_files, got_dirs) != (sorted(want_files), sorted(want_dirs)):
                ctx.finding(Finding(PID, "cli-target-names-another-file",
                                    f"`stepup build {' '.join(raw)}` typed in {os.path.relpath(sub, root) or '.'} hands the director "
                                    f"targets {got_files} dirs {got_dirs}; the user named {sorted(want_files)} dirs {sorted(want_dirs)}",
                                    {"raw": raw, "cwd": os.path.relpath(sub, root), "stepup_root_env": os.environ["STEPUP_ROOT"],
                                     "got": [got_files, got_dirs], "want": [sorted(want_files), sorted(want_dirs)]}))
                break
    finally:
        tui._supervise_director, cwd, env_root, sys.argv = saved
        os.chdir(cwd)
        if env_root is None:
            os.environ.pop("STEPUP_ROOT", None)
        else:
            os.environ["STEPUP_ROOT"] = env_root
        shutil.rmtree(base, ignore_errors=True)


def amended_output_case(mode: str):
    """A step is needed only through an output that it announces while it runs (`amend(out=...)`), which a
    non-optional step consumes.  The relation is learned in a first build; then the producer is made optional
    (mode `optional`) or the build is restricted to the consumer's output (mode `target`).  After the producer's
    input changes, the rebuild must execute the producer again and then the consumer."""
    import copy

    from simdirector import A, FifoSchedule, Project, SimDirector, plan_file

    def plan_of(optional):
        return [A.static("src.txt"), A.step("gen", inp=["src.txt"], out=["x.txt"], optional=optional),
                A.step("copy", inp=["y.txt"], out=["final.txt"])]

    plan = plan_of(False)
    scripts = {"./plan.py": plan, "gen": [A.read_declared(), A.amend(out=["y.txt"]), A.write_declared()]}
    project = Project(scripts=scripts, files={"plan.py": plan_file(plan), "src.txt": "one\n"})
    found = []
    with SimDirector(copy.deepcopy(project), seed=3) as sim:
        b1 = sim.build(njob=1, schedule=FifoSchedule())
        first = b1.files.get("final.txt")
        if b1.status != "done" or not b1.ok or first is None:
            return [("director-" + b1.status, f"the first build ended with {b1.returncode!r}", {"mode": mode})]
        kw = {}
        if mode == "optional":
            plan2 = plan_of(True)
            sim.apply([("script", "./plan.py", plan2, ""), ("write", "plan.py", plan_file(plan2))])
            b = sim.build(njob=1, schedule=FifoSchedule())
            if not b.ok:
                return found
        else:
            kw = {"targets": ["final.txt"]}
        sim.apply([("write", "src.txt", "two\n")])
        b2 = sim.build(njob=1, schedule=FifoSchedule(), **kw)
        info = {"mode": mode, "rebuild": [repr(b2.returncode), b2.commands]}
        if "gen" not in b2.commands or b2.files.get("final.txt") == first:
            found.append(("needed-step-not-executed:producer-needed-only-through-amended-output:" + mode,
                          f"after its input changed, the step that announces y.txt while it runs was not executed again "
                          f"({b2.commands}, {b2.returncode!r}) although the step that builds final.txt requires y.txt",
                          {**info, "events": [e[:2] for e in b2.events if e[0] in ("START", "SKIP", "NOSKIP", "WARNING")][:10]}))
    return found


def api_need_oracle(ctx):
    """The need a plan writes is the need the director is asked to record: `optional=True` arrives as OPTIONAL,
    `plan()` / `call(planning=True)` / `script()` as PLAN, everything else as DEFAULT, for every API function."""
    import apicap
    from stepup.core.enums import Need

    wrappers = {
        "step": (lambda api, opt: api.step("true", need=Need.OPTIONAL if opt else Need.DEFAULT), None),
        "run": (lambda api, opt: api.run("./tool.py arg", optional=opt), None),
        "call": (lambda api, opt: api.call("./tool.py", "fn", optional=opt), None),
        "copy": (lambda api, opt: api.copy("src.txt", "dst/", optional=opt), None),
        "render_jinja": (lambda api, opt: api.render_jinja("tmpl.txt", "vars.json", "out.txt", optional=opt), None),
        "plan": (lambda api, opt: api.plan("./tool.py arg"), Need.PLAN),
        "call-planning": (lambda api, opt: api.call("./tool.py", "fn", planning=True), Need.PLAN),
        "script": (lambda api, opt: api.script("./tool.py", optional=opt), Need.PLAN),
    }
    with apicap.project() as base:
        for wname, (fn, fixed) in sorted(wrappers.items()):
            for opt in (False, True):
                with apicap.step_process(base) as (api, client):
                    try:
                        fn(api, opt)
                    except Exception as exc:  # noqa: BLE001
                        ctx.finding(Finding(PID, f"need-lost-in-api:{wname}:raises", f"{wname}(optional={opt}) raises {exc!r}",
                                            {"wrapper": wname, "optional": opt}))
                        continue
                call = client.last("define_step")
                expected = fixed if fixed is not None else (Need.OPTIONAL if opt else Need.DEFAULT)
                sent = None if call is None else (call[1][7] if len(call[1]) > 7 else call[2].get("need"))
                ctx.stats.count(f"api-need:{wname}")
                ctx.stats.case(("api-need", wname, opt))
                if wname == "script" and call is not None and (" --optional" in str(call[1][1])) != opt:
                    # the plan stage is always PLAN; the option travels in the command of the plan stage
                    ctx.finding(Finding(PID, "need-lost-in-api:script:option",
                                        f"script(optional={opt}) plans with the command {call[1][1]!r}",
                                        {"wrapper": wname, "optional": opt, "command": str(call[1][1])}))
                if sent != expected.value:
                    ctx.finding(Finding(PID, f"need-lost-in-api:{wname}",
                                        f"{wname}(optional={opt}) reaches the director as define_step(need={sent}); "
                                        f"expected {expected.name} = {expected.value}",
                                        {"wrapper": wname, "optional": opt, "sent": sent, "expected": expected.value}))


def script_driver_oracle(ctx):
    """The plan stage of the script protocol (`stepup.core.script._driver_plan`, what `./script.py plan [--optional]`
    executes): the run steps of a script with `info()` and of every case of a script with `cases()` are declared
    OPTIONAL exactly when `--optional` was given."""
    import argparse
    import types

    import apicap
    from stepup.core import script as script_mod
    from stepup.core.enums import Need

    single = types.SimpleNamespace(info=lambda: {"inp": ["src.txt"], "out": ["single.out"]}, run=lambda inp, out: None)
    cases = types.SimpleNamespace(CASE_FMT="case_{name}", cases=lambda: iter([{"name": "a"}, {"name": "b"}, ((), {"name": "c"})]),
                                  case_info=lambda name: {"inp": ["src.txt"], "out": [f"case_{name}.out"]},
                                  run=lambda inp, out: None)
    both = types.SimpleNamespace(**{**vars(cases), "info": single.info})
    with apicap.project() as base:
        for kind, obj, nrun in (("single", single, 1), ("cases", cases, 3), ("single+cases", both, 4)):
            for opt in (False, True):
                with apicap.step_process(base) as (api, client):
                    try:
                        wrapper = script_mod.ScriptWrapper(obj, "tool.py")
                        script_mod._driver_plan("tool.py", argparse.Namespace(cmd="plan", optional=opt, step_info=None), wrapper)
                    except Exception as exc:  # noqa: BLE001
                        ctx.finding(Finding(PID, f"need-lost-in-script-driver:{kind}:raises",
                                            f"_driver_plan of a {kind} script (optional={opt}) raises {exc!r}", {"kind": kind, "optional": opt}))
                        continue
                needs = [(str(c[1][1]), c[1][7]) for c in client.calls if c[0] == "define_step"]
                expected = (Need.OPTIONAL if opt else Need.DEFAULT).value
                ctx.stats.count(f"script-driver:{kind}")
                ctx.stats.case(("script-driver", kind, opt))
                wrong = [(cmd, need) for cmd, need in needs if need != expected]
                if len(needs) != nrun or wrong:
                    ctx.finding(Finding(PID, f"need-lost-in-script-driver:{kind}",
                                        f"`tool.py plan{' --optional' if opt else ''}` of a {kind} script declares {needs}; "
                                        f"expected {nrun} run step(s) with need {expected}",
                                        {"kind": kind, "optional": opt, "declared": needs, "expected_need": expected}))


async def search(ctx):
    import asyncio as _asyncio

    api_need_oracle(ctx)
    script_driver_oracle(ctx)

    for mode in ("optional", "target"):
        for sig, what, extra in await _asyncio.to_thread(amended_output_case, mode):
            ctx.finding(Finding(PID, sig, what, {**extra, "how": "props/c11.py amended_output_case(mode)"}))
        ctx.stats.count("scenario:amended-output-" + mode)
    await cli_targets(ctx)
    import corr_kernel as _ck

    await _ck.run_scenarios(ctx, lambda ctx, run_: Observer(ctx, run_), ["nested_chain", "amended_consumer_rerun", "retarget_optional", "plan_need_demotion", "dir_target_bounds"])
    import contextlib

    import corr_kernel

    for i in range(ctx.budget(60, 1500)):
        r = ctx.rng("oracle", i)
        run_ = corr_kernel.KernelRun(r, exotic=False)
        run_.observers = [Observer(ctx, run_)]
        async with contextlib.AsyncExitStack() as cm:
            await run_.generate(cm, 70)


async def replay(ctx, detail):
    sig = detail.get("signature", "")
    await search(ctx)
    return {"reproduced": any(f.signature == sig for f in ctx.findings), "signature": sig}
