"""C20: a path means the same file to a step and to the director.

Correspondence: the real `posixpath` / `path.Path` / `stepup.core.path` / `api._keep_affixes`
functions against the Lean model (`P/Path.lean`) on generated path strings, under generated
`STEPUP_ROOT`, `HERE` and a real current directory inside a temporary directory tree.
Oracle (independent of the model): on that real, symlink-free tree, `os.path.realpath` (and
`os.path.samefile` where both ends exist) decides whether the translated path, interpreted from
the root, is the location the step meant from `root/HERE/workdir`; the same for
`translate_back`, the round trip, the executor's `HERE`/`ROOT`, and the affixes.
"""

from __future__ import annotations

import contextlib
import inspect
import os
import posixpath
import shlex
import shutil
import tempfile

import common
import implkit  # noqa: F401  (puts /repo first on sys.path)
from common import Finding, hexs, unhexs

from path import Path
from stepup.core.api import _keep_affixes
from stepup.core.path import (
    apply_affixes,
    get_affixes,
    get_stepup_root,
    parent_dir,
    translate,
    translate_back,
)

PID = "C20"
LEVEL = "proof"
ASSUMPTIONS = [
    "lexical resolution on a symlink-free tree is the meaning of a path (`..` through a symbolic link is out of "
    "scope); `resolve base p` = components of normpath(join(base, p))",
    "the roots `/` and `//` are the same directory (true on Linux; POSIX leaves `//` implementation-defined)",
    "the Lean model of str.split/join, posixpath.normpath/join/isabs/abspath/relpath/dirname and of "
    "path.Path.relpath (= relpathto, not os.path.relpath) is validated against CPython 3.12 / path 17 on "
    "generated inputs only",
    "paths contain no NUL character (CPython's C normpath stops at NUL); components are arbitrary other code points",
    "`_keep_affixes` on a spelling of the root directory (`/`, `//`, `/.`) is outside the affix theorems: "
    "`_keep_affixes('/', translate)` raises PathError (theorem affixes_preserved_negation)",
    "the affix and label theorems assume a relative HERE; with STEPUP_ROOT spelled with exactly two leading slashes "
    "and HERE unset, path.Path.relpathto treats `//` and `/` as different roots and the default HERE is absolute "
    "(translate then returns correct but absolute paths)",
    "a normalized path that leaves the root and re-enters it (`../a/x` with root `/r/a`) is rewritten to its "
    "canonical form `x` (theorem translate_fixed_negation); translate_fixed is stated for paths without `..`",
    "the executor's HERE/ROOT expressions are modelled from their source text, which the check compares on every run",
]

COMPONENTS = ["a", "b", "..", ".", "", "a b", "é", ".hidden"]
# directories that exist in the temporary tree, relative to its base; `r` is the project root
TREE = ["r", "r/a", "r/a/b", "r/a/a b", "r/b", "r/sub", "r/sub/deep", "r/sub/deep/a", "r/a b", "r/é", "r/é/a",
        "r/.hidden", "r/.hidden/b", "r2", "r2/a", "o", "o/a", "o/a/b"]
FILES = ["r/f", "r/a/f", "r/sub/f", "r/a b/f", "o/a/f", "r2/f"]
CWDS = ["r", "r", "r", "r/sub", "r/sub", "r/sub/deep", "r/a b", "r/é", "r2", "o/a", "o", ""]
BASE = "@BASE@"

EXECUTOR_LINES = ('env["ROOT"] = str(Path.cwd().relpath(workdir))', 'env["HERE"] = str(Path(workdir).relpath())')


# ---------------------------------------------------------------------------------------------
# A real directory tree and the environment of a step
# ---------------------------------------------------------------------------------------------


class Layout:
    def __init__(self):
        self.base = os.path.realpath(tempfile.mkdtemp(prefix="verif-c20-"))
        for d in TREE:
            os.makedirs(os.path.join(self.base, d), exist_ok=True)
        for f in FILES:
            with open(os.path.join(self.base, f), "w") as fh:
                fh.write("x")
        self.root = os.path.join(self.base, "r")

    def sub(self, s):
        return None if s is None else s.replace(BASE, self.base)

    def dir(self, rel):
        return os.path.join(self.base, rel) if rel else self.base

    def close(self):
        shutil.rmtree(self.base, ignore_errors=True)


@contextlib.contextmanager
def step_env(cwd: str, root_env, here_env):
    """chdir into `cwd`, set STEPUP_ROOT / HERE (None = unset); restore everything afterwards."""
    old_cwd = os.getcwd()
    old = {k: os.environ.get(k) for k in ("STEPUP_ROOT", "HERE")}
    try:
        os.chdir(cwd)
        for k, v in (("STEPUP_ROOT", root_env), ("HERE", here_env)):
            if v is None:
                os.environ.pop(k, None)
            else:
                os.environ[k] = v
        yield
    finally:
        os.chdir(old_cwd)
        for k, v in old.items():
            if v is None:
                os.environ.pop(k, None)
            else:
                os.environ[k] = v


# ---------------------------------------------------------------------------------------------
# Generators
# ---------------------------------------------------------------------------------------------


def gen_path(r, abs_base=None) -> str:
    n = r.choice([0, 1, 1, 2, 2, 3, 3, 4, 5])
    body = "/".join(r.choice(COMPONENTS) for _ in range(n))
    k = r.random()
    if k < 0.55:
        lead = ""
    elif k < 0.70:
        lead = "./"
    elif k < 0.78:
        lead = "/"
    elif k < 0.83:
        lead = "//"
    elif k < 0.87:
        lead = "///"
    elif k < 0.90:
        lead = ".//"
    elif abs_base is not None:
        lead = abs_base + r.choice(["/", "/r/", "/r/sub/", "/o/", "//r/"])
    else:
        lead = "../"
    return lead + body + r.choice(["", "", "", "/", "//"])


def gen_workdir(r) -> str:
    k = r.random()
    if k < 0.30:
        return "."
    if k < 0.60:
        return r.choice(["sub", "sub/", "sub/deep", "..", "../", "../o", "../../o/a", "a b", "./a/", "a/../b", "é"])
    if k < 0.75:
        return BASE + r.choice(["/o/a", "/r/sub", "/r", "/r/a/..", "//o", "/"])
    if k < 0.80:
        return r.choice(["/", "//", "/abs/w", "//abs/w/", "/a/b"])
    return gen_path(r)


def gen_env(r):
    """(cwd relative to base, STEPUP_ROOT or None, HERE or None); roots always denote `base/r` or the cwd."""
    cwd = r.choice(CWDS)
    k = r.random()
    if k < 0.65:
        root_env = BASE + "/r"
    elif k < 0.72:
        root_env = BASE + "/r/"
    elif k < 0.78:
        root_env = "/" + BASE + "/r"  # a `//` root
    elif k < 0.84:
        root_env = BASE + "/r/sub/.."
    elif k < 0.90:
        root_env = None  # the current directory is the root
    elif k < 0.95:
        root_env = posixpath.relpath("/x/r", "/x/" + cwd if cwd else "/x")  # relative spelling of base/r
    else:
        root_env = BASE + "/r/./"
    k = r.random()
    consistent = posixpath.relpath("/x/" + cwd if cwd else "/x", "/x/r")
    if k < 0.40:
        here = consistent if root_env is not None else "."
    elif k < 0.55:
        here = None
    elif k < 0.65:
        here = "."
    else:
        here = r.choice(["sub", "sub/deep", "a b", "./sub/", "sub/../a", "../r2", "../o/a", "", "é", "a/b/"])
    return cwd, root_env, here


def opt(x):
    return "~" if x is None else hexs(x)


def err_code(exc: Exception) -> str:
    m = str(exc)
    if m.startswith("Leading affix must"):
        return "err 1"
    if m.startswith("Path already has a leading slash"):
        return "err 2"
    if m.startswith("Trailing affix must"):
        return "err 3"
    if m.startswith("Path already has a trailing slash"):
        return "err 4"
    return "exc:" + type(exc).__name__


def attempt(f, *a) -> str:
    try:
        return "ok " + hexs(str(f(*a)))
    except Exception as exc:  # noqa: BLE001
        return err_code(exc)


# ---------------------------------------------------------------------------------------------
# Correspondence
# ---------------------------------------------------------------------------------------------

WITNESS_PURE = ["/", "/.", "//", ".//", "./", "", ".", "..", "/..", "//..", "///a//b/", "./../a b/", "a/./../../é"]


def pure_cases(r, n):
    """(scope, driver line, implementation answer, input) for functions that do not read the environment."""
    out = []
    paths = WITNESS_PURE + [gen_path(r) for _ in range(n)]
    for p in paths:
        q = gen_path(r)
        out.append(("normpath", f"c20 normpath {hexs(p)}", hexs(posixpath.normpath(p)), p))
        out.append(("normpath", f"c20 normpath {hexs(p)}", hexs(str(Path(p).normpath())), p))
        out.append(("join", f"c20 join {hexs(p)} {hexs(q)}", hexs(posixpath.join(p, q)), (p, q)))
        out.append(("join", f"c20 join {hexs(p)} {hexs(q)}", hexs(str(Path(p) / q)), (p, q)))
        out.append(("isabs", f"c20 isabs {hexs(p)}", str(int(posixpath.isabs(p))), p))
        out.append(("split", f"c20 split {hexs(p)}", common.hexlist(p.split("/")), p))
        out.append(("dirname", f"c20 dirname {hexs(p)}", hexs(posixpath.dirname(p)), p))
        out.append(("parent_dir", f"c20 parent {hexs(p)}", hexs(parent_dir(p)), p))
        lead, trail = get_affixes(p)
        out.append(("get_affixes", f"c20 affixes {hexs(p)}", f"{hexs(lead)} {hexs(trail)}", p))
        lead = r.choice(["", "", "./", "./", "./", "/", "x", "."])
        trail = r.choice(["", "", "/", "/", "/", "//", "x"])
        out.append(("apply_affixes", f"c20 apply {hexs(p)} {hexs(lead)} {hexs(trail)}",
                    attempt(apply_affixes, p, lead, trail), (p, lead, trail)))
        out.append(("keep_affixes.normpath", f"c20 keepnorm {hexs(p)}", attempt(_keep_affixes, p, Path.normpath), p))
    return out


WITNESS_ENV = [
    # (cwd, STEPUP_ROOT, HERE, p, wd): witnesses of the negation theorems and of the repaired defect
    ("r", BASE + "/r", ".", "../x", "/a/b"),
    ("r", BASE + "/r", ".", ".", "/a"),
    ("r", BASE + "/r", ".", "/", "."),
    ("r", BASE + "/r", ".", "/.", "."),
    ("r/a", BASE + "/r/a", ".", "../a/x", "."),
    ("r", BASE + "/r", ".", "../../../../../../../../../../../../x", "."),
    ("r/sub", BASE + "/r", "sub", "../a/./b", "w"),
    ("r", "/" + BASE + "/r", ".", "a", "/w"),
]


def env_cases(L: Layout, r, n):
    out = []
    specs = list(WITNESS_ENV)
    for _ in range(n):
        cwd, root_env, here = gen_env(r)
        specs.append((cwd, root_env, here, gen_path(r, BASE), gen_workdir(r)))
    for cwd_rel, root_env, here, p, wd in specs:
        cwd = L.dir(cwd_rel)
        root_env, p, wd = L.sub(root_env), L.sub(p), L.sub(wd)
        inp = {"cwd": cwd_rel, "STEPUP_ROOT": root_env, "HERE": here, "path": p, "workdir": wd}
        env = f"{hexs(cwd)} {opt(root_env)} {opt(here)}"
        with step_env(cwd, root_env, here):
            out.append(("get_stepup_root", f"c20 root {hexs(cwd)} {opt(root_env)}", hexs(str(get_stepup_root())), inp))
            out.append(("translate", f"c20 translate {env} {hexs(p)} {hexs(wd)}", hexs(str(translate(p, wd))), inp))
            out.append(("translate_back", f"c20 back {env} {hexs(p)} {hexs(wd)}",
                        hexs(str(translate_back(p, wd))), inp))
            out.append(("keep_affixes.translate", f"c20 keeptr {env} {hexs(p)}",
                        attempt(_keep_affixes, p, translate), inp))
            out.append(("keep_affixes.translate_back", f"c20 keepback {env} {hexs(p)}",
                        attempt(_keep_affixes, p, translate_back), inp))
            out.append(("abspath", f"c20 abspath {hexs(cwd)} {hexs(p)}", hexs(posixpath.abspath(p)), inp))
            try:
                got = "ok " + hexs(posixpath.relpath(p, wd))
            except ValueError:
                got = "err"
            out.append(("os.path.relpath", f"c20 osrelpath {hexs(cwd)} {hexs(p)} {hexs(wd)}", got, inp))
            out.append(("Path.relpath", f"c20 relpath {hexs(cwd)} {hexs(p)} {hexs(wd)}",
                        hexs(str(Path(p).relpath(wd))), inp))
            # executor._run_command: the director's cwd is the root, `wd` is the step's workdir
            out.append(("executor.env", f"c20 envvars {hexs(cwd)} {hexs(wd)}",
                        f"{hexs(str(Path.cwd().relpath(wd)))} {hexs(str(Path(wd).relpath()))}", inp))
    return out


def executor_text_ok() -> list[str]:
    from stepup.core.executor import Executor

    src = inspect.getsource(Executor._run_command)
    return [ln for ln in EXECUTOR_LINES if ln not in src]


async def correspond(ctx):
    st = ctx.stats
    st.rule = ("path strings over the components {a, b, .., ., '', 'a b', é, .hidden} with leading '', './', '/', "
               "'//', '///', './/', '../' or an absolute prefix into the tree and trailing '', '/', '//'; real current "
               "directories nested in, sibling of and outside the root; STEPUP_ROOT plain, with trailing slash, '//', "
               "unnormalized, relative, unset; HERE consistent, '.', nested, outside, unnormalized, empty, unset; "
               "workdir '.', nested, '..', outside, absolute, random; a case is one (function, input); non-trivial = "
               "the answer differs from the (first) argument; distinct by (function, input)")
    L = Layout()
    try:
        cases = pure_cases(ctx.rng("pure"), ctx.budget(3000, 40000))
        cases += env_cases(L, ctx.rng("env"), ctx.budget(6000, 60000))
        answers = common.run_driver([c[1] for c in cases])
        for (scope, line, impl, inp), model in zip(cases, answers):
            st.count(scope)
            first = line.split(" ")[2] if scope in ("normpath", "dirname", "parent_dir") else None
            st.case((scope, line.replace(hexs(L.base), "@")), first is None or impl != first)
            if model != impl:
                ctx.disagree(scope, inp, _show(model), _show(impl))
            elif scope in ("translate", "keep_affixes.translate", "translate_back") and len(st.samples) < 6 \
                    and st.distribution[scope] % 97 == 5:
                st.sample({"function": scope, "input": inp, "answer": _show(impl)})
        missing = executor_text_ok()
        st.count("executor.source-lines", len(EXECUTOR_LINES))
        if missing:
            ctx.disagree("executor.env", {"expected source lines of Executor._run_command": list(EXECUTOR_LINES)},
                         "present", {"missing": missing})
        st.programs = len({c[0] for c in cases}) + 1
    finally:
        L.close()
    await correspond_api(ctx)
    st.programs += len([k for k in st.distribution if k.startswith("api.")])


def _show(ans: str) -> str:
    """Decode an answer of the protocol for a human reader."""
    try:
        return " ".join(t if t in ("ok", "err", "~", ".") or t.isdigit() and len(t) == 1 else unhexs(t)
                        for t in ans.split(" "))
    except Exception:  # noqa: BLE001
        return ans


# ---------------------------------------------------------------------------------------------
# API level: the glue around translate / translate_back in stepup.core.api and extapi
# ---------------------------------------------------------------------------------------------

API_ROOTS = ["r", "projects/work", "t/u/proj"]
API_ENV_KEYS = ("STEPUP_ROOT", "HERE", "STEPUP_JOB_I", "STEPUP_STEP_NEED", "STEPUP_DIRECTOR_SOCKET", "C20VAR")
WRAPPERS = ["run", "plan", "script", "call", "copy", "record_subprocess"]


def _j(*parts):
    return posixpath.normpath(posixpath.join(*[p for p in parts if p != ""])) if any(parts) else ""


class ApiLayout:
    """A real tree with the project root at a chosen depth, named parents, siblings and an outside tree."""

    def __init__(self, root_rel: str):
        self.base = os.path.realpath(tempfile.mkdtemp(prefix="verif-c20api-"))
        self.root_rel = root_rel
        self.name = posixpath.basename(root_rel)
        self.parent_rel = posixpath.dirname(root_rel)
        inside = ["", "sub", "sub/deep", "a", "a b", "é", self.name, self.name + "/sub"]
        self.inside = [_j(root_rel, d) for d in inside]
        self.outside = [_j(self.parent_rel, d) for d in ("other", "other/sub", "public")] + ["common", "common/x"]
        if self.parent_rel:
            self.outside.append(self.parent_rel)
        self.dirs = self.inside + self.outside
        for d in self.dirs:
            os.makedirs(os.path.join(self.base, d), exist_ok=True)
            for f in ("data.txt", "tool.sh", "x.txt"):
                with open(os.path.join(self.base, d, f), "w") as fh:
                    fh.write("x")
        self.root = os.path.join(self.base, root_rel)

    def sub(self, s):
        return None if s is None else s.replace(BASE, self.base)

    def close(self):
        shutil.rmtree(self.base, ignore_errors=True)


def _spell(r, target: str, frm: str, L: ApiLayout) -> str:
    """A spelling of the base-relative location `target` as seen from the base-relative directory `frm`."""
    plain = posixpath.relpath("/" + target, "/" + frm)
    k = r.random()
    root = L.root_rel
    if k < 0.40:
        return plain
    if k < 0.60 and (target == root or target.startswith(root + "/")):
        # leave the root (or stay outside) and re-enter it through its own directory name
        up = posixpath.relpath("/" + L.parent_rel, "/" + frm)
        rest = posixpath.relpath("/" + target, "/" + root)
        return posixpath.join(up, L.name, rest) if rest != "." else posixpath.join(up, L.name)
    if k < 0.70:
        return "./" + plain
    if k < 0.78:
        return "x/../" + plain
    if k < 0.84:
        return plain.replace("/", "//", 1) if "/" in plain else "././" + plain
    if k < 0.92:
        return BASE + "/" + target
    # climb to the base, far beyond `/`, and come back down through the absolute name of the base
    return posixpath.relpath("/", "/" + frm) + "/.." * 8 + BASE + "/" + target


def gen_api_case(r, L: ApiLayout) -> dict:
    cwd = r.choice(L.inside) if r.random() < 0.55 else r.choice(L.outside)
    here = posixpath.relpath("/" + cwd, "/" + L.root_rel)
    k = r.random()
    if k < 0.12:
        root_env, here_env = None, None  # a plan run by hand: the current directory is the root
    else:
        root_env = r.choice([BASE + "/" + L.root_rel] * 4 + [BASE + "/" + L.root_rel + "/",
                            BASE + "/./" + L.root_rel, posixpath.relpath("/" + L.root_rel, "/" + cwd)])
        here_env = r.choice([here] * 6 + ["./" + here, here + "/", here + "/."])
    k = r.random()
    if k < 0.25:
        wd_target = cwd
    elif k < 0.85:
        wd_target = r.choice(L.dirs)
    else:
        wd_target = _j(cwd, r.choice(["new", "new/w", "../new"]))
    wd = _spell(r, wd_target, cwd, L) + r.choice(["", "", "", "/"])

    def target(frm):
        d = r.choice(L.dirs + [cwd, wd_target, L.root_rel])
        f = r.choice(["data.txt", "data.txt", "x.txt", "new.out", "gen/o.out", "tool.sh"])
        return _spell(r, _j(d, f), frm, L)

    def existing(frm):
        d = r.choice(L.dirs + [cwd])
        return _spell(r, _j(d, r.choice(["data.txt", "x.txt", "tool.sh"])), frm, L)

    paths = [target(wd_target) for _ in range(r.choice([1, 2, 3]))]
    if r.random() < 0.06:
        paths.append(r.choice([".", "sub/", "../"]))  # a directory: step() must reject the call
    lits = [existing(cwd) for _ in range(r.choice([1, 2]))]
    if r.random() < 0.5:
        lits.append(_spell(r, r.choice(L.dirs), cwd, L) + r.choice(["", "/"]))
    pat_dir = _spell(r, r.choice(L.dirs), cwd, L)
    pattern = r.choice(["", "./"]) + posixpath.join(pat_dir, r.choice(["*.txt", "d*", "*", "s*/", "*/"]))
    tr = []
    for _ in range(r.choice([1, 2, 3])):
        t = _j(r.choice(L.dirs), r.choice(["data.txt", "x.txt", "o.out"]))
        tr.append(BASE + "/" + t if r.random() < 0.1 else posixpath.relpath("/" + t, "/" + L.root_rel))
    envval = r.choice(["", "./"]) + posixpath.relpath("/" + _j(r.choice(L.dirs), "data.txt"), "/" + L.root_rel) \
        + r.choice(["", "", "/"])
    return {"root": L.root_rel, "cwd": cwd, "root_env": root_env, "here": here_env, "wd": wd, "paths": paths,
            "apaths": [existing(cwd)] + [target(cwd) for _ in range(2)], "lits": lits, "pattern": pattern,
            "tr": tr, "envval": envval, "wrapper": r.choice(WRAPPERS),
            "exe": r.choice(["./tool.sh", "tool.sh", "./sub/../tool.sh", "../" + posixpath.basename(wd_target or "x")
                             + "/tool.sh", ".//tool.sh"])}


@contextlib.contextmanager
def api_env(L: ApiLayout, case: dict, client):
    """The process state of a step: cwd, STEPUP_ROOT, HERE, job id, and a captured RPC client."""
    from stepup.core import api

    old_cwd = os.getcwd()
    old_env = {k: os.environ.get(k) for k in API_ENV_KEYS}
    old_client = api._get_cached_rpc_client
    try:
        os.chdir(os.path.join(L.base, case["cwd"]))
        for k in API_ENV_KEYS:
            os.environ.pop(k, None)
        os.environ["STEPUP_JOB_I"] = "0"
        if case["root_env"] is not None:
            os.environ["STEPUP_ROOT"] = L.sub(case["root_env"])
        if case["here"] is not None:
            os.environ["HERE"] = case["here"]
        api._get_cached_rpc_client = lambda: client
        yield api
    finally:
        api._get_cached_rpc_client = old_client
        for hist in api._AMEND_HISTORY.values():
            hist.clear()
        os.chdir(old_cwd)
        for k, v in old_env.items():
            if v is None:
                os.environ.pop(k, None)
            else:
                os.environ[k] = v


def make_client():
    import attrs
    from stepup.core.rpc import DummySyncRPCClient

    @attrs.define
    class Capture(DummySyncRPCClient):
        calls: list = attrs.field(factory=list)
        step_info: object = None

        def __call__(self, name, /, *args, _rpc_timeout=None, **kwargs):
            self.calls.append((name, args, kwargs))
            if name == "amend_step":
                return True
            if name == "get_step_info":
                return self.step_info
            return None

    return Capture()


def _is_dirlike(L, case, p, frm_abs) -> bool:
    """What `_check_no_directories` rejects (the API normalizes lexically before it looks at the disk)."""
    return p.endswith("/") or os.path.isdir(posixpath.normpath(os.path.join(frm_abs, p)))


def run_api_case(L: ApiLayout, case: dict) -> list[dict]:
    """Drive the real API functions; one group per observed list of paths.

    group: scope, direction ('to' the director / 'back' to the step), base ('wd' or 'cwd': where the given
    paths are meant), ordered, items [(given, transform)], got [str] or error (str), unexpected (bool).
    """
    from stepup.core.stepinfo import StepInfo

    groups = []
    client = make_client()
    cwd_abs = os.path.join(L.base, case["cwd"])
    wd = L.sub(case["wd"])
    wd_abs = posixpath.normpath(os.path.join(cwd_abs, wd))
    paths = [L.sub(p) for p in case["paths"]]
    n = len(paths)
    inp, out, vol = paths[:1], paths[1:2], paths[2:]

    def add(scope, direction, base, ordered, items, got=None, error=None, unexpected=False):
        groups.append({"scope": scope, "direction": direction, "base": base, "ordered": ordered,
                       "items": items, "got": None if got is None else [str(x) for x in got],
                       "error": error, "unexpected": unexpected})

    def last(name):
        hits = [c for c in client.calls if c[0] == name]
        return hits[-1] if hits else None

    def define_step_groups(scope, exp_inp, exp_out, exp_vol, exp_wd, exc, dirlike):
        call = last("define_step")
        if call is None:
            add(scope, "to", "wd", True, [], error=repr(exc), unexpected=not dirlike)
            return
        _job, _cmd, tr_inp, _env, tr_out, tr_vol, tr_wd = call[1][:7]
        add(scope + ".inp", "to", "wd", True, exp_inp, tr_inp)
        add(scope + ".out", "to", "wd", True, exp_out, tr_out)
        add(scope + ".vol", "to", "wd", True, exp_vol, tr_vol)
        add(scope + ".workdir", "to", "cwd", True, exp_wd, [tr_wd])

    with api_env(L, case, client) as api:
        tr = lambda xs: [(x, "translate") for x in xs]  # noqa: E731
        # step()
        dirlike = any(_is_dirlike(L, case, p, wd_abs) for p in paths)
        exc = None
        info = None
        try:
            info = api.step("true", inp=inp, out=out, vol=vol, workdir=wd)
        except Exception as e:  # noqa: BLE001
            exc = e
        define_step_groups("step", tr(inp), tr(out), tr(vol), tr([wd]), exc, dirlike)
        if info is not None and not wd.startswith("/"):
            # the step information handed back: `workdir` designates, from the caller's directory, the directory the
            # caller named (the other fields are relative to that directory)
            add("step.info.workdir", "echo", "cwd", True, [(wd, "echo")], [str(info.workdir)])
        # one wrapper that goes through step()
        client.calls.clear()
        w, exe = case["wrapper"], case["exe"]
        exc = None
        try:
            if w == "run":
                api.run(f"{shlex.quote(exe)} arg", inp=inp, out=out, vol=vol, workdir=wd)
                exp = (([(exe, "translate")] if "/" in exe and not exe.startswith("/") else []) + tr(inp), tr(out), tr(vol))
            elif w == "plan":
                api.plan(f"{shlex.quote(exe)} arg", inp=inp, out=out, vol=vol, workdir=wd)
                exp = ([(exe, "translate")] + tr(inp), tr(out), tr(vol))
            elif w == "script":
                api.script(exe, inp=inp, out=out, vol=vol, workdir=wd)
                exp = (tr(inp) + [(exe, "exetr")], tr(out), tr(vol))
            elif w == "call":
                api.call(exe, "fn", inp=inp, out=out, vol=vol, workdir=wd)
                exp = ([(exe, "exetr")] + tr(inp), tr(out), tr(vol))
            elif w == "copy":
                from stepup.core.path import make_path_out
                src, dst = L.sub(case["apaths"][0]), L.sub(case["apaths"][1])
                api.copy(src, dst)
                exp = (tr([src]), tr([str(make_path_out(src, dst, None))]), [])
            else:
                from stepup.core import extapi
                extapi.record_subprocess("true", 0, workdir=wd)
                exp = None
        except Exception as e:  # noqa: BLE001
            exc = e
        if w == "record_subprocess":
            call = last("record_subprocess")
            if call is not None:
                add("record_subprocess.workdir", "to", "cwd", True, tr([wd]), [call[2]["workdir"]])
            else:
                add("record_subprocess", "to", "cwd", True, [], error=repr(exc), unexpected=True)
        elif w == "copy":
            call = last("define_step")
            if call is not None:
                add("copy.inp", "to", "cwd", True, exp[0], call[1][2])
                add("copy.out", "to", "cwd", True, exp[1], call[1][4])
            else:
                add("copy", "to", "cwd", True, [], error=repr(exc), unexpected=False)
        else:
            if last("define_step") is not None:
                define_step_groups(w, exp[0], exp[1], exp[2], tr([wd]), exc, dirlike)
            else:
                # wrappers also reject an executable without a separator; only a rejection of ordinary
                # arguments is unexpected
                exe_dir = os.path.isdir(posixpath.normpath(os.path.join(wd_abs, exe)))
                add(w, "to", "wd", True, [], error=repr(exc), unexpected=not (dirlike or "/" not in exe or exe_dir))
        # call(..., args_file=...): the file the caller writes is the file the new step is told to read
        if w == "call" and last("define_step") is not None and not wd.startswith("/"):
            client.calls.clear()
            args_rel = "call_args.json"
            exc = None
            try:
                api.call(exe, "fn", workdir=wd, args_file=args_rel, x=1)
            except Exception as e:  # noqa: BLE001
                exc = e
            amend_call, def_call = last("amend_step"), last("define_step")
            if amend_call is not None and def_call is not None:
                add("call.args_file.written", "to", "wd", True, tr([args_rel]), list(amend_call[1][3]))
                declared = [p_ for p_ in def_call[1][2] if str(p_).endswith(args_rel)]
                add("call.args_file.declared", "to", "wd", True, tr([args_rel]), declared)
                written_at = posixpath.normpath(os.path.join(wd_abs, args_rel))
                if not os.path.exists(written_at):
                    add("call.args_file", "to", "wd", True, [], error=f"no file at {written_at}", unexpected=True)
                else:
                    os.remove(written_at)
            elif exc is not None and not (dirlike or "/" not in exe):
                add("call.args_file", "to", "wd", True, [], error=repr(exc), unexpected=False)
            for stray in (os.path.join(cwd_abs, args_rel),):
                if os.path.exists(stray):
                    os.remove(stray)
        # amend()
        client.calls.clear()
        apaths = [L.sub(p) for p in case["apaths"]]
        a_inp, a_out, a_vol = apaths[:1], apaths[1:2], apaths[2:]
        a_dirlike = any(_is_dirlike(L, case, p, cwd_abs) for p in apaths)
        exc = None
        try:
            api.amend(inp=a_inp, out=a_out, vol=a_vol)
        except Exception as e:  # noqa: BLE001
            exc = e
        call = last("amend_step")
        if call is not None:
            add("amend.inp", "to", "cwd", False, tr(a_inp), call[1][1])
            add("amend.out", "to", "cwd", False, tr(a_out), call[1][3])
            add("amend.vol", "to", "cwd", False, tr(a_vol), call[1][4])
        else:
            add("amend", "to", "cwd", False, [], error=repr(exc), unexpected=not a_dirlike)
        # static() with literal files, literal directories and one pattern
        client.calls.clear()
        from stepup.core.nglob import NamedGlob
        lits = [L.sub(p) for p in case["lits"]]
        pattern = L.sub(case["pattern"])
        ng = NamedGlob(str(_keep_affixes(pattern, Path.normpath)))  # `subs_env` normalizes, keeping the affixes
        ng.glob()
        matches = [str(m) for m in ng.files()]
        exc = None
        ret = None
        try:
            ret = api.static(*lits, pattern)
        except Exception as e:  # noqa: BLE001
            exc = e
        call = last("declare_static")
        if ret is not None:
            # what static() hands back designates, from the caller's directory, the files it was given
            add("static.return", "echo", "cwd", False, [(p_, "echo") for p_ in lits + matches], ret)
        if call is not None:
            _job, tr_trees, tr_files, tr_patterns = call[1]
            is_dir = lambda p: os.path.isdir(posixpath.normpath(os.path.join(cwd_abs, p)))  # noqa: E731
            add("static.trees", "to", "cwd", False, tr([p for p in lits + matches if is_dir(p)]), tr_trees)
            add("static.files", "to", "cwd", False, tr([p for p in lits + matches if not is_dir(p)]), tr_files)
            if len(tr_patterns) == 1:
                add("static.pattern", "to", "cwd", True, [(pattern, "globtr")], [tr_patterns[0][0]])
                add("static.matches", "to", "cwd", False, [(m, "globtr") for m in matches], tr_patterns[0][1])
            else:
                add("static.pattern", "to", "cwd", True, [(pattern, "globtr")], [p for p, _ in tr_patterns])
        else:
            add("static", "to", "cwd", False, [], error=repr(exc), unexpected=True)
        # glob()
        client.calls.clear()
        exc = None
        try:
            api.glob(pattern)
        except Exception as e:  # noqa: BLE001
            exc = e
        call = last("register_glob")
        if call is not None:
            add("glob.pattern", "to", "cwd", True, [(pattern, "globtr")], [call[1][1]])
            add("glob.matches", "to", "cwd", False, [(m, "globtr") for m in matches], call[1][3])
        else:
            add("glob", "to", "cwd", False, [], error=repr(exc), unexpected=True)
        # get_info(): the director reports paths relative to the root, workdir = where this step runs
        client.calls.clear()
        labels = [L.sub(t) for t in case["tr"]]
        tr_workdir = posixpath.relpath(cwd_abs, posixpath.normpath(
            os.path.join(cwd_abs, os.environ["STEPUP_ROOT"]) if "STEPUP_ROOT" in os.environ else cwd_abs))
        client.step_info = StepInfo("true", labels[:1], [], labels[1:2], labels[2:], tr_workdir)
        try:
            info = api.get_info()
            add("get_info.inp", "back", "cwd", False, [(t, "back") for t in labels[:1]], info.inp)
            add("get_info.out", "back", "cwd", False, [(t, "back") for t in labels[1:2]], info.out)
            add("get_info.vol", "back", "cwd", False, [(t, "back") for t in labels[2:]], info.vol)
        except Exception as e:  # noqa: BLE001
            add("get_info", "back", "cwd", False, [], error=repr(e), unexpected=True)
        # getenv(back=True) and getenv(multi=True, back=True)
        os.environ["C20VAR"] = case["envval"]
        try:
            add("getenv.back", "back", "cwd", True, [(case["envval"], "keepback")],
                [api.getenv("C20VAR", back=True)])
            os.environ["C20VAR"] = case["envval"] + ":" + labels[0]
            vals = [case["envval"], labels[0]]
            add("getenv.multi", "back", "cwd", True, [(v, "keepback") for v in vals],
                api.getenv("C20VAR", back=True, multi=True))
        except Exception as e:  # noqa: BLE001
            add("getenv", "back", "cwd", True, [], error=repr(e), unexpected=not is_root_spelling(case["envval"]))
    return groups


def api_lines(L: ApiLayout, case: dict, group: dict) -> list[str]:
    """Model requests for the items of one group."""
    cwd_abs = os.path.join(L.base, case["cwd"])
    env = f"{hexs(cwd_abs)} {opt(L.sub(case['root_env']))} {opt(case['here'])}"
    wd = L.sub(case["wd"]) if group["base"] == "wd" else "."
    lines = []
    for given, transform in group["items"]:
        if transform == "translate":
            lines.append(f"c20 translate {env} {hexs(given)} {hexs(wd)}")
        elif transform == "exetr":
            lines.append(f"c20 exetr {env} {hexs(given)} {hexs(wd)}")
        elif transform == "keeptr":
            lines.append(f"c20 keeptr {env} {hexs(given)}")
        elif transform == "globtr":
            lines.append(f"c20 globtr {env} {hexs(given)}")
        elif transform == "back":
            lines.append(f"c20 back {env} {hexs(given)} {hexs('.')}")
        elif transform == "keepback":
            lines.append(f"c20 keepback {env} {hexs(given)}")
    return lines


def _model_value(ans: str):
    if ans.startswith("ok "):
        return unhexs(ans[3:])
    if ans.startswith("err"):
        return ans
    return unhexs(ans)


def api_layouts():
    return [ApiLayout(root) for root in API_ROOTS]


async def correspond_api(ctx):
    """Recorded / handed-back paths of the real API functions against the model of translate."""
    r = ctx.rng("api")
    st = ctx.stats
    layouts = api_layouts()
    try:
        jobs = []
        for _ in range(ctx.budget(700, 12000)):
            L = r.choice(layouts)
            case = gen_api_case(r, L)
            for g in run_api_case(L, case):
                if g["direction"] == "echo":
                    continue  # decided on the file system by check_api_case; no model line
                jobs.append((L, case, g, api_lines(L, case, g)))
        answers = common.run_driver([ln for j in jobs for ln in j[3]]) if jobs else []
        pos = 0
        for L, case, g, lines in jobs:
            ans = answers[pos:pos + len(lines)]
            pos += len(lines)
            scope = "api." + g["scope"]
            st.count(scope)
            if g["error"] is not None:
                st.count("api.rejected" if not g["unexpected"] else "api.rejected-unexpected")
                st.case((scope, repr(case)), False)
                if g["unexpected"]:
                    ctx.disagree(scope, case, "accepted", g["error"])
                continue
            model = [_model_value(a) for a in ans]
            got = list(g["got"])
            if not g["ordered"]:
                model, got = sorted(set(model)), sorted(set(got))
            st.case((scope, repr(case["cwd"]), repr(g["items"]), repr(case["wd"]), repr(case["here"]),
                     repr(case["root_env"])), bool(g["items"]))
            if model != got:
                ctx.disagree(scope, {"case": case, "given": g["items"]}, model, got)
            elif len(st.samples) < 9 and g["items"] and st.distribution[scope] % 41 == 7:
                st.sample({"function": scope, "cwd": case["cwd"], "root": case["root"], "HERE": case["here"],
                           "workdir": case["wd"], "given": [i[0] for i in g["items"]], "observed": got})
    finally:
        for L in layouts:
            L.close()


def _strip_affixes(p: str) -> str:
    return posixpath.normpath(p)


def check_api_case(L: ApiLayout, case: dict) -> list[tuple[str, str, object, object]]:
    """The property on the API level, decided on the real tree without the model."""
    bad = []
    cwd_abs = os.path.join(L.base, case["cwd"])
    root_env = L.sub(case["root_env"])
    root = loc(cwd_abs, root_env) if root_env is not None else cwd_abs
    wd = L.sub(case["wd"])
    for g in run_api_case(L, case):
        scope = g["scope"]
        if g["error"] is not None:
            if g["unexpected"]:
                bad.append((f"api-{scope}-raises", f"{scope}() raises for ordinary arguments", g["error"], "accepted"))
            continue
        if g["direction"] == "echo":
            meant = sorted({loc(cwd_abs, given) for given, _ in g["items"]})
            are = sorted({loc(cwd_abs, rec) for rec in g["got"]})
            if meant != are:
                bad.append((f"api-{scope}-wrong-file",
                            f"{scope}: a path handed back to the step designates another file than the one given",
                            {"given": [i[0] for i in g["items"]], "observed": g["got"], "designate": are}, meant))
            elif scope == "static.return":
                slash = [rec for rec in g["got"] if rec.endswith("/") != os.path.isdir(loc(cwd_abs, rec))]
                if slash:
                    bad.append((f"api-{scope}-label-not-canonical",
                                f"{scope}: a trailing separator that does not say whether the path is a directory",
                                {"observed": g["got"]}, slash))
            continue
        frm = posixpath.normpath(os.path.join(cwd_abs, wd)) if g["base"] == "wd" else cwd_abs
        wd_abs_arg = g["base"] == "wd" and wd.startswith("/")
        expected, got = [], list(g["got"])
        if g["direction"] == "to":
            for given, transform in g["items"]:
                if transform == "exetr":
                    body = given[:-1] if given.endswith("/") else given
                    core = posixpath.normpath(given)
                    given_eff = ("./" if body.startswith("./") else "") + core
                else:
                    given_eff = given
                full = posixpath.normpath(os.path.join(frm, given_eff))
                if given_eff.startswith("/") or wd_abs_arg:
                    ref = posixpath.normpath(given_eff) if given_eff.startswith("/") else full
                else:
                    ref = posixpath.relpath(full, root)
                if transform == "keeptr":
                    lead, trail = flags(given)
                    ref = ("./" if lead else "") + ref + ("/" if trail else "")
                if transform == "globtr":
                    # a pattern or a match: the director compares it with the labels of its files, so only
                    # the trailing separator (a directory pattern) carries meaning
                    ref = ref + ("/" if flags(given)[1] else "")
                expected.append(ref)
        else:
            for given, transform in g["items"]:
                if given.startswith("/"):
                    ref = posixpath.normpath(given)
                else:
                    ref = posixpath.relpath(posixpath.normpath(os.path.join(root, given)), cwd_abs)
                if transform == "keepback":
                    lead, trail = flags(given)
                    ref = ("./" if lead else "") + ref + ("/" if trail else "")
                expected.append(ref)
        if not g["ordered"]:
            expected, got = sorted(set(expected)), sorted(set(got))
        what_dir = "to the director" if g["direction"] == "to" else "back to the step"
        if len(expected) != len(got):
            bad.append((f"api-{scope}-paths-lost", f"{scope}: the number of paths handed {what_dir} differs",
                        got, expected))
            continue
        # same file, decided by the file system (for ordered groups item by item, else as sets of locations)
        if g["direction"] == "to":
            meant = [loc(frm, given) for given, _ in g["items"]]
            are = [loc(root, rec) for rec in g["got"]]
        else:
            meant = [loc(root, given) for given, _ in g["items"]]
            are = [loc(cwd_abs, rec) for rec in g["got"]]
        if not g["ordered"]:
            meant, are = sorted(set(meant)), sorted(set(are))
        if meant != are:
            bad.append((f"api-{scope}-wrong-file",
                        f"{scope}: a path handed {what_dir} designates another file than the one meant",
                        {"given": [i[0] for i in g["items"]], "observed": g["got"], "designate": are}, meant))
        elif expected != got:
            bad.append((f"api-{scope}-label-not-canonical",
                        f"{scope}: the path handed {what_dir} is not the normalized path relative to "
                        f"{'the root' if g['direction'] == 'to' else 'the working directory of the step'}",
                        {"given": [i[0] for i in g["items"]], "observed": g["got"]}, expected))
    return bad


# ---------------------------------------------------------------------------------------------
# Oracle on the implementation alone
# ---------------------------------------------------------------------------------------------


def loc(base: str, x: str) -> str:
    """The location that `x` designates from directory `base`, decided by the file system layer."""
    rp = os.path.realpath(os.path.join(base, x))
    return "/" + rp.lstrip("/")


def same_place(base1, x1, base2, x2):
    """None when both designate one location, else the two locations."""
    a, b = loc(base1, x1), loc(base2, x2)
    if a != b:
        return a, b
    try:  # second opinion of the kernel on the unresolved spellings, where both exist
        if not os.path.samefile(os.path.join(base1, x1), os.path.join(base2, x2)):
            return a + " (inode differs)", b
    except OSError:
        pass
    return None


def flags(p: str):
    """Leading './' and trailing '/' as the property means them (written independently of get_affixes)."""
    trail = p.endswith("/")
    body = p[:-1] if trail else p
    return body.startswith("./"), trail


def is_root_spelling(p: str) -> bool:
    """An absolute path whose lexical normal form is the root directory itself (`/é/../`, `//.`)."""
    return p.startswith("/") and posixpath.normpath(p).strip("/") == ""


def check_one(L: Layout, case: dict) -> list[tuple[str, str, object, object]]:
    """All C20 statements for one (cwd, STEPUP_ROOT, HERE, workdir, path); returns failed checks."""
    bad = []
    cwd = L.dir(case["cwd"])
    root_env, here, wd, p = L.sub(case["root_env"]), case["here"], L.sub(case["wd"]), L.sub(case["p"])
    root = loc(cwd, root_env) if root_env is not None else cwd  # decided by the file system, not by stepup
    stepdir = os.path.join(root, here) if here is not None else cwd
    workdir = os.path.join(stepdir, wd)
    with step_env(cwd, root_env, here):
        t = str(translate(p, wd))
        back = str(translate_back(p, wd))
        rt = str(translate_back(t, wd))
        rt2 = str(translate(back, wd))
        try:
            kept = str(_keep_affixes(p, translate))
        except Exception as exc:  # noqa: BLE001
            kept = exc
        try:
            kept_back = str(_keep_affixes(p, translate_back))
        except Exception as exc:  # noqa: BLE001
            kept_back = exc
    # 1. same file
    d = same_place(root, t, workdir, p)
    if d:
        bad.append(("translate-wrong-file", "translate(p, workdir) interpreted from the root is not the file meant "
                    "from root/HERE/workdir", {"translated": t, "designates": d[0]}, d[1]))
    # 2. normalized
    if posixpath.normpath(t) != t:
        sig = "translate-abs-workdir-unnormalized" if wd.startswith("/") and not p.startswith("/") \
            else "translate-unnormalized"
        bad.append((sig, "translate returns a path that is not normalized", t, posixpath.normpath(t)))
    # 3. canonical: the director translating again from the root leaves it alone
    with step_env(root, root, "."):
        again = str(translate(t))
        fixed = str(translate(p)) if _inside_normalized(p) else None
    if again != t:
        bad.append(("translate-not-canonical", "translating a translated path again from the root changes it",
                    {"first": t, "again": again}, t))
    if fixed is not None and fixed != p:
        bad.append(("translate-not-fixed", "a normalized path inside the root is changed by translate with HERE='.'",
                    fixed, p))
    # 4. translate_back and the round trips
    d = same_place(workdir, back, root, p)
    if d:
        bad.append(("translate-back-wrong-file", "translate_back(p, workdir) interpreted from root/HERE/workdir is "
                    "not the file that p designates from the root", {"back": back, "designates": d[0]}, d[1]))
    d = same_place(workdir, rt, workdir, p)
    if d:
        bad.append(("roundtrip-wrong-file", "translate_back(translate(p)) does not designate p's file from the "
                    "step's directory", {"translated": t, "back": rt, "designates": d[0]}, d[1]))
    d = same_place(root, rt2, root, p)
    if d:
        bad.append(("roundtrip-back-wrong-file", "translate(translate_back(p)) does not designate p's file from "
                    "the root", {"back": back, "translated": rt2, "designates": d[0]}, d[1]))
    # 5. affixes (a spelling of the root directory is the documented limit)
    # and so is an absolute HERE, which also arises as the default when STEPUP_ROOT is spelled with a `//` root
    # while the current directory is not: path.Path.relpathto then answers with the absolute destination)
    slashes = lambda s: len(s) - len(s.lstrip("/"))  # noqa: E731
    here_abs = here.startswith("/") if here is not None else \
        (root_env is not None and (slashes(posixpath.abspath(root_env)) == 2) != (slashes(cwd) == 2))
    if not is_root_spelling(p) and not here_abs:
        for name, res, base_dir, plain in (("translate", kept, root, None), ("translate_back", kept_back, stepdir, None)):
            if isinstance(res, Exception):
                bad.append(("affixes-error", f"_keep_affixes(p, {name}) raises for an ordinary path",
                            f"{type(res).__name__}: {res}", "a path"))
                continue
            if flags(res) != flags(p):
                bad.append(("affixes-lost", f"_keep_affixes(p, {name}) does not keep the leading './' / trailing '/' "
                            "of p", {"result": res, "flags": flags(res)}, {"flags": flags(p)}))
        if not isinstance(kept, Exception):
            with step_env(cwd, root_env, here):
                d = same_place(root, kept, root, str(translate(p)))
            if d:
                bad.append(("affixes-wrong-file", "the path with restored affixes designates another location than "
                            "the translated path", {"kept": kept, "designates": d[0]}, d[1]))
    return bad


def _inside_normalized(p: str) -> bool:
    return (not p.startswith("/")) and posixpath.normpath(p) == p and ".." not in p.split("/")


def check_labels(L: Layout, r) -> list[tuple[str, str, object, object, dict]]:
    """Same location given from two step directories in two spellings -> the same recorded label."""
    bad = []
    target = posixpath.normpath(posixpath.join(L.base, r.choice(TREE + FILES + ["r/new/x", "o/new", "r/a/new"])))
    labels = {}
    for _ in range(3):
        cwd_rel = r.choice(CWDS)
        cwd = L.dir(cwd_rel)
        here = posixpath.relpath(cwd, L.root)
        wd = r.choice([".", "..", "a", "../..", "sub/.."])
        stepdir = posixpath.normpath(posixpath.join(cwd, wd))
        p = posixpath.relpath(target, stepdir)
        p = r.choice(["./", ".//", "x/../", "././"]) + p if r.random() < 0.6 else p
        p = p.replace("/", r.choice(["/", "/", "//", "/./"]), 1) if r.random() < 0.4 else p
        with step_env(cwd, L.root + r.choice(["", "/", "/."]), here):
            labels[(cwd_rel, here, wd, p)] = str(translate(p, wd))
    if len(set(labels.values())) > 1:
        detail = {"target": target.replace(L.base, BASE), "labels": {repr(k): v for k, v in labels.items()}}
        bad.append(("same-file-two-labels", "one location is recorded under two different labels",
                    sorted(set(labels.values())), "one label", detail))
    return bad


class _EnvCaptured(Exception):
    def __init__(self, env):
        self.env = env


EXECUTOR_DRIVE = {"real": 0, "fallback": 0}


def real_executor_env(wd: str):
    """The environment that the real `Executor._run_command` hands to `launch_command` for a step
    with working directory `wd` (called with the current directory = the root, as the director runs):
    the method is driven with stub collaborators and `launch_command` replaced by a capture."""
    import contextlib
    import types

    from stepup.core import executor as ex
    from stepup.core.enums import Need

    class _Db:
        async def __aenter__(self):
            return self

        async def __aexit__(self, *a):
            return False

    async def reporter(*a, **k):
        return None

    async def capture(command, *, shell, env, cwd, mp_ctx, run):
        raise _EnvCaptured(dict(env))

    step = types.SimpleNamespace(
        command_and_workdir=("true", wd), uses_shell=lambda: False, get_need=lambda: Need.DEFAULT,
        get_env_overrides=lambda: {}, out_paths=lambda: [], vol_paths=lambda: [])
    run = types.SimpleNamespace(step=step, description="true", job_i=1, inp_digest=b"\0" * 4, outcome=None, success=True)
    me = types.SimpleNamespace(
        reporter=reporter, db=_Db(), workflow=types.SimpleNamespace(create_dirs=lambda dirs: None), base_env={},
        mp_ctx=None, suspended_total=0.0, step_usage=0, _track_running=lambda run: contextlib.nullcontext())
    old = ex.launch_command
    ex.launch_command = capture
    try:
        coro = ex.Executor._run_command(me, run)
        try:
            coro.send(None)
        except _EnvCaptured as c:
            EXECUTOR_DRIVE["real"] += 1
            return c.env
        except BaseException:  # noqa: BLE001  (a refactored method the stub does not fit)
            EXECUTOR_DRIVE["fallback"] += 1
            return None
        finally:
            coro.close()
        EXECUTOR_DRIVE["fallback"] += 1
        return None
    finally:
        ex.launch_command = old


def check_executor(L: Layout, wd: str) -> list[tuple[str, str, object, object]]:
    """HERE and ROOT as `_run_command` computes them (director's cwd = root)."""
    bad = []
    with step_env(L.root, L.root, None):
        env = real_executor_env(wd)
        if env is not None and "ROOT" in env and "HERE" in env:
            root_var, here_var = env["ROOT"], env["HERE"]
        else:  # `_run_command` could not be driven with the stub: fall back to the modelled source lines
            root_var = str(Path.cwd().relpath(wd))
            here_var = str(Path(wd).relpath())
    d = same_place(L.root, here_var, L.root, wd)
    if d:
        bad.append(("env-here-wrong", "HERE does not designate the step's working directory from the root",
                    {"HERE": here_var, "designates": d[0]}, d[1]))
    d = same_place(os.path.join(L.root, wd), root_var, L.root, ".")
    if d:
        bad.append(("env-root-wrong", "ROOT does not designate the root from the step's working directory",
                    {"ROOT": root_var, "designates": d[0]}, d[1]))
    return bad


def _report(ctx, sig, what, observed, expected, case):
    ctx.finding(Finding(PID, sig, what, {"case": case, "observed": observed, "expected": expected,
                                          "note": f"{BASE} is the temporary directory tree; project root is {BASE}/r"}))


async def search(ctx):
    r = ctx.rng("oracle")
    L = Layout()
    kinds = {}
    try:
        cases = [{"cwd": c, "root_env": e, "here": h, "wd": w, "p": p} for c, e, h, p, w in WITNESS_ENV]
        for _ in range(ctx.budget(10000, 80000)):
            cwd, root_env, here = gen_env(r)
            cases.append({"cwd": cwd, "root_env": root_env, "here": here, "wd": gen_workdir(r),
                          "p": gen_path(r, BASE)})
        for case in cases:
            ctx.stats.case(("oracle", repr(case)))
            kinds["cases"] = kinds.get("cases", 0) + 1
            for sig, what, observed, expected in check_one(L, case):
                kinds[sig] = kinds.get(sig, 0) + 1
                _report(ctx, sig, what, observed, expected, case)
        for _ in range(ctx.budget(1000, 10000)):
            kinds["label-groups"] = kinds.get("label-groups", 0) + 1
            for sig, what, observed, expected, detail in check_labels(L, r):
                _report(ctx, sig, what, observed, expected, detail)
        for _ in range(ctx.budget(300, 6000)):
            wd = r.choice(["sub", "sub/", "sub/deep", ".", "./", "a b/", "a/../b", "new/dir", "..", "../o/a"])
            wd = gen_path(r) if r.random() < 0.3 else wd
            if wd.startswith("/"):
                # an absolute working directory is taken as is: use one inside the temporary tree
                wd = os.path.join(r.choice([L.root, os.path.dirname(L.root)]), r.choice(["sub", "o/a", "."]))
            kinds["executor-env"] = kinds.get("executor-env", 0) + 1
            for sig, what, observed, expected in check_executor(L, wd):
                _report(ctx, sig, what, observed, expected, {"workdir": wd})
        kinds["executor-env:real-_run_command"] = EXECUTOR_DRIVE["real"]
        kinds["executor-env:modelled-source-lines"] = EXECUTOR_DRIVE["fallback"]
    finally:
        L.close()
    layouts = api_layouts()
    try:
        ra = ctx.rng("api-oracle")
        for _ in range(ctx.budget(900, 15000)):
            LA = ra.choice(layouts)
            case = gen_api_case(ra, LA)
            kinds["api-cases"] = kinds.get("api-cases", 0) + 1
            ctx.stats.case(("api-oracle", repr(case)))
            for sig, what, observed, expected in check_api_case(LA, case):
                kinds[sig] = kinds.get(sig, 0) + 1
                _report(ctx, sig, what, observed, expected, case)
    finally:
        for LA in layouts:
            LA.close()
    ctx.extra["oracle_checks"] = kinds


async def replay(ctx, detail):
    d = detail.get("detail", {})
    case = d.get("case", {})
    if "wrapper" in case:
        LA = ApiLayout(case["root"])
        try:
            failed = check_api_case(LA, case)
            hits = [f for f in failed if f[0] == detail.get("signature")] or failed
            return {"reproduced": bool(hits), "signature": detail.get("signature"),
                    "failed_checks": [{"signature": f[0], "what": f[1], "observed": f[2], "expected": f[3]}
                                      for f in hits]}
        finally:
            LA.close()
    L = Layout()
    try:
        if {"cwd", "root_env", "here", "wd", "p"} <= set(case):
            failed = check_one(L, case)
        elif "workdir" in case:
            failed = check_executor(L, case["workdir"])
        else:
            failed = []
        hits = [f for f in failed if f[0] == detail.get("signature")] or failed
        return {"reproduced": bool(hits), "signature": detail.get("signature"),
                "failed_checks": [{"signature": f[0], "what": f[1], "observed": f[2], "expected": f[3]} for f in hits]}
    finally:
        L.close()
